//! C51: the command-line client splits scripts at semicolons outside quotes and formats results faithfully.
//! Kinds of lines:
//!  "split":  arbitrary text through the real split_from_semicolon (hook); oracle = independent reference
//!            lexer (Normal / InSingle / InDouble), model-compared.  `src` = "exh" (all strings of length
//!            <= L over a 9 letter alphabet) or "rnd".
//!  "script": scripts built from statements that the real DFParser (generic dialect) accepts as exactly one
//!            statement, joined with ';' and whitespace; oracle = the split returns exactly the statements.
//!            `cls` = "std" (only '...' and "..." quoting) | "backtick" | "estring" | "dollar" | "comment".
//!  "fmt":    RecordBatches through the real PrintFormat::{Csv,Tsv,Json,NdJson}::print_batches; oracle =
//!            independent readers (hand-written RFC-4180 reader + csv crate reader; serde_json) give back the
//!            values; model-compared when all columns are strings.
use std::panic::{catch_unwind, AssertUnwindSafe};
use std::sync::Arc;

use arrow::array::{ArrayRef, BooleanArray, Int64Array, LargeStringArray, StringArray, StringViewArray};
use arrow::datatypes::{DataType, Field, Schema};
use arrow::record_batch::RecordBatch;
use datafusion_cli::print_format::PrintFormat;
use datafusion_cli::print_options::MaxRows;
use datafusion_cli::verif_hooks::split_from_semicolon;
use datafusion_common::config::FormatOptions;
use datafusion_sql::parser::DFParser;
use datafusion_sql::sqlparser::dialect::GenericDialect;
use h_util::{arg, Rng};

/// JSON string with everything outside printable ASCII written as \uXXXX (UTF-16 units), so that no
/// output line contains a character that Python's splitlines() treats as a line end (U+0085, U+2028 ...)
fn json_str(s: &str) -> String {
    let mut o = String::from("\"");
    for c in s.chars() {
        match c {
            '"' => o.push_str("\\\""),
            '\\' => o.push_str("\\\\"),
            ' '..='~' => o.push(c),
            _ => { let mut b = [0u16; 2]; for u in c.encode_utf16(&mut b) { o.push_str(&format!("\\u{:04x}", u)); } }
        }
    }
    o.push('"');
    o
}

// ------------------------------------------------------------------------------------------- split
#[derive(Clone, Copy, PartialEq)]
enum Lx { Normal, InSingle, InDouble }

/// independent reference: cut at ';' read in state Normal, drop blank segments, trim, append ';'
fn ref_split(s: &str) -> Vec<String> {
    let mut st = Lx::Normal;
    let mut segs: Vec<String> = vec![String::new()];
    for c in s.chars() {
        let is_sep = c == ';' && st == Lx::Normal;
        st = match (st, c) {
            (Lx::Normal, '\'') => Lx::InSingle,
            (Lx::Normal, '"') => Lx::InDouble,
            (Lx::InSingle, '\'') => Lx::Normal,
            (Lx::InDouble, '"') => Lx::Normal,
            (s, _) => s,
        };
        if is_sep { segs.push(String::new()); } else { segs.last_mut().unwrap().push(c); }
    }
    segs.iter().filter(|x| !x.trim().is_empty()).map(|x| format!("{};", x.trim())).collect()
}

fn strs_json(v: &[String]) -> String {
    let p: Vec<String> = v.iter().map(|s| json_str(s)).collect();
    format!("[{}]", p.join(","))
}

fn run_split(s: &str) -> Result<Vec<String>, String> {
    catch_unwind(AssertUnwindSafe(|| split_from_semicolon(s))).map_err(|e| {
        e.downcast_ref::<String>().cloned().or_else(|| e.downcast_ref::<&str>().map(|x| x.to_string())).unwrap_or_else(|| "panic".into())
    })
}

fn emit_split(src: &str, s: &str) {
    match run_split(s) {
        Ok(got) => {
            let want = ref_split(s);
            let ok = got == want;
            println!("{{\"k\":\"split\",\"src\":\"{src}\",\"s\":{},\"got\":{},\"want\":{},\"ok\":{ok}}}", json_str(s), strs_json(&got), strs_json(&want));
        }
        Err(p) => println!("{{\"k\":\"split\",\"src\":\"{src}\",\"s\":{},\"panic\":{},\"ok\":false}}", json_str(s), json_str(&p)),
    }
}

const EXH: &[char] = &['a', ' ', ';', '\'', '"', '\\', '`', '\n', '-'];
const RND: &[&str] = &["a", "b", " ", " ", ";", ";", "'", "'", "\"", "\"", "\\", "`", "\n", "-", "--", "\t", "\r", "''", "\"\"",
    "\u{a0}", "\u{2003}", "\u{85}", "\u{200b}", "\u{feff}", "\u{180e}", "\u{3000}", "\u{1680}", "\u{2028}", "\u{202f}", "\u{205f}", "\u{0b}", "\u{0c}", "\u{1c}", "\u{1f}",
    "é", "😀", "/*", "*/", "$$", "E'", "select", "1", ","];

fn exhaustive(len: usize) {
    // all strings of length 0..=len over EXH
    let mut idx: Vec<usize> = vec![];
    loop {
        let s: String = idx.iter().map(|&i| EXH[i]).collect();
        emit_split("exh", &s);
        // next
        let mut p = idx.len();
        loop {
            if p == 0 {
                if idx.len() == len { return; }
                idx = vec![0; idx.len() + 1];
                break;
            }
            p -= 1;
            if idx[p] + 1 < EXH.len() { idx[p] += 1; for q in p + 1..idx.len() { idx[q] = 0; } break; }
        }
    }
}

// ------------------------------------------------------------------------------------------ scripts
const BODY: &[&str] = &["a", "b", ";", ";", " ", "'", "\"", "`", "\n", "--", "\\", "x;y", "é", "😀", ";;", "$"];

fn gen_body(rng: &mut Rng, min: usize) -> String {
    let n = min + rng.below(4) as usize;
    (0..n).map(|_| *rng.pick(BODY)).collect()
}

/// one statement text and its class
fn gen_stmt(rng: &mut Rng, cls: &str) -> String {
    let sq = |b: &str| format!("'{}'", b.replace('\'', "''"));
    let dq = |b: &str| format!("\"{}\"", b.replace('"', "\"\""));
    let nitems = 1 + rng.below(3) as usize;
    let mut items = vec![];
    for i in 0..nitems {
        let special = i == 0;
        let mut it = match (cls, special) {
            ("estring", true) => format!("E'{}\\';{}'", gen_body(rng, 0).replace('\'', "").replace('\\', ""), gen_body(rng, 0).replace('\'', "").replace('\\', "")),
            ("dollar", true) => format!("$${};{}$$", gen_body(rng, 0).replace('$', ""), gen_body(rng, 0).replace('$', "")),
            _ => if rng.chance(3, 4) { sq(&gen_body(rng, 0)) } else { format!("{}", rng.below(100)) },
        };
        if cls == "backtick" && special {
            it.push_str(&format!(" AS `{};{}`", gen_body(rng, 0).replace('`', ""), gen_body(rng, 1).replace('`', "")));
        } else if rng.chance(1, 2) {
            let mut b = gen_body(rng, 1);
            if b.trim().is_empty() { b.push('c'); }
            it.push_str(&format!(" AS {}", dq(&b)));
        }
        items.push(it);
    }
    let mut s = format!("SELECT {}", items.join(", "));
    if cls == "comment" {
        s.push_str(if rng.chance(1, 2) { " -- it's; a comment\n" } else { " /* it's; a comment */" });
    }
    s
}

fn parses_as_one(sql: &str) -> bool {
    catch_unwind(AssertUnwindSafe(|| {
        matches!(DFParser::parse_sql_with_dialect(sql, &GenericDialect {}), Ok(v) if v.len() == 1)
    })).unwrap_or(false)
}

const WS: &[&str] = &["", "", " ", "\n", "  ", "\t", " \n ", "\u{a0}"];

fn emit_script(rng: &mut Rng, cls: &str) {
    let n = 1 + rng.below(4) as usize;
    let mut stmts: Vec<String> = vec![];
    for i in 0..n {
        // non-standard classes: exactly one statement of that class, the others standard
        let c = if cls != "std" && i == 0 { cls } else { "std" };
        stmts.push(gen_stmt(rng, c));
    }
    if cls != "std" { let k = rng.below(n as u64) as usize; stmts.swap(0, k); }
    let valid = stmts.iter().all(|s| parses_as_one(s));
    let mut script = String::new();
    for (i, s) in stmts.iter().enumerate() {
        script.push_str(*rng.pick(WS));
        script.push_str(s);
        script.push_str(*rng.pick(WS));
        if i + 1 < n || rng.chance(2, 3) {
            script.push(';');
            // now and then an empty statement
            if rng.chance(1, 6) { script.push_str(*rng.pick(WS)); script.push(';'); }
        }
    }
    script.push_str(*rng.pick(WS));
    let want: Vec<String> = stmts.iter().map(|s| format!("{};", s.trim())).collect();
    match run_split(&script) {
        Ok(got) => {
            let ok = !valid || got == want;
            // every returned piece must itself be exactly one statement when the inputs were
            let pieces_parse = got.iter().all(|p| parses_as_one(p));
            println!("{{\"k\":\"script\",\"cls\":\"{cls}\",\"valid\":{valid},\"stmts\":{},\"s\":{},\"got\":{},\"pieces_parse\":{pieces_parse},\"ok\":{ok}}}",
                strs_json(&stmts), json_str(&script), strs_json(&got));
        }
        Err(p) => println!("{{\"k\":\"script\",\"cls\":\"{cls}\",\"valid\":{valid},\"stmts\":{},\"s\":{},\"panic\":{},\"ok\":false}}", strs_json(&stmts), json_str(&script), json_str(&p)),
    }
}

// ------------------------------------------------------------------------------------------ formats
#[derive(Clone, Debug, PartialEq)]
enum Cell { Null, S(String), I(i64), B(bool) }

fn cell_json(c: &Cell) -> String {
    match c { Cell::Null => "null".into(), Cell::S(s) => json_str(s), Cell::I(i) => i.to_string(), Cell::B(b) => b.to_string() }
}

const CELL: &[&str] = &[",", "\t", "\"", "'", "\n", "\r", "\r\n", "a", "b", " ", "é", "日本", "😀", "\\", ";", "\u{0}", "\u{1}", "\u{8}", "\u{c}", "\u{1f}",
    "\u{7f}", "\u{85}", "\u{2028}", "#", "NULL", "null", "true", "1", "\"\"", ",,", "\\n", "\\u0041", "{", "}", "[", ":", "/"];
const NAMES: &[&str] = &["c", "a b", "x,y", "q\"uote", "tab\there", "名", "n", "semi;colon", "back\\slash", "nl\nname"];

fn gen_string(rng: &mut Rng) -> String {
    if rng.chance(1, 8) { return String::new(); }
    let n = 1 + rng.below(4) as usize;
    (0..n).map(|_| *rng.pick(CELL)).collect()
}

struct Table { names: Vec<String>, types: Vec<&'static str>, rows: Vec<Vec<Cell>> }

fn gen_table(rng: &mut Rng) -> Table {
    let ncols = 1 + rng.below(3) as usize;
    let mut names: Vec<String> = vec![];
    while names.len() < ncols {
        let n = rng.pick(NAMES).to_string();
        if !names.contains(&n) { names.push(n); }
    }
    let strings_only = rng.chance(3, 5);
    let types: Vec<&'static str> = (0..ncols).map(|_| {
        if strings_only { *rng.pick(&["utf8", "utf8", "largeutf8", "utf8view"]) } else { *rng.pick(&["utf8", "int64", "bool", "utf8"]) }
    }).collect();
    let nrows = 1 + rng.below(5) as usize;
    let rows = (0..nrows).map(|_| types.iter().map(|t| {
        if rng.chance(1, 6) { Cell::Null } else {
            match *t {
                "int64" => Cell::I(*rng.pick(&[0i64, 1, -1, 42, i64::MAX, i64::MIN, 1000000])),
                "bool" => Cell::B(rng.chance(1, 2)),
                _ => Cell::S(gen_string(rng)),
            }
        }
    }).collect()).collect();
    Table { names, types, rows }
}

fn to_batches(t: &Table, split_at: Option<usize>) -> (Arc<Schema>, Vec<RecordBatch>) {
    let fields: Vec<Field> = t.names.iter().zip(&t.types).map(|(n, ty)| Field::new(n, match *ty {
        "int64" => DataType::Int64, "bool" => DataType::Boolean, "largeutf8" => DataType::LargeUtf8, "utf8view" => DataType::Utf8View, _ => DataType::Utf8,
    }, true)).collect();
    let schema = Arc::new(Schema::new(fields));
    let cols: Vec<ArrayRef> = t.types.iter().enumerate().map(|(ci, ty)| {
        let strs = || t.rows.iter().map(|r| match &r[ci] { Cell::S(s) => Some(s.clone()), _ => None }).collect::<Vec<_>>();
        match *ty {
            "int64" => Arc::new(Int64Array::from(t.rows.iter().map(|r| match &r[ci] { Cell::I(i) => Some(*i), _ => None }).collect::<Vec<_>>())) as ArrayRef,
            "bool" => Arc::new(BooleanArray::from(t.rows.iter().map(|r| match &r[ci] { Cell::B(b) => Some(*b), _ => None }).collect::<Vec<_>>())) as ArrayRef,
            "largeutf8" => Arc::new(LargeStringArray::from(strs())) as ArrayRef,
            "utf8view" => Arc::new(StringViewArray::from(strs())) as ArrayRef,
            _ => Arc::new(StringArray::from(strs())) as ArrayRef,
        }
    }).collect();
    let b = RecordBatch::try_new(schema.clone(), cols).unwrap();
    let batches = match split_at {
        Some(k) if k > 0 && k < b.num_rows() => vec![b.slice(0, k), RecordBatch::new_empty(schema.clone()), b.slice(k, b.num_rows() - k)],
        _ => vec![b],
    };
    (schema, batches)
}

/// independent RFC-4180 style reader (accepts LF and CRLF line ends, skips empty lines)
fn read_csv(data: &[u8], d: u8) -> Result<Vec<Vec<Vec<u8>>>, String> {
    let mut recs = vec![];
    let mut i = 0;
    let n = data.len();
    while i < n {
        if data[i] == b'\n' { i += 1; continue; }
        if data[i] == b'\r' && i + 1 < n && data[i + 1] == b'\n' { i += 2; continue; }
        let mut rec: Vec<Vec<u8>> = vec![];
        loop {
            let mut f = vec![];
            if i < n && data[i] == b'"' {
                i += 1;
                loop {
                    if i >= n { return Err("unterminated quote".into()); }
                    if data[i] == b'"' {
                        if i + 1 < n && data[i + 1] == b'"' { f.push(b'"'); i += 2; } else { i += 1; break; }
                    } else { f.push(data[i]); i += 1; }
                }
                if i < n && data[i] != d && data[i] != b'\n' && !(data[i] == b'\r' && i + 1 < n && data[i + 1] == b'\n') {
                    return Err(format!("text after closing quote at {i}"));
                }
            } else {
                while i < n && data[i] != d && data[i] != b'\n' && !(data[i] == b'\r' && i + 1 < n && data[i + 1] == b'\n') {
                    if data[i] == b'"' { return Err(format!("quote inside unquoted field at {i}")); }
                    if data[i] == b'\r' { return Err(format!("bare CR inside unquoted field at {i}")); }
                    f.push(data[i]);
                    i += 1;
                }
            }
            rec.push(f);
            if i >= n { break; }
            if data[i] == d { i += 1; continue; }
            if data[i] == b'\n' { i += 1; break; }
            i += 2; // CRLF
            break;
        }
        recs.push(rec);
    }
    Ok(recs)
}

fn cell_text(c: &Cell) -> String {
    match c { Cell::Null => String::new(), Cell::S(s) => s.clone(), Cell::I(i) => i.to_string(), Cell::B(b) => b.to_string() }
}

fn check_delimited(t: &Table, out: &[u8], d: u8, header: bool) -> Result<(), String> {
    let mut want: Vec<Vec<Vec<u8>>> = vec![];
    if header { want.push(t.names.iter().map(|n| n.as_bytes().to_vec()).collect()); }
    for r in &t.rows { want.push(r.iter().map(|c| cell_text(c).into_bytes()).collect()); }
    let got = read_csv(out, d)?;
    if got != want { return Err(format!("reader 1 (RFC 4180) read {:?}", got.iter().map(|r| r.iter().map(|f| String::from_utf8_lossy(f).to_string()).collect::<Vec<_>>()).collect::<Vec<_>>())); }
    // second opinion: the csv crate's reader
    let mut rd = csv::ReaderBuilder::new().delimiter(d).has_headers(false).flexible(true).from_reader(out);
    let mut got2: Vec<Vec<Vec<u8>>> = vec![];
    for rec in rd.byte_records() {
        let rec = rec.map_err(|e| format!("csv crate reader: {e}"))?;
        got2.push(rec.iter().map(|f| f.to_vec()).collect());
    }
    if got2 != want { return Err(format!("reader 2 (csv crate) read {:?}", got2.iter().map(|r| r.iter().map(|f| String::from_utf8_lossy(f).to_string()).collect::<Vec<_>>()).collect::<Vec<_>>())); }
    Ok(())
}

fn check_json_rows(t: &Table, vals: &[serde_json::Value]) -> Result<(), String> {
    if vals.len() != t.rows.len() { return Err(format!("{} rows read, {} expected", vals.len(), t.rows.len())); }
    for (v, r) in vals.iter().zip(&t.rows) {
        let o = v.as_object().ok_or("row is not an object")?;
        let mut nkeys = 0;
        for (n, c) in t.names.iter().zip(r) {
            let g = o.get(n);
            let good = match (c, g) {
                (Cell::Null, None) | (Cell::Null, Some(serde_json::Value::Null)) => true,
                (Cell::S(s), Some(serde_json::Value::String(x))) => s == x,
                (Cell::I(i), Some(x)) => x.as_i64() == Some(*i),
                (Cell::B(b), Some(x)) => x.as_bool() == Some(*b),
                _ => false,
            };
            if g.is_some() { nkeys += 1; }
            if !good { return Err(format!("column {n:?}: wrote {c:?}, read {g:?}")); }
        }
        if nkeys != o.len() { return Err("unexpected extra keys".into()); }
    }
    Ok(())
}

fn check_json(t: &Table, out: &[u8], nd: bool) -> Result<(), String> {
    if nd {
        if !out.ends_with(b"\n") { return Err("no trailing newline".into()); }
        let body = &out[..out.len() - 1];
        let mut vals = vec![];
        for line in body.split(|b| *b == b'\n') {
            vals.push(serde_json::from_slice::<serde_json::Value>(line).map_err(|e| format!("line does not parse: {e}"))?);
        }
        check_json_rows(t, &vals)
    } else {
        let v: serde_json::Value = serde_json::from_slice(out).map_err(|e| format!("does not parse: {e}"))?;
        check_json_rows(t, v.as_array().ok_or("not an array")?)
    }
}

fn emit_fmt(rng: &mut Rng) {
    let t = gen_table(rng);
    let split_at = if rng.chance(1, 3) { Some(rng.below(t.rows.len() as u64 + 1) as usize) } else { None };
    let header = rng.chance(3, 4);
    let fmt = *rng.pick(&["csv", "tsv", "json", "ndjson", "auto"]);
    let pf = match fmt { "csv" => PrintFormat::Csv, "tsv" => PrintFormat::Tsv, "json" => PrintFormat::Json, "ndjson" => PrintFormat::NdJson, _ => PrintFormat::Automatic };
    let (schema, batches) = to_batches(&t, split_at);
    let res = catch_unwind(AssertUnwindSafe(|| {
        let mut buf: Vec<u8> = vec![];
        pf.print_batches(&mut buf, schema.clone(), &batches, MaxRows::Unlimited, header, &FormatOptions::default()).map(|_| buf).map_err(|e| e.to_string())
    }));
    let rows_json: Vec<String> = t.rows.iter().map(|r| format!("[{}]", r.iter().map(cell_json).collect::<Vec<_>>().join(","))).collect();
    let strings_only = t.types.iter().all(|x| x.contains("utf8"));
    let head = format!("{{\"k\":\"fmt\",\"fmt\":\"{fmt}\",\"header\":{header},\"names\":{},\"types\":{},\"rows\":[{}],\"nbatches\":{},\"strings_only\":{strings_only}",
        strs_json(&t.names), strs_json(&t.types.iter().map(|x| x.to_string()).collect::<Vec<_>>()), rows_json.join(","), batches.len());
    match res {
        Ok(Ok(out)) => {
            let chk = match fmt {
                "csv" | "auto" => check_delimited(&t, &out, b',', header),
                "tsv" => check_delimited(&t, &out, b'\t', header),
                "json" => check_json(&t, &out, false),
                _ => check_json(&t, &out, true),
            };
            let outs = String::from_utf8_lossy(&out).to_string();
            let utf8 = String::from_utf8(out.clone()).is_ok();
            match chk {
                Ok(()) => println!("{head},\"out\":{},\"utf8\":{utf8},\"ok\":{utf8}}}", json_str(&outs)),
                Err(w) => println!("{head},\"out\":{},\"utf8\":{utf8},\"why\":{},\"ok\":false}}", json_str(&outs), json_str(&w)),
            }
        }
        Ok(Err(e)) => println!("{head},\"error\":{},\"why\":\"print_batches returned an error\",\"ok\":false}}", json_str(&e)),
        Err(_) => println!("{head},\"why\":\"panic in print_batches\",\"ok\":false}}"),
    }
}

fn main() {
    let args: Vec<String> = std::env::args().collect();
    let seed: u64 = arg(&args, "--seed", "1").parse().unwrap();
    let n: usize = arg(&args, "--n", "300").parse().unwrap();
    let exh: usize = arg(&args, "--exh", "4").parse().unwrap();
    std::panic::set_hook(Box::new(|_| {}));
    let mut rng = Rng::new(seed);

    // fixed cases first (the unit tests' inputs, plus the shapes named in the property text)
    for s in ["", "SELECT 1", "SELECT 1;   ", "SELECT 1; SELECT 2;", "SELECT ';';", "SELECT \";\";",
              "SELECT 1; SELECT 'value;value'; SELECT 1 as \"text;text\";", "select 'it''s; fine'; select 2",
              "select '\"; ' ; select \"'; \"", ";;;", "  ;  a  ;  ", "select 'unterminated ; literal",
              "select 1 as `a;b`", "select E'a\\';b'", "select 1 -- c;d\n; select 2", "\u{a0}select\u{3000};\u{200b};\u{feff}"] {
        emit_split("fixed", s);
    }
    exhaustive(exh);
    for _ in 0..n {
        let len = rng.below(24) as usize;
        let s: String = (0..len).map(|_| *rng.pick(RND)).collect();
        emit_split("rnd", &s);
    }
    for i in 0..n {
        let cls = match i % 10 { 0 => "backtick", 1 => "estring", 2 => "dollar", 3 => "comment", _ => "std" };
        emit_script(&mut rng, cls);
    }
    for _ in 0..n {
        emit_fmt(&mut rng);
    }
}
