//! C46: benchmark result validation accepts exactly the persisted results.
//! Kinds of lines (one JSON object per line):
//!  "cmp": SqlBenchmark::compare_results(column_count, actual, expected) through the hook, on a random
//!         actual table and an expected table derived from it by one mutation   (oracle + model-compared)
//!  "rt":  a random Utf8 table is run, persisted (SqlBenchmark::persist), the written file is re-read
//!         (hook read_result_file), verified (SqlBenchmark::verify) and verified again after one
//!         mutation of the table                                                 (oracle + model-compared)
//!  "raw": a hand-made result file is read through read_result_file              (model-compared)
//!  "ph":  process_replacements_with_env on placeholder texts with random map / env
//!         (oracle by construction for the structured texts + model-compared)
use std::collections::HashMap;
use std::panic::{catch_unwind, AssertUnwindSafe};
use std::path::{Path, PathBuf};
use std::sync::Arc;

use arrow::array::{ArrayRef, RecordBatch, StringArray};
use arrow::datatypes::{DataType, Field, Schema};
use datafusion::datasource::MemTable;
use datafusion::prelude::SessionContext;
use datafusion_benchmarks::sql_benchmark::{verif_hooks as hk, SqlBenchmark};
use h_util::{arg, json_str, Rng};

type Cell = Option<String>;

const CELLS: &[&str] = &[
    "", "NULL", "null", "(empty)", " ", "  a ", "a\tb", "\t", "a|b", "|", "a\"b", "\"", "\"\"", "\"q\"",
    "a\nb", "\n", "\r", "a\r\nb", "1", "1.0", "01", "-0", "é", "日本", "x", "NULLABLE", "xNULL", "a,b", "#c",
    "\\", "'", "NULL ", "(empty) ", "Null", "()", "0", "a", "b", "||", "\"|\"", " |",
];

fn js_row(r: &[String]) -> String {
    format!("[{}]", r.iter().map(|s| json_str(s)).collect::<Vec<_>>().join(","))
}
fn js_rows(rs: &[Vec<String>]) -> String {
    format!("[{}]", rs.iter().map(|r| js_row(r)).collect::<Vec<_>>().join(","))
}
fn js_cell(c: &Cell) -> String {
    match c { None => "null".to_string(), Some(s) => json_str(s) }
}
fn js_crows(rs: &[Vec<Cell>]) -> String {
    format!("[{}]", rs.iter().map(|r| format!("[{}]", r.iter().map(js_cell).collect::<Vec<_>>().join(","))).collect::<Vec<_>>().join(","))
}
fn js_map(m: &[(String, String)]) -> String {
    format!("[{}]", m.iter().map(|(k, v)| format!("[{},{}]", json_str(k), json_str(v))).collect::<Vec<_>>().join(","))
}

// ---------------------------------------------------------------- the documented cell equivalence (oracle)
fn equiv(e: &str, a: &str) -> bool {
    e == a || (e == "NULL" && a.is_empty()) || (e == "(empty)" && (a.is_empty() || a == "NULL"))
}
/// the property's acceptance predicate: same row count, same column count per row, every compared cell equivalent
fn should_accept(cc: usize, act: &[Vec<String>], exp: &[Vec<String>]) -> bool {
    act.len() == exp.len()
        && act.iter().zip(exp).all(|(a, e)| a.len() == e.len() && (0..cc.min(e.len())).all(|j| equiv(&e[j], &a[j])))
}

/// error text of compare_results -> structured verdict
fn verdict_json(r: &Result<(), String>) -> (String, bool) {
    match r {
        Ok(()) => ("{\"v\":\"accept\"}".to_string(), true),
        Err(m) => {
            let num = |s: &str| -> Option<(i64, usize)> {
                let d: String = s.chars().take_while(|c| c.is_ascii_digit()).collect();
                d.parse::<i64>().ok().map(|n| (n, d.len()))
            };
            if let Some(p) = m.find("Error in result: expected ") {
                let rest = &m[p + "Error in result: expected ".len()..];
                if let Some((x, l)) = num(rest) {
                    let rest = &rest[l..];
                    for (word, tag) in [(" rows but got ", "rows"), (" columns but got ", "cols")] {
                        if let Some(r2) = rest.strip_prefix(word) {
                            if let Some((y, _)) = num(r2) {
                                return (format!("{{\"v\":\"{tag}\",\"exp\":{x},\"got\":{y}}}"), false);
                            }
                        }
                    }
                }
            }
            if let Some(p) = m.find("Error in result on row ") {
                let rest = &m[p + "Error in result on row ".len()..];
                if let Some((x, l)) = num(rest) {
                    if let Some(r2) = rest[l..].strip_prefix(", column ") {
                        if let Some((y, _)) = num(r2) {
                            return (format!("{{\"v\":\"cell\",\"row\":{x},\"col\":{y}}}"), false);
                        }
                    }
                }
            }
            (format!("{{\"v\":\"other\",\"msg\":{}}}", json_str(m)), false)
        }
    }
}

fn rand_cell_str(rng: &mut Rng) -> String {
    if rng.chance(1, 8) {
        // a composed cell
        let n = rng.range(2, 3);
        (0..n).map(|_| rng.pick(CELLS).to_string()).collect::<String>()
    } else {
        rng.pick(CELLS).to_string()
    }
}
fn rand_cell(rng: &mut Rng) -> Cell {
    if rng.chance(1, 6) { None } else { Some(rand_cell_str(rng)) }
}

// ---------------------------------------------------------------- cmp
fn case_cmp(rng: &mut Rng, i: u64) -> String {
    let nrows = rng.range(0, 5) as usize;
    let ncols = rng.range(0, 4) as usize;
    let act: Vec<Vec<String>> = (0..nrows).map(|_| (0..ncols).map(|_| rand_cell_str(rng)).collect()).collect();
    let mut exp = act.clone();
    let mut act = act;
    let mut cc = ncols;
    let mutation = rng.below(10);
    let mut what = "none";
    match mutation {
        0 | 1 => {}
        2 if nrows > 0 && ncols > 0 => {
            what = "expected cell := random";
            let (r, c) = (rng.below(nrows as u64) as usize, rng.below(ncols as u64) as usize);
            exp[r][c] = rand_cell_str(rng);
        }
        3 if nrows > 0 && ncols > 0 => {
            what = "expected cell := marker, actual cell := empty/NULL/other";
            let (r, c) = (rng.below(nrows as u64) as usize, rng.below(ncols as u64) as usize);
            exp[r][c] = rng.pick(&["NULL", "(empty)", "", "null"]).to_string();
            act[r][c] = rng.pick(&["", "NULL", "x", "(empty)", "null", " "]).to_string();
        }
        4 => {
            what = "row added/removed";
            if rng.chance(1, 2) && !exp.is_empty() {
                let r = rng.below(exp.len() as u64) as usize;
                exp.remove(r);
            } else {
                let r = rng.below(exp.len() as u64 + 1) as usize;
                exp.insert(r, (0..ncols).map(|_| rand_cell_str(rng)).collect());
            }
        }
        5 if nrows > 0 => {
            what = "cell added/removed in one expected row";
            let r = rng.below(nrows as u64) as usize;
            if rng.chance(1, 2) && !exp[r].is_empty() {
                let c = rng.below(exp[r].len() as u64) as usize;
                exp[r].remove(c);
            } else {
                exp[r].push(rand_cell_str(rng));
            }
        }
        6 => {
            what = "column_count differs from the width";
            cc = rng.range(0, 5) as usize;
            if nrows > 0 && ncols > 0 && rng.chance(2, 3) {
                let (r, c) = (rng.below(nrows as u64) as usize, rng.below(ncols as u64) as usize);
                exp[r][c] = rand_cell_str(rng);
            }
        }
        7 => {
            what = "independent expected";
            let nr = rng.range(0, 3) as usize;
            exp = (0..nr).map(|_| (0..ncols).map(|_| rand_cell_str(rng)).collect()).collect();
        }
        8 if nrows > 0 && ncols > 0 => {
            what = "two cells changed";
            for _ in 0..2 {
                let (r, c) = (rng.below(nrows as u64) as usize, rng.below(ncols as u64) as usize);
                act[r][c] = rand_cell_str(rng);
            }
        }
        _ => {}
    }
    let r = catch_unwind(AssertUnwindSafe(|| hk::compare_results(cc, &act, &exp)));
    let (vj, accepted, panicked) = match &r {
        Ok(r) => { let (j, a) = verdict_json(r); (j, a, false) }
        Err(_) => ("{\"v\":\"panic\"}".to_string(), false, true),
    };
    let want = should_accept(cc, &act, &exp);
    let ok = !panicked && accepted == want;
    format!(
        "{{\"k\":\"cmp\",\"i\":{i},\"mutation\":{},\"cc\":{cc},\"act\":{},\"exp\":{},\"verdict\":{vj},\"should_accept\":{want},\"ok\":{ok}}}",
        json_str(what), js_rows(&act), js_rows(&exp)
    )
}

// ---------------------------------------------------------------- rt
fn make_table(ncols: usize, rows: &[Vec<Cell>]) -> Arc<MemTable> {
    let fields: Vec<Field> = (0..ncols).map(|c| Field::new(format!("c{c}"), DataType::Utf8, true)).collect();
    let schema = Arc::new(Schema::new(fields));
    let cols: Vec<ArrayRef> = (0..ncols)
        .map(|c| Arc::new(StringArray::from(rows.iter().map(|r| r[c].clone()).collect::<Vec<Option<String>>>())) as ArrayRef)
        .collect();
    let batch = RecordBatch::try_new(Arc::clone(&schema), cols).expect("batch");
    Arc::new(MemTable::try_new(schema, vec![vec![batch]]).expect("memtable"))
}

fn read_written(path: &Path) -> Result<String, String> {
    if path.is_dir() {
        let mut files: Vec<PathBuf> = std::fs::read_dir(path).map_err(|e| e.to_string())?.filter_map(|e| e.ok().map(|e| e.path())).collect();
        files.sort();
        let mut out = String::new();
        for f in files {
            out.push_str(&std::fs::read_to_string(&f).map_err(|e| e.to_string())?);
        }
        Ok(out)
    } else {
        std::fs::read_to_string(path).map_err(|e| e.to_string())
    }
}

fn fmt_rows(rows: &[Vec<Cell>]) -> Vec<Vec<String>> {
    rows.iter().map(|r| r.iter().map(|c| c.clone().unwrap_or_else(|| "NULL".to_string())).collect()).collect()
}
/// what the persisted file is documented to stand for, computed from the persisted cells (not from the file)
fn expected_of(rows: &[Vec<Cell>]) -> Vec<Vec<String>> {
    rows.iter()
        .map(|r| r.iter().map(|c| match c { None => "NULL".to_string(), Some(s) if s.is_empty() => "NULL".to_string(), Some(s) => s.clone() }).collect())
        .collect()
}

async fn rt_async(dir: &Path, ncols: usize, rows: &[Vec<Cell>], mutated_cols: usize, mutated: &[Vec<Cell>])
    -> Result<(String, Result<(usize, Vec<Vec<String>>), String>, Result<(), String>, Result<(), String>), String> {
    std::fs::create_dir_all(dir).map_err(|e| e.to_string())?;
    let res_path = dir.join("res.csv");
    let bench_path = dir.join("q.benchmark");
    std::fs::write(&bench_path, format!("result {}\n\nrun\nSELECT * FROM t\n", res_path.display())).map_err(|e| e.to_string())?;
    // persist
    let ctx = SessionContext::new();
    ctx.register_table("t", make_table(ncols, rows)).map_err(|e| e.to_string())?;
    let mut bm = SqlBenchmark::new(&ctx, &bench_path, dir).await.map_err(|e| format!("new: {e}"))?;
    bm.initialize(&ctx).await.map_err(|e| format!("initialize: {e}"))?;
    bm.persist(&ctx).await.map_err(|e| format!("persist: {e}"))?;
    let text = read_written(&res_path)?;
    // re-read
    let ctx = SessionContext::new();
    let parsed = hk::read_result_file(&ctx, &res_path.to_string_lossy()).await;
    // verify the unchanged result
    let ctx = SessionContext::new();
    ctx.register_table("t", make_table(ncols, rows)).map_err(|e| e.to_string())?;
    let mut bm = SqlBenchmark::new(&ctx, &bench_path, dir).await.map_err(|e| format!("new: {e}"))?;
    bm.initialize(&ctx).await.map_err(|e| format!("initialize: {e}"))?;
    bm.run(&ctx, true).await.map_err(|e| format!("run: {e}"))?;
    let v0 = bm.verify(&ctx).await.map_err(|e| e.to_string());
    // verify a mutated result against the same file
    let ctx = SessionContext::new();
    ctx.register_table("t", make_table(mutated_cols, mutated)).map_err(|e| e.to_string())?;
    let mut bm = SqlBenchmark::new(&ctx, &bench_path, dir).await.map_err(|e| format!("new: {e}"))?;
    bm.initialize(&ctx).await.map_err(|e| format!("initialize: {e}"))?;
    bm.run(&ctx, true).await.map_err(|e| format!("run: {e}"))?;
    let v1 = bm.verify(&ctx).await.map_err(|e| e.to_string());
    Ok((text, parsed, v0, v1))
}

fn case_rt(rng: &mut Rng, i: u64, rt: &tokio::runtime::Runtime, tmp: &Path) -> String {
    let nrows = rng.range(0, 5) as usize;
    let ncols = rng.range(1, 4) as usize;
    let rows: Vec<Vec<Cell>> = (0..nrows).map(|_| (0..ncols).map(|_| rand_cell(rng)).collect()).collect();
    let mut mutated = rows.clone();
    let mut mcols = ncols;
    let mut what = "none";
    match rng.below(8) {
        0..=3 if nrows > 0 => {
            what = "one cell changed";
            let (r, c) = (rng.below(nrows as u64) as usize, rng.below(ncols as u64) as usize);
            let old = mutated[r][c].clone();
            let new = if rng.chance(1, 3) {
                // lean towards the NULL / empty family
                match rng.below(4) { 0 => None, 1 => Some(String::new()), 2 => Some("NULL".to_string()), _ => Some("(empty)".to_string()) }
            } else {
                rand_cell(rng)
            };
            mutated[r][c] = if new == old { Some("changed".to_string()) } else { new };
        }
        4 => {
            what = "row added";
            let r = rng.below(nrows as u64 + 1) as usize;
            mutated.insert(r, (0..ncols).map(|_| rand_cell(rng)).collect());
        }
        5 if nrows > 0 => {
            what = "row removed";
            let r = rng.below(nrows as u64) as usize;
            mutated.remove(r);
        }
        6 => {
            what = "column added";
            mcols = ncols + 1;
            for r in mutated.iter_mut() { r.push(rand_cell(rng)); }
        }
        7 if ncols > 1 => {
            what = "column removed";
            mcols = ncols - 1;
            for r in mutated.iter_mut() { r.pop(); }
        }
        _ => {}
    }
    let dir = tmp.join(format!("rt{i}"));
    let r = catch_unwind(AssertUnwindSafe(|| rt.block_on(rt_async(&dir, ncols, &rows, mcols, &mutated))));
    let _ = std::fs::remove_dir_all(&dir);
    let hdr: Vec<String> = (0..ncols).map(|c| format!("c{c}")).collect();
    let head = format!(
        "{{\"k\":\"rt\",\"i\":{i},\"mutation\":{},\"hdr\":{},\"rows\":{},\"mutated\":{}",
        json_str(what), js_row(&hdr), js_crows(&rows), js_crows(&mutated)
    );
    match r {
        Err(_) => format!("{head},\"panic\":true,\"ok\":false,\"why\":\"panic\"}}"),
        Ok(Err(e)) => format!("{head},\"error\":{},\"ok\":false,\"why\":\"persist/run failed\"}}", json_str(&e)),
        Ok(Ok((text, parsed, v0, v1))) => {
            let (v0j, acc0) = verdict_json(&v0);
            let (v1j, acc1) = verdict_json(&v1);
            // oracle: (a) its own persisted result is accepted; (b) the mutated result is accepted iff it has the
            // same shape and every cell is equivalent to what was persisted (documented NULL/empty equivalences)
            let want1 = should_accept(ncols, &fmt_rows(&mutated), &expected_of(&rows));
            let mut why = vec![];
            if !acc0 { why.push("the result just persisted is rejected by verify"); }
            if acc1 != want1 { why.push(if want1 { "an equivalent result is rejected" } else { "a differing result is accepted" }); }
            let pj = match &parsed {
                Ok((cc, e)) => format!("{{\"cc\":{cc},\"rows\":{}}}", js_rows(e)),
                Err(m) => format!("{{\"error\":{}}}", json_str(m)),
            };
            format!(
                "{head},\"file\":{},\"parsed\":{pj},\"v0\":{v0j},\"v1\":{v1j},\"should_accept_mutated\":{want1},\"ok\":{},\"why\":{}}}",
                json_str(&text), why.is_empty(), json_str(&why.join("; "))
            )
        }
    }
}

// ---------------------------------------------------------------- raw
const RAW: &[&str] = &["a", "b", "|", "\"", "\n", "\r", "\r\n", " ", "NULL", "é", "\"\"", "x y", "|", "\n", "\"|\"", "(empty)"];

fn case_raw(rng: &mut Rng, i: u64, rt: &tokio::runtime::Runtime, tmp: &Path) -> String {
    let ncols = rng.range(1, 3) as usize;
    let mut text = (0..ncols).map(|c| format!("c{c}")).collect::<Vec<_>>().join("|");
    text.push_str(*rng.pick(&["\n", "\n", "\r\n", "\r"]));
    let n = rng.range(0, 12);
    for _ in 0..n { text.push_str(*rng.pick(RAW)); }
    // like every file persist writes, the file ends with LF: schema inference sends the bytes through
    // object_store's LineDelimiter, which hands over a one-chunk file ending in LF unchanged
    if !text.ends_with('\n') { text.push('\n'); }
    let path = tmp.join(format!("raw{i}.csv"));
    std::fs::write(&path, &text).expect("write raw file");
    let r = catch_unwind(AssertUnwindSafe(|| rt.block_on(async {
        let ctx = SessionContext::new();
        hk::read_result_file(&ctx, &path.to_string_lossy()).await
    })));
    let _ = std::fs::remove_file(&path);
    let (pj, ok) = match &r {
        Ok(Ok((cc, e))) => (format!("{{\"cc\":{cc},\"rows\":{}}}", js_rows(e)), true),
        Ok(Err(m)) => (format!("{{\"error\":{}}}", json_str(m)), true),
        Err(_) => ("{\"panic\":true}".to_string(), false),
    };
    format!("{{\"k\":\"raw\",\"i\":{i},\"file\":{},\"parsed\":{pj},\"ok\":{ok}}}", json_str(&text))
}

// ---------------------------------------------------------------- ph
const KEYS: &[&str] = &["A", "b", "Var_1", "data_dir", "X9", "_", "TRUE", "use_parquet"];
const SAFE_LIT: &[&str] = &["", "load_", ".sql", " ", "x y", "é", "\n", "sf", "/", "-", "a.b", "→"];
const NOISE: &[&str] = &["$", "{", "}", "|", ":-", "${", "$$", "${}", "${A", "A}", ":", "-", "${A:-}", "${A|", "|x|", "${ A}", "a", " ", "\n", "${A:-d", "${b|t|}", "}}"];
const VALUES: &[&str] = &["v1", "true", "TRUE", "TrUe", "false", "", "${A}", "x|y", "}", "10", " true", "/tmp/data", "${b:-z}"];
const DEFAULTS: &[&str] = &["dflt", "true", "false", "TRUE", "1", " ", "csv", "a b", "$"];
const PLAIN_BRANCH: &[&str] = &["yes", "no", "parquet", "csv", "1", " ", "a b"];

fn vary_case(rng: &mut Rng, k: &str) -> String {
    match rng.below(4) {
        0 => k.to_uppercase(),
        1 => k.to_lowercase(),
        _ => k.to_string(),
    }
}

fn pick_key(rng: &mut Rng, extra: &[&str]) -> String {
    let all: Vec<&str> = KEYS.iter().chain(extra.iter()).copied().collect();
    let k = all[rng.below(all.len() as u64) as usize];
    vary_case(rng, k)
}

fn resolve(map: &HashMap<String, String>, env: &HashMap<String, String>, key: &str, default: Option<&str>) -> Result<String, String> {
    if let Some(v) = map.get(&key.to_lowercase()) { return Ok(v.clone()); }
    if let Some(v) = env.get(&key.to_uppercase()) { return Ok(v.clone()); }
    match default { Some(d) => Ok(d.to_string()), None => Err(key.to_string()) }
}

fn case_ph(rng: &mut Rng, i: u64) -> String {
    // map (keys stored lower-cased by insert_replacement; a few raw, never-found spellings) and env
    let mut map: HashMap<String, String> = HashMap::new();
    let mut env: HashMap<String, String> = HashMap::new();
    for k in KEYS {
        if rng.chance(1, 3) { hk::insert_replacement(&mut map, &vary_case(rng, k), rng.pick(VALUES).to_string()); }
        if rng.chance(1, 3) { env.insert(k.to_uppercase(), rng.pick(VALUES).to_string()); }
    }
    if rng.chance(1, 6) { map.insert("RAW_UPPER".to_string(), "never".to_string()); }
    if rng.chance(1, 6) { env.insert("raw_lower".to_string(), "never".to_string()); }
    let structured = rng.chance(2, 3);
    let mut input = String::new();
    // by-construction expectation for structured texts: text after pass 1 as pieces (text, rescanned-variable?)
    let mut tf_err: Option<String> = None;
    let mut pass2: Vec<Result<String, String>> = vec![];
    let npieces = rng.range(0, 5);
    for _ in 0..npieces {
        if !structured && rng.chance(1, 2) {
            input.push_str(*rng.pick(NOISE));
            continue;
        }
        match rng.below(6) {
            0 | 1 => {
                let l = rng.pick(SAFE_LIT);
                input.push_str(l);
                pass2.push(Ok(l.to_string()));
            }
            2 => {
                let k = pick_key(rng, &["MISSING", "raw_upper", "RAW_LOWER"]);
                input.push_str(&format!("${{{k}}}"));
                pass2.push(resolve(&map, &env, &k, None));
            }
            3 => {
                let k = pick_key(rng, &["MISSING"]);
                let d = rng.pick(DEFAULTS);
                input.push_str(&format!("${{{k}:-{d}}}"));
                pass2.push(resolve(&map, &env, &k, Some(d)));
            }
            _ => {
                let k = pick_key(rng, &["MISSING"]);
                let d = if rng.chance(1, 2) { Some(*rng.pick(DEFAULTS)) } else { None };
                // the true branch may itself be a variable reference (resolved by the second pass)
                let tvar = if rng.chance(1, 3) { Some(pick_key(rng, &["MISSING"])) } else { None };
                let t = match &tvar { Some(v) => format!("${{{v}}}"), None => rng.pick(PLAIN_BRANCH).to_string() };
                let f = rng.pick(PLAIN_BRANCH).to_string();
                match d {
                    Some(d) => input.push_str(&format!("${{{k}:-{d}|{t}|{f}}}")),
                    None => input.push_str(&format!("${{{k}|{t}|{f}}}")),
                }
                match resolve(&map, &env, &k, d) {
                    Err(k) => { if tf_err.is_none() { tf_err = Some(k); } }
                    Ok(v) => {
                        if v.eq_ignore_ascii_case("true") {
                            match &tvar { Some(v) => pass2.push(resolve(&map, &env, v, None)), None => pass2.push(Ok(t)) }
                        } else {
                            pass2.push(Ok(f));
                        }
                    }
                }
            }
        }
    }
    let envc = env.clone();
    let r = catch_unwind(AssertUnwindSafe(|| hk::process_replacements_with_env(&input, &map, &envc)));
    let (oj, got): (String, Option<Result<String, String>>) = match &r {
        Ok(Ok(s)) => (format!("{{\"ok\":{}}}", json_str(s)), Some(Ok(s.clone()))),
        Ok(Err(m)) => {
            let pre = "Missing value for key '";
            match m.find(pre) {
                Some(p) if m.ends_with('\'') => {
                    let k = &m[p + pre.len()..m.len() - 1];
                    (format!("{{\"missing\":{}}}", json_str(k)), Some(Err(k.to_string())))
                }
                _ => (format!("{{\"other\":{}}}", json_str(m)), None),
            }
        }
        Err(_) => ("{\"panic\":true}".to_string(), None),
    };
    let mut ok = !matches!(r, Err(_));
    let mut wantj = "null".to_string();
    if structured {
        let want: Result<String, String> = match tf_err {
            Some(k) => Err(k),
            None => pass2.into_iter().collect::<Result<Vec<String>, String>>().map(|v| v.concat()),
        };
        wantj = match &want { Ok(s) => format!("{{\"ok\":{}}}", json_str(s)), Err(k) => format!("{{\"missing\":{}}}", json_str(k)) };
        ok = ok && got.as_ref() == Some(&want);
    }
    let mut mv: Vec<(String, String)> = map.into_iter().collect();
    mv.sort();
    let mut ev: Vec<(String, String)> = env.into_iter().collect();
    ev.sort();
    format!(
        "{{\"k\":\"ph\",\"i\":{i},\"structured\":{structured},\"map\":{},\"env\":{},\"input\":{},\"out\":{oj},\"want\":{wantj},\"ok\":{ok}}}",
        js_map(&mv), js_map(&ev), json_str(&input)
    )
}

fn main() {
    let args: Vec<String> = std::env::args().collect();
    let seed: u64 = arg(&args, "--seed", "1").parse().unwrap();
    let n: u64 = arg(&args, "--n", "100").parse().unwrap();
    let mut rng = Rng::new(seed);
    std::panic::set_hook(Box::new(|_| {}));
    let rt = tokio::runtime::Builder::new_multi_thread().worker_threads(2).enable_all().build().expect("runtime");
    let tmp = std::env::temp_dir().join(format!("c46_{}", std::process::id()));
    std::fs::create_dir_all(&tmp).expect("tmp dir");
    for i in 0..n {
        // 10 cases: 4 cmp, 2 rt, 1 raw, 3 ph
        let line = match i % 10 {
            0 | 3 | 6 | 8 => case_cmp(&mut rng, i),
            1 | 5 => case_rt(&mut rng, i, &rt, &tmp),
            4 => case_raw(&mut rng, i, &rt, &tmp),
            _ => case_ph(&mut rng, i),
        };
        println!("{line}");
    }
    let _ = std::fs::remove_dir_all(&tmp);
}
