//! C10 -- Repartitioning delivers every row exactly once to the right partition.
//! (a) BatchPartitioner::partition_iter directly: hash (create_hashes with REPARTITION_RANDOM_STATE is printed so the
//!     model can compute hash mod n), round robin, range (RangePartitioning is publicly constructible) + RangeExpr.
//! (b) RepartitionExec::execute end to end: multi-partition in-memory inputs x schemes x 1..8 outputs x preserve_order x
//!     batch sizes x memory pools forcing spill x early drops, on multi-thread tokio runtimes, with a watchdog.
//! One JSON object per line; "ok" is the direct oracle evaluated on the implementation's own output.
use std::cmp::Ordering;
use std::collections::HashMap;
use std::panic::{catch_unwind, AssertUnwindSafe};
use std::sync::Arc;
use std::time::Duration;

use arrow::array::{Array, ArrayRef, Int64Array, RecordBatch, StringArray, UInt64Array};
use arrow::compute::SortOptions;
use arrow::datatypes::{DataType, Field, Schema, SchemaRef};
use datafusion_common::hash_utils::create_hashes;
use datafusion_common::{ScalarValue, SplitPoint};
use datafusion_execution::config::SessionConfig;
use datafusion_execution::runtime_env::RuntimeEnvBuilder;
use datafusion_execution::TaskContext;
use datafusion_physical_expr::expressions::col;
use datafusion_physical_expr::{LexOrdering, Partitioning, PhysicalExpr, PhysicalSortExpr, RangePartitioning};
use datafusion_physical_plan::metrics::Time;
use datafusion_physical_plan::repartition::{BatchPartitioner, RangeExpr, RepartitionExec, REPARTITION_RANDOM_STATE};
use datafusion_physical_plan::test::TestMemoryExec;
use datafusion_physical_plan::ExecutionPlan;
use futures::StreamExt;
use h_util::{arg, json_list, json_str, Rng};

// ------------------------------------------------------------------ data
#[derive(Clone, Debug, PartialEq, Eq)]
enum Cell {
    Null,
    I(i64),
    S(String),
}
type Opt = (bool, bool); // (descending, nulls_first)
const NCOLS: usize = 3; // k0: Int64, k1: Utf8, k2: Int64; then id: Int64

#[derive(Clone, Debug)]
struct Row {
    cells: Vec<Cell>, // NCOLS cells
    id: i64,
}

fn cmp_cell(o: Opt, a: &Cell, b: &Cell) -> Ordering {
    // the harness's own reading of the documented order (independent of compare_rows)
    let v = match (a, b) {
        (Cell::Null, Cell::Null) => return Ordering::Equal,
        (Cell::Null, _) => return if o.1 { Ordering::Less } else { Ordering::Greater },
        (_, Cell::Null) => return if o.1 { Ordering::Greater } else { Ordering::Less },
        (Cell::I(x), Cell::I(y)) => x.cmp(y),
        (Cell::S(x), Cell::S(y)) => x.as_bytes().cmp(y.as_bytes()),
        _ => panic!("mixed cell types"),
    };
    if o.0 { v.reverse() } else { v }
}
fn cmp_key(os: &[Opt], a: &[Cell], b: &[Cell]) -> Ordering {
    for (i, o) in os.iter().enumerate() {
        let c = cmp_cell(*o, &a[i], &b[i]);
        if c != Ordering::Equal {
            return c;
        }
    }
    Ordering::Equal
}

fn schema() -> SchemaRef {
    Arc::new(Schema::new(vec![
        Field::new("k0", DataType::Int64, true),
        Field::new("k1", DataType::Utf8, true),
        Field::new("k2", DataType::Int64, true),
        Field::new("id", DataType::Int64, false),
    ]))
}
fn col_array(rows: &[Row], c: usize) -> ArrayRef {
    if c == 1 {
        Arc::new(StringArray::from(
            rows.iter().map(|r| match &r.cells[c] { Cell::S(s) => Some(s.clone()), _ => None }).collect::<Vec<_>>(),
        ))
    } else {
        Arc::new(Int64Array::from(
            rows.iter().map(|r| match &r.cells[c] { Cell::I(v) => Some(*v), _ => None }).collect::<Vec<_>>(),
        ))
    }
}
fn batch(sch: &SchemaRef, rows: &[Row]) -> RecordBatch {
    let mut cols: Vec<ArrayRef> = (0..NCOLS).map(|c| col_array(rows, c)).collect();
    cols.push(Arc::new(Int64Array::from(rows.iter().map(|r| r.id).collect::<Vec<_>>())));
    RecordBatch::try_new(Arc::clone(sch), cols).unwrap()
}
fn ids_of(b: &RecordBatch) -> Vec<i64> {
    b.column(NCOLS).as_any().downcast_ref::<Int64Array>().unwrap().values().to_vec()
}
fn hashes_of(b: &RecordBatch, kcols: &[usize]) -> Vec<u64> {
    let arrays: Vec<ArrayRef> = kcols.iter().map(|c| Arc::clone(b.column(*c))).collect();
    let mut buf = vec![0u64; b.num_rows()];
    create_hashes(&arrays, REPARTITION_RANDOM_STATE.random_state(), &mut buf).unwrap();
    buf
}

const STRS: &[&str] = &["", "a", "ab", "abc", "b", "aa", "B", "z", "\u{e9}", "a\u{0}", "~"];
fn gen_cell(rng: &mut Rng, c: usize, dom: i64, nullp: u64) -> Cell {
    if rng.chance(nullp, 100) {
        return Cell::Null;
    }
    if c == 1 {
        let k = (dom.max(1) as usize).min(STRS.len());
        Cell::S(STRS[rng.below(k as u64) as usize].to_string())
    } else if rng.chance(3, 100) {
        Cell::I(*rng.pick(&[i64::MIN, i64::MAX, i64::MIN + 1, i64::MAX - 1]))
    } else {
        Cell::I(rng.range(-dom, dom))
    }
}
fn gen_cells(rng: &mut Rng, dom: i64, nullp: u64) -> Vec<Cell> {
    (0..NCOLS).map(|c| gen_cell(rng, c, dom, nullp)).collect()
}
fn gen_kcols(rng: &mut Rng) -> Vec<usize> {
    // 1-3 distinct key columns in a random order (LexOrdering / hash exprs)
    let mut all = vec![0usize, 1, 2];
    for i in (1..all.len()).rev() {
        let j = rng.below(i as u64 + 1) as usize;
        all.swap(i, j);
    }
    let k = 1 + rng.below(3) as usize;
    all.truncate(k);
    all
}
fn gen_opts(rng: &mut Rng, n: usize) -> Vec<Opt> {
    (0..n).map(|_| (rng.chance(1, 2), rng.chance(1, 2))).collect()
}

// ------------------------------------------------------------------ JSON
fn j_cell(c: &Cell) -> String {
    match c {
        Cell::Null => "null".into(),
        Cell::I(v) => format!("[{v}]"),
        Cell::S(s) => json_list(&s.as_bytes().iter().map(|b| *b as i64).collect::<Vec<_>>()),
    }
}
fn j_key(cells: &[Cell], kcols: &[usize]) -> String {
    let v: Vec<String> = kcols.iter().map(|c| j_cell(&cells[*c])).collect();
    format!("[{}]", v.join(","))
}
fn j_keys(rows: &[Row], kcols: &[usize]) -> String {
    let v: Vec<String> = rows.iter().map(|r| j_key(&r.cells, kcols)).collect();
    format!("[{}]", v.join(","))
}
fn j_opts(os: &[Opt]) -> String {
    let v: Vec<String> = os.iter().map(|o| format!("[{},{}]", o.0, o.1)).collect();
    format!("[{}]", v.join(","))
}
fn j_obs(obs: &[(usize, Vec<i64>)]) -> String {
    let v: Vec<String> = obs.iter().map(|(p, ids)| format!("[{},{}]", p, json_list(ids))).collect();
    format!("[{}]", v.join(","))
}
fn panic_msg(e: Box<dyn std::any::Any + Send>) -> String {
    if let Some(s) = e.downcast_ref::<String>() {
        s.clone()
    } else if let Some(s) = e.downcast_ref::<&str>() {
        s.to_string()
    } else {
        "panic".into()
    }
}

// ------------------------------------------------------------------ schemes
#[derive(Clone, Debug)]
enum Scheme {
    Hash { kcols: Vec<usize>, n: usize },
    RoundRobin { n: usize },
    Range { kcols: Vec<usize>, os: Vec<Opt>, sps: Vec<Vec<Cell>>, valid: bool }, // split point cells are key-width
}
impl Scheme {
    fn outputs(&self) -> usize {
        match self {
            Scheme::Hash { n, .. } | Scheme::RoundRobin { n } => *n,
            Scheme::Range { sps, .. } => sps.len() + 1,
        }
    }
    fn json(&self) -> String {
        match self {
            Scheme::Hash { kcols, n } => format!("{{\"t\":\"hash\",\"n\":{},\"kcols\":{}}}", n, json_list(kcols)),
            Scheme::RoundRobin { n } => format!("{{\"t\":\"rr\",\"n\":{}}}", n),
            Scheme::Range { kcols, os, sps, valid } => {
                let all: Vec<usize> = (0..kcols.len()).collect();
                let v: Vec<String> = sps.iter().map(|s| j_key(s, &all)).collect();
                format!(
                    "{{\"t\":\"range\",\"kcols\":{},\"os\":{},\"sps\":[{}],\"valid\":{}}}",
                    json_list(kcols),
                    j_opts(os),
                    v.join(","),
                    valid
                )
            }
        }
    }
}
fn scalar(c: &Cell, col: usize) -> ScalarValue {
    match (c, col) {
        (Cell::Null, 1) => ScalarValue::Utf8(None),
        (Cell::Null, _) => ScalarValue::Int64(None),
        (Cell::I(v), _) => ScalarValue::Int64(Some(*v)),
        (Cell::S(s), _) => ScalarValue::Utf8(Some(s.clone())),
    }
}
fn lex(sch: &SchemaRef, kcols: &[usize], os: &[Opt]) -> LexOrdering {
    let v: Vec<PhysicalSortExpr> = kcols
        .iter()
        .zip(os)
        .map(|(c, o)| PhysicalSortExpr {
            expr: col(sch.field(*c).name(), sch).unwrap(),
            options: SortOptions { descending: o.0, nulls_first: o.1 },
        })
        .collect();
    LexOrdering::new(v).unwrap()
}
fn range_partitioning(sch: &SchemaRef, kcols: &[usize], os: &[Opt], sps: &[Vec<Cell>]) -> RangePartitioning {
    let split_points: Vec<SplitPoint> = sps
        .iter()
        .map(|s| SplitPoint::new(s.iter().zip(kcols).map(|(c, k)| scalar(c, *k)).collect()))
        .collect();
    RangePartitioning::new(lex(sch, kcols, os), split_points)
}
fn partitioning(sch: &SchemaRef, s: &Scheme) -> Partitioning {
    match s {
        Scheme::Hash { kcols, n } => {
            let exprs: Vec<Arc<dyn PhysicalExpr>> = kcols.iter().map(|c| col(sch.field(*c).name(), sch).unwrap()).collect();
            Partitioning::Hash(exprs, *n)
        }
        Scheme::RoundRobin { n } => Partitioning::RoundRobinBatch(*n),
        Scheme::Range { kcols, os, sps, .. } => Partitioning::Range(range_partitioning(sch, kcols, os, sps)),
    }
}
fn gen_range(rng: &mut Rng, dom: i64, max_sps: usize) -> Scheme {
    let kcols = gen_kcols(rng);
    let os = gen_opts(rng, kcols.len());
    let want = rng.below(max_sps as u64 + 1) as usize;
    let mut sps: Vec<Vec<Cell>> = (0..want)
        .map(|_| kcols.iter().map(|c| gen_cell(rng, *c, dom, 15)).collect())
        .collect();
    let valid = !rng.chance(1, 10);
    if valid {
        sps.sort_by(|a, b| cmp_key(&os, a, b));
        sps.dedup_by(|a, b| cmp_key(&os, a, b) == Ordering::Equal);
    }
    let valid = valid || sps.windows(2).all(|w| cmp_key(&os, &w[0], &w[1]) == Ordering::Less);
    Scheme::Range { kcols, os, sps, valid }
}
/// the routing definition, computed by the harness itself
fn range_expected(os: &[Opt], sps: &[Vec<Cell>], key: &[Cell]) -> usize {
    sps.iter().filter(|s| cmp_key(os, s, key) != Ordering::Greater).count()
}
fn key_of(r: &Row, kcols: &[usize]) -> Vec<Cell> {
    kcols.iter().map(|c| r.cells[*c].clone()).collect()
}

// ------------------------------------------------------------------ (a) BatchPartitioner directly
fn run_partitioner(p: &mut BatchPartitioner, b: RecordBatch) -> Result<Vec<(usize, Vec<i64>)>, String> {
    let r = catch_unwind(AssertUnwindSafe(|| -> Result<Vec<(usize, Vec<i64>)>, String> {
        let mut out = vec![];
        for res in p.partition_iter(b).map_err(|e| e.to_string())? {
            let (part, rb) = res.map_err(|e| e.to_string())?;
            out.push((part, ids_of(&rb)));
        }
        Ok(out)
    }));
    match r {
        Ok(x) => x,
        Err(e) => Err(format!("panic: {}", panic_msg(e))),
    }
}

/// exactly-once / ascending / non-empty / increasing partitions / each id where `expect` says
fn check_obs(obs: &[(usize, Vec<i64>)], nrows: usize, nparts: usize, expect: &dyn Fn(usize) -> Option<usize>) -> Result<(), String> {
    let mut seen = vec![0usize; nrows];
    let mut last: Option<usize> = None;
    for (p, ids) in obs {
        if *p >= nparts {
            return Err(format!("partition {p} out of range"));
        }
        if let Some(l) = last {
            if *p <= l {
                return Err("partitions not increasing".into());
            }
        }
        last = Some(*p);
        if ids.is_empty() {
            return Err(format!("empty batch for partition {p}"));
        }
        for w in ids.windows(2) {
            if w[0] >= w[1] {
                return Err(format!("rows of partition {p} not in input order"));
            }
        }
        for id in ids {
            if *id < 0 || *id as usize >= nrows {
                return Err(format!("unknown row id {id}"));
            }
            seen[*id as usize] += 1;
            if let Some(e) = expect(*id as usize) {
                if e != *p {
                    return Err(format!("row {id} in partition {p}, routing definition says {e}"));
                }
            }
        }
    }
    for (i, c) in seen.iter().enumerate() {
        if *c != 1 {
            return Err(format!("row {i} delivered {c} times"));
        }
    }
    Ok(())
}

/// The (a) cases are synchronous calls: a partitioner that loops forever cannot be interrupted, so they run on a helper
/// thread; if it does not come back in time the case is reported as a failing input and the process ends.
fn with_deadline<F: FnOnce(&mut Rng) + Send + 'static>(rng: &mut Rng, secs: u64, what: &str, f: F) {
    let mut local = Rng(rng.0);
    let (tx, rx) = std::sync::mpsc::channel();
    std::thread::spawn(move || {
        f(&mut local);
        let _ = tx.send(local.0);
    });
    match rx.recv_timeout(Duration::from_secs(secs)) {
        Ok(state) => rng.0 = state,
        Err(_) => {
            println!("{{\"k\":\"sync-hang\",\"what\":{},\"rng_state\":{},\"ok\":false,\"why\":{}}}", json_str(what), rng.0, json_str(&format!("hang: {what} did not return within {secs}s")));
            use std::io::Write;
            let _ = std::io::stdout().flush();
            std::process::exit(0);
        }
    }
}

fn gen_rows(rng: &mut Rng, n: usize, dom: i64, nullp: u64) -> Vec<Row> {
    (0..n).map(|i| Row { cells: gen_cells(rng, dom, nullp), id: i as i64 }).collect()
}

fn hash_case(rng: &mut Rng, fixed: Option<(usize, Vec<usize>)>) {
    let sch = schema();
    let (n, kcols) = fixed.unwrap_or_else(|| (*rng.pick(&[1usize, 2, 3, 4, 5, 6, 7, 8, 9, 16, 17, 64]), gen_kcols(rng)));
    let exprs: Vec<Arc<dyn PhysicalExpr>> = kcols.iter().map(|c| col(sch.field(*c).name(), &sch).unwrap()).collect();
    let mut part = BatchPartitioner::new_hash_partitioner(exprs, n, Time::new()).unwrap();
    // several batches through the same partitioner (the index buffers are reused)
    let nb = 1 + rng.below(3);
    for _ in 0..nb {
        let dom = *rng.pick(&[1i64, 2, 3, 10, 1000]);
        let nullp = *rng.pick(&[0u64, 10, 30, 90]);
        let nrows = *rng.pick(&[0usize, 1, 2, 3, 5, 8, 13, 21, 40]);
        let rows = gen_rows(rng, nrows, dom, nullp);
        let b = batch(&sch, &rows);
        let hashes = hashes_of(&b, &kcols);
        let res = run_partitioner(&mut part, b);
        let (ok, why, obs) = match &res {
            Err(e) => (false, e.clone(), vec![]),
            Ok(obs) => {
                let mut r = check_obs(obs, nrows, n, &|i| Some((hashes[i] % n as u64) as usize));
                if r.is_ok() {
                    // equal keys => same output
                    let mut by_key: HashMap<String, usize> = HashMap::new();
                    for (p, ids) in obs {
                        for id in ids {
                            let k = j_key(&rows[*id as usize].cells, &kcols);
                            if let Some(q) = by_key.insert(k, *p) {
                                if q != *p {
                                    r = Err(format!("equal keys in outputs {q} and {p}"));
                                }
                            }
                        }
                    }
                }
                (r.is_ok(), r.err().unwrap_or_default(), obs.clone())
            }
        };
        println!(
            "{{\"k\":\"hash\",\"n\":{},\"kcols\":{},\"keys\":{},\"hashes\":{},\"obs\":{},\"ok\":{},\"why\":{}}}",
            n,
            json_list(&kcols),
            j_keys(&rows, &kcols),
            json_list(&hashes),
            j_obs(&obs),
            ok,
            json_str(&why)
        );
    }
}

fn rr_case(rng: &mut Rng, fixed: Option<(usize, usize, usize)>) {
    let sch = schema();
    let (n, i, m) = fixed.unwrap_or_else(|| {
        let m = 1 + rng.below(7) as usize;
        (1 + rng.below(9) as usize, rng.below(m as u64) as usize, m)
    });
    let mut part = BatchPartitioner::new_round_robin_partitioner(n, Time::new(), i, m);
    let k = rng.below(14) as usize;
    let mut obs = vec![];
    let mut why = String::new();
    for j in 0..k {
        let nrows = *rng.pick(&[0usize, 1, 2, 5]);
        let rows: Vec<Row> = (0..nrows).map(|x| Row { cells: gen_cells(rng, 3, 20), id: (j * 100 + x) as i64 }).collect();
        match run_partitioner(&mut part, batch(&sch, &rows)) {
            Err(e) => {
                why = e;
                break;
            }
            Ok(o) => {
                if o.len() != 1 || o[0].1 != rows.iter().map(|r| r.id).collect::<Vec<_>>() {
                    why = format!("batch {j} not delivered whole to one partition");
                }
                if let Some(x) = o.first() {
                    if x.0 != (i * n / m + j) % n && why.is_empty() {
                        why = format!("batch {j} to partition {}, expected {}", x.0, (i * n / m + j) % n);
                    }
                    obs.push(x.0 as i64);
                }
            }
        }
    }
    println!(
        "{{\"k\":\"rr\",\"n\":{},\"i\":{},\"m\":{},\"obs\":{},\"ok\":{},\"why\":{}}}",
        n,
        i,
        m,
        json_list(&obs),
        why.is_empty(),
        json_str(&why)
    );
}

fn range_case(rng: &mut Rng, fixed: Option<Scheme>) {
    let sch = schema();
    let dom = *rng.pick(&[1i64, 2, 3, 10]);
    let s = fixed.unwrap_or_else(|| gen_range(rng, dom, 8));
    let Scheme::Range { kcols, os, sps, valid } = s.clone() else { unreachable!() };
    let rp = range_partitioning(&sch, &kcols, &os, &sps);
    let mut part = match BatchPartitioner::try_new(Partitioning::Range(rp.clone()), Time::new(), 0, 1) {
        Ok(p) => p,
        Err(e) => {
            println!("{{\"k\":\"range\",\"scheme\":{},\"ok\":false,\"why\":{}}}", s.json(), json_str(&e.to_string()));
            return;
        }
    };
    let nb = 1 + rng.below(2);
    for _ in 0..nb {
        let nullp = *rng.pick(&[0u64, 10, 30]);
        let nrows = *rng.pick(&[0usize, 1, 2, 3, 5, 8, 13, 21, 40]);
        let rows = gen_rows(rng, nrows, dom + 1, nullp);
        let b = batch(&sch, &rows);
        let res = run_partitioner(&mut part, b.clone());
        let (mut ok, mut why, obs) = match &res {
            Err(e) => (false, e.clone(), vec![]),
            Ok(obs) => {
                let r = if sps.is_empty() {
                    // no split points: the whole batch (even an empty one) goes to partition 0
                    if obs.len() == 1 && obs[0].0 == 0 && obs[0].1 == (0..nrows as i64).collect::<Vec<_>>() { Ok(()) } else { Err("batch not delivered whole to partition 0".to_string()) }
                } else {
                    check_obs(obs, nrows, sps.len() + 1, &|i| if valid { Some(range_expected(&os, &sps, &key_of(&rows[i], &kcols))) } else { None })
                };
                (r.is_ok(), r.err().unwrap_or_default(), obs.clone())
            }
        };
        // RangeExpr (dynamic filtering) must agree with the router; it validates the split points itself
        let mut expr_ids: Option<Vec<u64>> = None;
        if valid && ok {
            let on: Vec<Arc<dyn PhysicalExpr>> = kcols.iter().map(|c| col(sch.field(*c).name(), &sch).unwrap()).collect();
            match RangeExpr::try_new(on, &rp).and_then(|e| e.evaluate(&b)).and_then(|v| v.into_array(nrows)) {
                Err(e) => {
                    ok = false;
                    why = format!("RangeExpr: {e}");
                }
                Ok(a) => {
                    let ids = a.as_any().downcast_ref::<UInt64Array>().unwrap().values().to_vec();
                    let mut by_row = vec![0u64; nrows];
                    for (p, rows_p) in &obs {
                        for id in rows_p {
                            by_row[*id as usize] = *p as u64;
                        }
                    }
                    if ids != by_row {
                        ok = false;
                        why = "RangeExpr::evaluate disagrees with the router".into();
                    }
                    expr_ids = Some(ids);
                }
            }
        }
        println!(
            "{{\"k\":\"range\",\"scheme\":{},\"keys\":{},\"obs\":{},\"expr\":{},\"ok\":{},\"why\":{}}}",
            s.json(),
            j_keys(&rows, &kcols),
            j_obs(&obs),
            expr_ids.map(|v| json_list(&v)).unwrap_or("null".into()),
            ok,
            json_str(&why)
        );
    }
}

// ------------------------------------------------------------------ (b) RepartitionExec end to end
#[derive(Clone, Debug)]
struct ExchCfg {
    scheme: Scheme,
    inputs: Vec<Vec<Vec<Row>>>, // input -> batches -> rows; id = input * 2^20 + position
    sorted: Option<(Vec<usize>, Vec<Opt>)>, // inputs sorted on these columns (declared to the plan)
    want_preserve: bool,
    batch_size: usize,
    mem: Option<usize>,
    drops: Vec<Option<usize>>, // per output: None = read to the end; Some(j) = drop after j batches (0 = before the first poll)
}

fn gen_exch(rng: &mut Rng) -> ExchCfg {
    // drop-heavy variant (1 case in 3): many small batches, small batch_size and outputs dropped after 1-2 batches, so that
    // input tasks are still sending when the receiver hangs up (they must notice it and keep serving the other outputs)
    let heavy = rng.chance(1, 3);
    let m = if heavy { *rng.pick(&[2usize, 3, 4]) } else { *rng.pick(&[1usize, 2, 2, 3, 3, 4]) };
    let dom = *rng.pick(&[1i64, 2, 3, 10]);
    let nullp = *rng.pick(&[0u64, 10, 30]);
    let sorted = if rng.chance(1, 2) {
        let kc = gen_kcols(rng);
        let os = gen_opts(rng, kc.len());
        Some((kc, os))
    } else {
        None
    };
    let mut inputs = vec![];
    for i in 0..m {
        let nb = if heavy { 8 + rng.below(13) as usize } else { rng.below(6) as usize };
        let sizes: Vec<usize> = (0..nb)
            .map(|_| if heavy { *rng.pick(&[0usize, 1, 2, 3, 4, 6]) } else { *rng.pick(&[0usize, 1, 2, 3, 5, 8, 12, 30]) })
            .collect();
        let total: usize = sizes.iter().sum();
        let mut rows: Vec<Row> = (0..total).map(|_| Row { cells: gen_cells(rng, dom, nullp), id: 0 }).collect();
        if let Some((kc, os)) = &sorted {
            rows.sort_by(|a, b| cmp_key(os, &key_of(a, kc), &key_of(b, kc)));
        }
        for (pos, r) in rows.iter_mut().enumerate() {
            r.id = ((i as i64) << 20) + pos as i64;
        }
        let mut it = rows.into_iter();
        inputs.push(sizes.iter().map(|s| it.by_ref().take(*s).collect::<Vec<_>>()).collect::<Vec<_>>());
    }
    let scheme = match rng.below(3) {
        0 => Scheme::Hash { kcols: gen_kcols(rng), n: if heavy { 2 + rng.below(4) as usize } else { 1 + rng.below(8) as usize } },
        1 => Scheme::RoundRobin { n: if heavy { 2 + rng.below(4) as usize } else { 1 + rng.below(8) as usize } },
        _ => gen_range(rng, dom, if heavy { 4 } else { 7 }),
    };
    let n = scheme.outputs();
    let mut drops: Vec<Option<usize>> = (0..n)
        .map(|_| {
            if heavy {
                if rng.chance(2, 5) { Some(1 + rng.below(2) as usize) } else { None }
            } else if rng.chance(1, 4) {
                Some(*rng.pick(&[0usize, 1, 1, 2]))
            } else {
                None
            }
        })
        .collect();
    if heavy && n >= 2 {
        // at least one output hangs up early and at least one is read to the end
        let a = rng.below(n as u64) as usize;
        let b = (a + 1 + rng.below(n as u64 - 1) as usize) % n;
        drops[a] = Some(1 + rng.below(2) as usize);
        drops[b] = None;
    }
    ExchCfg {
        scheme,
        inputs,
        sorted,
        want_preserve: rng.chance(2, 3),
        batch_size: if heavy { *rng.pick(&[1usize, 2, 3, 4]) } else { *rng.pick(&[1usize, 2, 3, 5, 16, 8192]) },
        mem: if heavy { *rng.pick(&[None, None, None, Some(1500usize)]) } else { *rng.pick(&[None, None, Some(1usize), Some(300), Some(1500), Some(6000)]) },
        drops,
    }
}

/// fixed witness configuration of the known finding "hang with a shared (multi-producer) spill pool"
fn witness_cfg(rng: &mut Rng) -> ExchCfg {
    let mut inputs = vec![];
    for i in 0..4usize {
        let mut bs = vec![];
        let mut pos = 0i64;
        for _ in 0..6 {
            let rows: Vec<Row> = (0..8)
                .map(|_| {
                    pos += 1;
                    Row { cells: gen_cells(rng, 3, 10), id: ((i as i64) << 20) + pos - 1 }
                })
                .collect();
            bs.push(rows);
        }
        inputs.push(bs);
    }
    ExchCfg {
        scheme: Scheme::RoundRobin { n: 1 },
        inputs,
        sorted: None,
        want_preserve: false,
        batch_size: 3,
        mem: Some(1),
        drops: vec![None],
    }
}

/// Mechanism probe for the known finding: two producers push concurrently into one shared (mpsc) spill pool and stay
/// alive (as input tasks blocked on the channel gate do); how many of the written batches can the reader get?
fn probe(rng: &mut Rng) {
    use datafusion_physical_plan::metrics::{ExecutionPlanMetricsSet, SpillMetrics};
    use datafusion_physical_plan::spill::spill_pool::mpsc_channel;
    use datafusion_physical_plan::SpillManager;
    let sch = schema();
    let env = RuntimeEnvBuilder::new().build_arc().unwrap();
    let rt = tokio::runtime::Builder::new_multi_thread().worker_threads(2).enable_all().build().unwrap();
    for round in 0..20 {
        let metrics = ExecutionPlanMetricsSet::new();
        let sm = Arc::new(SpillManager::new(Arc::clone(&env), SpillMetrics::new(&metrics, 0), Arc::clone(&sch)));
        let (w, mut reader) = mpsc_channel(100 * 1024 * 1024, sm);
        let sinks = vec![w.new_sink(), w.new_sink()];
        let per = 200usize;
        let rows = gen_rows(rng, 4, 3, 10);
        let b = batch(&sch, &rows);
        let sinks: Vec<_> = std::thread::scope(|sc| {
            let hs: Vec<_> = sinks
                .into_iter()
                .map(|s| {
                    let b = b.clone();
                    sc.spawn(move || {
                        for _ in 0..per {
                            s.push_batch(&b).unwrap();
                        }
                        s
                    })
                })
                .collect();
            hs.into_iter().map(|h| h.join().unwrap()).collect()
        });
        // all 2*per batches are written and flushed; all writers still alive
        let (read_alive, reader_back) = rt.block_on(async move {
            let mut n = 0usize;
            loop {
                match tokio::time::timeout(Duration::from_millis(500), reader.next()).await {
                    Ok(Some(Ok(_))) => n += 1,
                    _ => break,
                }
            }
            (n, reader)
        });
        drop(sinks);
        drop(w);
        let mut reader = reader_back;
        let read_after = rt.block_on(async move {
            let mut n = 0usize;
            while let Ok(Some(Ok(_))) = tokio::time::timeout(Duration::from_millis(2000), reader.next()).await {
                n += 1;
            }
            n
        });
        println!(
            "{{\"k\":\"probe\",\"round\":{},\"written\":{},\"readable_while_writers_alive\":{},\"read_after_all_writers_dropped\":{}}}",
            round,
            2 * per,
            read_alive,
            read_after
        );
    }
}

enum OutObs {
    Dropped,
    Read(Vec<i64>),
    Err(String),
}

fn run_exch(cfg: &ExchCfg, rt: &tokio::runtime::Runtime, workers: usize, watchdog_s: u64) -> bool {
    let sch = schema();
    let n = cfg.scheme.outputs();
    let m = cfg.inputs.len();
    let parts: Vec<Vec<RecordBatch>> = cfg.inputs.iter().map(|bs| bs.iter().map(|b| batch(&sch, b)).collect()).collect();
    // per-row hash (only the hash scheme needs it)
    let mut hash_of: HashMap<i64, u64> = HashMap::new();
    if let Scheme::Hash { kcols, .. } = &cfg.scheme {
        for bs in &parts {
            for b in bs {
                for (id, h) in ids_of(b).into_iter().zip(hashes_of(b, kcols)) {
                    hash_of.insert(id, h);
                }
            }
        }
    }
    let built = catch_unwind(AssertUnwindSafe(|| -> Result<(Arc<RepartitionExec>, bool), String> {
        let mut src = TestMemoryExec::try_new(&parts, Arc::clone(&sch), None).map_err(|e| e.to_string())?;
        if let Some((kc, os)) = &cfg.sorted {
            src = src.try_with_sort_information(vec![lex(&sch, kc, os)]).map_err(|e| e.to_string())?;
        }
        let input: Arc<dyn ExecutionPlan> = Arc::new(TestMemoryExec::update_cache(&Arc::new(src)));
        let mut rep = RepartitionExec::try_new(input, partitioning(&sch, &cfg.scheme)).map_err(|e| e.to_string())?;
        if cfg.want_preserve {
            rep = rep.with_preserve_order();
        }
        let preserve = rep.preserve_order();
        Ok((Arc::new(rep), preserve))
    }));
    let (rep, preserve) = match built {
        Ok(Ok(x)) => x,
        Ok(Err(e)) => {
            println!("{{\"k\":\"exch\",\"ok\":false,\"why\":{},\"scheme\":{}}}", json_str(&format!("plan construction failed: {e}")), cfg.scheme.json());
            return false;
        }
        Err(e) => {
            println!("{{\"k\":\"exch\",\"ok\":false,\"why\":{},\"scheme\":{}}}", json_str(&format!("panic building plan: {}", panic_msg(e))), cfg.scheme.json());
            return false;
        }
    };
    let scfg = SessionConfig::new().with_batch_size(cfg.batch_size);
    let mut rb = RuntimeEnvBuilder::new();
    if let Some(mm) = cfg.mem {
        rb = rb.with_memory_limit(mm, 1.0);
    }
    let tc = Arc::new(TaskContext::default().with_session_config(scfg).with_runtime(rb.build_arc().unwrap()));

    let drops = cfg.drops.clone();
    let rep2 = Arc::clone(&rep);
    let fut = async move {
        // execute() every output first (as the engine does), then read them concurrently
        let mut streams = vec![];
        for p in 0..n {
            streams.push(rep2.execute(p, Arc::clone(&tc)));
        }
        let mut handles = vec![];
        for (p, st) in streams.into_iter().enumerate() {
            let d = drops[p];
            handles.push(tokio::spawn(async move {
                let mut st = match st {
                    Ok(s) => s,
                    Err(e) => return OutObs::Err(e.to_string()),
                };
                let mut ids = vec![];
                let mut nb = 0usize;
                loop {
                    if let Some(j) = d {
                        if nb >= j {
                            drop(st);
                            return OutObs::Dropped;
                        }
                    }
                    match st.next().await {
                        None => return OutObs::Read(ids),
                        Some(Err(e)) => return OutObs::Err(e.to_string()),
                        Some(Ok(b)) => {
                            nb += 1;
                            ids.extend(ids_of(&b));
                        }
                    }
                }
            }));
        }
        let mut outs = vec![];
        for h in handles {
            outs.push(match h.await {
                Ok(o) => o,
                Err(e) => OutObs::Err(format!("reader task: {e}")),
            });
        }
        outs
    };
    let res = catch_unwind(AssertUnwindSafe(|| rt.block_on(async move { tokio::time::timeout(Duration::from_secs(watchdog_s), fut).await })));
    let spills = rep.metrics().and_then(|mm| mm.spill_count()).unwrap_or(0);

    // ---- direct oracle
    let ordered = m == 1 || preserve;
    let mut why = String::new();
    let mut obs_json = vec![];
    let mut errs = 0usize;
    let mut read_full = 0usize;
    match res {
        Err(e) => why = format!("panic: {}", panic_msg(e)),
        Ok(Err(_)) => why = format!("hang: outputs not finished after {watchdog_s}s"),
        Ok(Ok(outs)) => {
            // the routing definition: expected output of every row
            let mut expect: HashMap<i64, usize> = HashMap::new();
            for (i, bs) in cfg.inputs.iter().enumerate() {
                let mut j = 0usize; // non-empty batches seen by this input's round-robin partitioner
                for b in bs {
                    if b.is_empty() {
                        continue;
                    }
                    for r in b {
                        let p = match &cfg.scheme {
                            Scheme::Hash { n, .. } => (hash_of[&r.id] % *n as u64) as usize,
                            Scheme::RoundRobin { n } => ((if preserve { 0 } else { i }) * n / m + j) % n,
                            Scheme::Range { kcols, os, sps, .. } => range_expected(os, sps, &key_of(r, kcols)),
                        };
                        expect.insert(r.id, p);
                    }
                    j += 1;
                }
            }
            let range_invalid = matches!(&cfg.scheme, Scheme::Range { valid: false, .. });
            for (p, o) in outs.iter().enumerate() {
                match o {
                    OutObs::Dropped => obs_json.push("null".to_string()),
                    OutObs::Err(e) => {
                        errs += 1;
                        obs_json.push("null".to_string());
                        // a tiny pool may legitimately refuse the (unspillable) merge reservation of preserve_order
                        let tolerated = cfg.mem.is_some() && (e.contains("Resources exhausted") || e.contains("Failed to allocate"));
                        if !tolerated && why.is_empty() {
                            why = format!("output {p} failed: {e}");
                        }
                    }
                    OutObs::Read(ids) => {
                        read_full += 1;
                        obs_json.push(json_list(ids));
                        if !why.is_empty() {
                            continue;
                        }
                        let mut seen: HashMap<i64, usize> = HashMap::new();
                        for id in ids {
                            *seen.entry(*id).or_insert(0) += 1;
                            match expect.get(id) {
                                None => why = format!("output {p}: unknown row id {id}"),
                                Some(e) if *e != p && !range_invalid => why = format!("row {id} in output {p}, routing definition says {e}"),
                                _ => {}
                            }
                        }
                        if let Some((id, c)) = seen.iter().find(|(_, c)| **c != 1) {
                            why = format!("output {p}: row {id} delivered {c} times");
                        }
                        if !range_invalid {
                            let missing: Vec<i64> = expect.iter().filter(|(id, e)| **e == p && !seen.contains_key(*id)).map(|(id, _)| *id).collect();
                            if !missing.is_empty() && why.is_empty() {
                                let mut ms = missing.clone();
                                ms.sort();
                                why = format!("output {p}: {} rows lost, first id {}", ms.len(), ms[0]);
                            }
                        }
                        if ordered && why.is_empty() {
                            for i in 0..m as i64 {
                                let sub: Vec<i64> = ids.iter().copied().filter(|id| id >> 20 == i).collect();
                                if sub.windows(2).any(|w| w[0] >= w[1]) {
                                    why = format!("output {p}: rows of input {i} out of input order");
                                }
                            }
                        }
                        if preserve && why.is_empty() {
                            let (kc, os) = cfg.sorted.as_ref().unwrap();
                            let by_id: HashMap<i64, &Row> = cfg.inputs.iter().flatten().flatten().map(|r| (r.id, r)).collect();
                            for w in ids.windows(2) {
                                if let (Some(a), Some(b)) = (by_id.get(&w[0]), by_id.get(&w[1])) {
                                    if cmp_key(os, &key_of(a, kc), &key_of(b, kc)) == Ordering::Greater {
                                        why = format!("output {p}: preserve_order output not sorted at ids {} {}", w[0], w[1]);
                                        break;
                                    }
                                }
                            }
                        }
                    }
                }
            }
            if range_invalid && why.is_empty() {
                // unsorted split points: only exactly-once over the outputs read (all of them must have been read)
                if outs.iter().all(|o| matches!(o, OutObs::Read(_))) {
                    let mut all: Vec<i64> = outs.iter().flat_map(|o| if let OutObs::Read(v) = o { v.clone() } else { vec![] }).collect();
                    all.sort();
                    let mut want: Vec<i64> = expect.keys().copied().collect();
                    want.sort();
                    if all != want {
                        why = "rows lost or duplicated across outputs".into();
                    }
                }
            }
        }
    }
    // ---- print
    let kcols_print: Vec<usize> = match &cfg.scheme {
        Scheme::Range { kcols, .. } => kcols.clone(),
        _ => vec![],
    };
    let mut ins = vec![];
    for bs in &cfg.inputs {
        let mut bj = vec![];
        for b in bs {
            let rows: Vec<String> = b
                .iter()
                .map(|r| format!("[{},{},{}]", j_key(&r.cells, &kcols_print), hash_of.get(&r.id).copied().unwrap_or(0), r.id))
                .collect();
            bj.push(format!("[{}]", rows.join(",")));
        }
        ins.push(format!("[{}]", bj.join(",")));
    }
    let drops_j: Vec<String> = cfg.drops.iter().map(|d| d.map(|x| x.to_string()).unwrap_or("null".into())).collect();
    println!(
        "{{\"k\":\"exch\",\"scheme\":{},\"m\":{},\"preserve\":{},\"ordered\":{},\"sorted\":{},\"batch_size\":{},\"mem\":{},\"workers\":{},\"drops\":[{}],\"spills\":{},\"errs\":{},\"read_full\":{},\"inputs\":[{}],\"obs\":[{}],\"ok\":{},\"why\":{}}}",
        cfg.scheme.json(),
        m,
        preserve,
        ordered,
        cfg.sorted.is_some(),
        cfg.batch_size,
        cfg.mem.map(|x| x.to_string()).unwrap_or("null".into()),
        workers,
        drops_j.join(","),
        spills,
        errs,
        read_full,
        ins.join(","),
        obs_json.join(","),
        why.is_empty(),
        json_str(&why)
    );
    why.starts_with("hang")
}

fn main() {
    let args: Vec<String> = std::env::args().collect();
    let seed: u64 = arg(&args, "--seed", "1").parse().unwrap();
    let n: usize = arg(&args, "--n", "200").parse().unwrap();
    let watchdog: u64 = arg(&args, "--watchdog", "12").parse().unwrap();
    if std::env::var("C10_SHOW_PANICS").is_err() {
        std::panic::set_hook(Box::new(|_| {}));
    }
    let stress: usize = arg(&args, "--stress", "0").parse().unwrap();
    let stress_workers: usize = arg(&args, "--stress-workers", "4").parse().unwrap();
    let mut rng = Rng::new(seed);
    if arg(&args, "--probe", "0") != "0" {
        probe(&mut rng);
        return;
    }
    if stress > 0 {
        // many inputs -> one output, everything spills (1-byte pool), non-preserve-order: the shared multi-producer spill pool
        let rt = tokio::runtime::Builder::new_multi_thread().worker_threads(stress_workers).enable_all().build().unwrap();
        let cfg = witness_cfg(&mut rng);
        for _ in 0..stress {
            let _ = run_exch(&cfg, &rt, stress_workers, watchdog);
        }
        return;
    }
    let rts: Vec<(usize, tokio::runtime::Runtime)> = [1usize, 2, 4]
        .iter()
        .map(|w| (*w, tokio::runtime::Builder::new_multi_thread().worker_threads(*w).enable_all().build().unwrap()))
        .collect();

    // fixed witness of the known finding first (every run): 4 inputs -> 1 output through the shared multi-producer spill
    // pool (1-byte memory pool), 4 tokio workers; on the pinned tree it hangs in nearly every run on an idle machine (in
    // about one run out of four when the machine is so loaded that the workers rarely run in parallel)
    {
        let mut wrng = Rng::new(0xC10);
        let cfg = witness_cfg(&mut wrng);
        for _ in 0..3 {
            let _ = run_exch(&cfg, &rts[2].1, rts[2].0, 3);
        }
    }
    // fixed witnesses (every run): all output counts of the spec, boundary round-robin starts, range edge cases
    const DL: u64 = 60;
    for nn in [1usize, 2, 3, 4, 5, 6, 7, 8, 9, 16, 17, 64] {
        with_deadline(&mut rng, DL, "hash partition_iter", move |r| hash_case(r, Some((nn, vec![0, 1]))));
    }
    for (nn, i, m) in [(1usize, 0usize, 1usize), (5, 2, 3), (8, 7, 8), (3, 3, 4), (7, 1, 2), (4, 5, 6)] {
        with_deadline(&mut rng, DL, "round-robin partition_iter", move |r| rr_case(r, Some((nn, i, m))));
    }
    let fixed_ranges = vec![
        Scheme::Range { kcols: vec![0], os: vec![(false, false)], sps: vec![], valid: true },
        Scheme::Range { kcols: vec![0], os: vec![(false, false)], sps: vec![vec![Cell::I(0)]], valid: true },
        Scheme::Range { kcols: vec![0], os: vec![(true, true)], sps: vec![vec![Cell::Null], vec![Cell::I(1)], vec![Cell::I(0)], vec![Cell::I(-1)]], valid: true },
        Scheme::Range {
            kcols: vec![1, 0],
            os: vec![(false, true), (true, false)],
            sps: vec![vec![Cell::S("".into()), Cell::I(1)], vec![Cell::S("a".into()), Cell::I(0)], vec![Cell::S("a".into()), Cell::Null], vec![Cell::S("ab".into()), Cell::I(2)]],
            valid: true,
        },
    ];
    for sc in fixed_ranges {
        with_deadline(&mut rng, DL, "range partition_iter (fixed split points)", move |r| range_case(r, Some(sc)));
    }

    let mut class_hangs = 0usize;
    for c in 0..n {
        with_deadline(&mut rng, DL, "hash partition_iter", |r| hash_case(r, None));
        with_deadline(&mut rng, DL, "range partition_iter", |r| range_case(r, None));
        if c % 2 == 0 {
            with_deadline(&mut rng, DL, "round-robin partition_iter", |r| rr_case(r, None));
        }
        let cfg = gen_exch(&mut rng);
        // the same configuration a few times, on runtimes with different worker counts
        let reps = if c % 4 == 0 { 3 } else { 2 };
        // configurations in the class of the known finding (shared spill pool: non-preserve-order, >= 2 inputs, memory
        // limited) keep running on 2 / 4 workers until the hang has shown up twice among the random cases; after that
        // they run on one worker (where it cannot happen) so that a run does not spend its time in watchdogs
        let in_class = cfg.mem.is_some() && cfg.inputs.len() >= 2 && !(cfg.want_preserve && cfg.sorted.is_some());
        for r in 0..reps {
            let mut ix = (c + r) % rts.len();
            if in_class && class_hangs >= 2 {
                ix = 0;
            }
            let (w, rt) = &rts[ix];
            if run_exch(&cfg, rt, *w, watchdog) && in_class {
                class_hangs += 1;
            }
        }
    }
}
