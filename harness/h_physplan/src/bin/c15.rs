//! C15: distribution channels (repartition::distributor_channels) lose nothing, keep order, close correctly and never
//! deadlock.
//! Part "sched": the REAL channels are driven single-threaded at POLL granularity.  SendFuture / RecvFuture objects are
//!   polled by hand with hand-rolled wakers (an id + a shared wake log); a generated schedule interleaves send polls
//!   (new futures and re-polls, woken or spurious), recv polls, sender clones, sender drops, receiver drops and
//!   cancellations (dropping a pending future).  After the random part the harness behaves like a fair executor:
//!   it re-polls woken futures until nothing is woken (quiescence; lost wake-ups and deadlock are judged there), lets
//!   every live receiver drain, drops all senders and drains to end-of-stream.  Every operation, its outcome and the
//!   wakers it woke are printed; the Coq model replays the same schedule.
//! Part "stress": tokio multi-thread runtime, watchdog, oracle only.
//! `ok` is the direct property oracle, evaluated against a plain FIFO-queue reference kept by the harness.
use std::collections::{HashMap, VecDeque};
use std::future::Future;
use std::panic::{catch_unwind, AssertUnwindSafe};
use std::pin::Pin;
use std::sync::atomic::{AtomicBool, AtomicU64, Ordering};
use std::sync::{Arc, Mutex};
use std::task::{Context, Poll, Wake, Waker};

use datafusion_physical_plan::repartition::verif_hooks::{
    channels, partition_aware_channels, DistributionReceiver, DistributionSender, RecvFuture, SendError, SendFuture,
};
use h_util::{arg, json_str, Rng};

/// a threaded run normally ends within milliseconds (the machine may be heavily loaded: be generous; the stress part stops at the first hang)
const WATCHDOG_S: u64 = 120;

struct LogWaker {
    id: u64,
    log: Arc<Mutex<Vec<u64>>>,
}
impl Wake for LogWaker {
    fn wake(self: Arc<Self>) {
        self.log.lock().unwrap().push(self.id);
    }
    fn wake_by_ref(self: &Arc<Self>) {
        self.log.lock().unwrap().push(self.id);
    }
}

/// reference (specification) state of one channel: a plain FIFO queue plus liveness of the two ends
struct RefChan {
    q: VecDeque<u64>,
    recv_alive: bool,
    senders_alive: usize,
    got_none: bool,
}
impl RefChan {
    /// "empty (and not closed)" in the sense of the module documentation
    fn open_empty(&self) -> bool {
        self.recv_alive && self.senders_alive > 0 && self.q.is_empty()
    }
}

struct SenderSlot {
    ptr: *mut DistributionSender<u64>,
    g: usize,
    c: usize,
}

struct SendFut {
    fut: SendFuture<'static, u64>,
    sid: usize,
    g: usize,
    c: usize,
    item: u64,
    notified: bool,
}

struct RecvFut {
    fut: RecvFuture<'static, u64>,
    notified: bool,
}

#[derive(Clone, Copy, PartialEq)]
enum Owner {
    Send(usize),        // send future id
    Recv(usize, usize), // (group, channel)
}

struct World {
    groups: usize,
    n: usize,
    senders: Vec<Option<SenderSlot>>,
    receivers: Vec<Vec<Option<*mut DistributionReceiver<u64>>>>,
    recv_futs: Vec<Vec<Option<RecvFut>>>,
    send_futs: HashMap<usize, SendFut>,
    next_fid: usize,
    next_item: u64,
    next_waker: u64,
    waker_owner: HashMap<u64, Owner>,
    log: Arc<Mutex<Vec<u64>>>,
    refc: Vec<Vec<RefChan>>,
    ops: Vec<String>,
    errs: Vec<String>,
    clones_made: Vec<Vec<usize>>,
}

impl World {
    fn new(partition_aware: bool, groups: usize, n: usize) -> World {
        let mut senders = Vec::new();
        let mut receivers = Vec::new();
        let (txs, rxs): (Vec<Vec<DistributionSender<u64>>>, Vec<Vec<DistributionReceiver<u64>>>) = if partition_aware {
            partition_aware_channels::<u64>(groups, n)
        } else {
            let (t, r) = channels::<u64>(n);
            (vec![t], vec![r])
        };
        for (g, ts) in txs.into_iter().enumerate() {
            for (c, t) in ts.into_iter().enumerate() {
                senders.push(Some(SenderSlot { ptr: Box::into_raw(Box::new(t)), g, c }));
            }
        }
        for rs in rxs.into_iter() {
            receivers.push(rs.into_iter().map(|r| Some(Box::into_raw(Box::new(r)))).collect::<Vec<_>>());
        }
        World {
            groups,
            n,
            senders,
            receivers,
            recv_futs: (0..groups).map(|_| (0..n).map(|_| None).collect()).collect(),
            send_futs: HashMap::new(),
            next_fid: 0,
            next_item: 100,
            next_waker: 1,
            waker_owner: HashMap::new(),
            log: Arc::new(Mutex::new(Vec::new())),
            refc: (0..groups)
                .map(|_| (0..n).map(|_| RefChan { q: VecDeque::new(), recv_alive: true, senders_alive: 1, got_none: false }).collect())
                .collect(),
            ops: Vec::new(),
            errs: Vec::new(),
            clones_made: (0..groups).map(|_| vec![0; n]).collect(),
        }
    }

    fn fail(&mut self, msg: String) {
        if self.errs.len() < 5 {
            self.errs.push(format!("op#{}: {}", self.ops.len(), msg));
        }
    }

    fn fresh_waker(&mut self, owner: Owner) -> (u64, Waker) {
        let id = self.next_waker;
        self.next_waker += 1;
        self.waker_owner.insert(id, owner);
        (id, Waker::from(Arc::new(LogWaker { id, log: self.log.clone() })))
    }

    /// wakers woken since the last call; marks the owning futures as notified
    fn take_woken(&mut self) -> Vec<u64> {
        let woken: Vec<u64> = std::mem::take(&mut *self.log.lock().unwrap());
        for w in &woken {
            match self.waker_owner.get(w) {
                Some(Owner::Send(f)) => {
                    if let Some(sf) = self.send_futs.get_mut(f) {
                        sf.notified = true;
                    }
                }
                Some(Owner::Recv(g, c)) => {
                    if let Some(rf) = self.recv_futs[*g][*c].as_mut() {
                        rf.notified = true;
                    }
                }
                None => {}
            }
        }
        woken
    }

    fn gate_has_open_empty(&self, g: usize) -> bool {
        self.refc[g].iter().any(|r| r.open_empty())
    }

    fn emit(&mut self, body: String, woken: &[u64]) {
        let wk: Vec<String> = woken.iter().map(|w| w.to_string()).collect();
        self.ops.push(format!("{{{},\"wk\":[{}]}}", body, wk.join(",")));
    }

    // ---------------------------------------------------------------- operations on the real channels
    fn new_send(&mut self, sid: usize) {
        let (ptr, g, c) = {
            let s = self.senders[sid].as_ref().unwrap();
            (s.ptr, s.g, s.c)
        };
        let item = self.next_item;
        self.next_item += 1;
        let fut: SendFuture<'static, u64> = unsafe { &*ptr }.send(item);
        let fid = self.next_fid;
        self.next_fid += 1;
        self.send_futs.insert(fid, SendFut { fut, sid, g, c, item, notified: false });
        self.poll_send(fid);
    }

    fn poll_send(&mut self, fid: usize) {
        let (wid, waker) = self.fresh_waker(Owner::Send(fid));
        let mut cx = Context::from_waker(&waker);
        let (g, c, item, sid) = {
            let sf = self.send_futs.get_mut(&fid).unwrap();
            sf.notified = false;
            (sf.g, sf.c, sf.item, sf.sid)
        };
        let res = {
            let sf = self.send_futs.get_mut(&fid).unwrap();
            Pin::new(&mut sf.fut).poll(&mut cx)
        };
        drop(waker);
        let (rs, extra) = match res {
            Poll::Ready(Ok(())) => {
                if !self.refc[g][c].recv_alive {
                    self.fail(format!("send of {} on channel {}.{} returned Ok although the receiver was dropped (value lost)", item, g, c));
                }
                if !self.gate_has_open_empty(g) {
                    // Gate::empty_channels = number of open, empty channels; the gate is closed when it is 0
                    self.fail(format!("send of {} on channel {}.{} completed although no open channel of its gate is empty (the gate must be closed)", item, g, c));
                }
                self.refc[g][c].q.push_back(item);
                self.send_futs.remove(&fid);
                ("ok", String::new())
            }
            Poll::Ready(Err(SendError(x))) => {
                if self.refc[g][c].recv_alive {
                    self.fail(format!("send of {} on channel {}.{} failed although the receiver is alive", item, g, c));
                }
                if x != item {
                    self.fail(format!("SendError returned {} for item {}", x, item));
                }
                self.send_futs.remove(&fid);
                ("err", format!(",\"rx\":{}", x))
            }
            Poll::Pending => {
                if !self.refc[g][c].recv_alive {
                    self.fail(format!("send on channel {}.{} is Pending although its receiver was dropped", g, c));
                }
                if self.gate_has_open_empty(g) {
                    self.fail(format!("send on channel {}.{} is Pending although an open channel of the gate is empty", g, c));
                }
                ("pending", String::new())
            }
        };
        let woken = self.take_woken();
        self.emit(
            format!("\"op\":\"send\",\"g\":{},\"c\":{},\"s\":{},\"f\":{},\"w\":{},\"x\":{},\"r\":\"{}\"{}", g, c, sid, fid, wid, item, rs, extra),
            &woken,
        );
    }

    fn poll_recv(&mut self, g: usize, c: usize) {
        if self.recv_futs[g][c].is_none() {
            let ptr = self.receivers[g][c].unwrap();
            let fut: RecvFuture<'static, u64> = unsafe { &mut *ptr }.recv();
            self.recv_futs[g][c] = Some(RecvFut { fut, notified: false });
        }
        let (wid, waker) = self.fresh_waker(Owner::Recv(g, c));
        let mut cx = Context::from_waker(&waker);
        let res = {
            let rf = self.recv_futs[g][c].as_mut().unwrap();
            rf.notified = false;
            Pin::new(&mut rf.fut).poll(&mut cx)
        };
        drop(waker);
        let (rs, extra) = match res {
            Poll::Ready(Some(x)) => {
                match self.refc[g][c].q.pop_front() {
                    Some(y) if y == x => {}
                    Some(y) => self.fail(format!("channel {}.{} delivered {} but the next value in send order is {}", g, c, x, y)),
                    None => self.fail(format!("channel {}.{} delivered {} which is not outstanding (duplicated or invented)", g, c, x)),
                }
                self.recv_futs[g][c] = None;
                ("some", format!(",\"rx\":{}", x))
            }
            Poll::Ready(None) => {
                if !self.refc[g][c].q.is_empty() {
                    self.fail(format!("channel {}.{} reported end-of-stream with {} values undelivered", g, c, self.refc[g][c].q.len()));
                }
                if self.refc[g][c].senders_alive > 0 {
                    self.fail(format!("channel {}.{} reported end-of-stream with {} senders alive", g, c, self.refc[g][c].senders_alive));
                }
                self.refc[g][c].got_none = true;
                self.recv_futs[g][c] = None;
                ("none", String::new())
            }
            Poll::Pending => {
                if !self.refc[g][c].q.is_empty() {
                    self.fail(format!("recv on channel {}.{} is Pending with {} values queued", g, c, self.refc[g][c].q.len()));
                }
                if self.refc[g][c].senders_alive == 0 {
                    self.fail(format!("recv on channel {}.{} is Pending although all senders are gone", g, c));
                }
                ("pending", String::new())
            }
        };
        let woken = self.take_woken();
        self.emit(format!("\"op\":\"recv\",\"g\":{},\"c\":{},\"w\":{},\"r\":\"{}\"{}", g, c, wid, rs, extra), &woken);
    }

    fn clone_sender(&mut self, sid: usize) {
        let (ptr, g, c) = {
            let s = self.senders[sid].as_ref().unwrap();
            (s.ptr, s.g, s.c)
        };
        let cl = unsafe { &*ptr }.clone();
        self.senders.push(Some(SenderSlot { ptr: Box::into_raw(Box::new(cl)), g, c }));
        self.refc[g][c].senders_alive += 1;
        self.clones_made[g][c] += 1;
        let woken = self.take_woken();
        let nsid = self.senders.len() - 1;
        self.emit(format!("\"op\":\"clone\",\"g\":{},\"c\":{},\"s\":{},\"r\":\"unit\"", g, c, nsid), &woken);
    }

    fn cancel_send(&mut self, fid: usize) {
        let sf = self.send_futs.remove(&fid).unwrap();
        let (g, c) = (sf.g, sf.c);
        drop(sf);
        let woken = self.take_woken();
        self.emit(format!("\"op\":\"cancel_send\",\"g\":{},\"c\":{},\"f\":{},\"r\":\"unit\"", g, c, fid), &woken);
    }

    fn cancel_recv(&mut self, g: usize, c: usize) {
        let rf = self.recv_futs[g][c].take().unwrap();
        drop(rf);
        let woken = self.take_woken();
        self.emit(format!("\"op\":\"cancel_recv\",\"g\":{},\"c\":{},\"r\":\"unit\"", g, c), &woken);
    }

    fn drop_sender(&mut self, sid: usize) {
        // a SendFuture borrows its sender: pending futures of this handle are cancelled first
        let mut fids: Vec<usize> = self.send_futs.iter().filter(|(_, f)| f.sid == sid).map(|(k, _)| *k).collect();
        fids.sort();
        for f in fids {
            self.cancel_send(f);
        }
        let s = self.senders[sid].take().unwrap();
        drop(unsafe { Box::from_raw(s.ptr) });
        self.refc[s.g][s.c].senders_alive -= 1;
        let woken = self.take_woken();
        self.emit(format!("\"op\":\"drops\",\"g\":{},\"c\":{},\"s\":{},\"r\":\"unit\"", s.g, s.c, sid), &woken);
    }

    fn drop_receiver(&mut self, g: usize, c: usize) {
        if self.recv_futs[g][c].is_some() {
            self.cancel_recv(g, c);
        }
        let ptr = self.receivers[g][c].take().unwrap();
        drop(unsafe { Box::from_raw(ptr) });
        self.refc[g][c].recv_alive = false;
        self.refc[g][c].q.clear();
        let woken = self.take_woken();
        self.emit(format!("\"op\":\"dropr\",\"g\":{},\"c\":{},\"r\":\"unit\"", g, c), &woken);
    }

    // ---------------------------------------------------------------- executor phases
    fn alive_senders(&self) -> Vec<usize> {
        (0..self.senders.len()).filter(|i| self.senders[*i].is_some()).collect()
    }

    fn sorted_send_fids(&self) -> Vec<usize> {
        let mut v: Vec<usize> = self.send_futs.keys().cloned().collect();
        v.sort();
        v
    }

    /// re-poll every woken future until nothing is woken any more
    fn settle(&mut self) {
        for _ in 0..10_000 {
            let mut did = false;
            for f in self.sorted_send_fids() {
                if self.send_futs.get(&f).map(|x| x.notified).unwrap_or(false) {
                    self.poll_send(f);
                    did = true;
                }
            }
            for g in 0..self.groups {
                for c in 0..self.n {
                    if self.recv_futs[g][c].as_ref().map(|x| x.notified).unwrap_or(false) {
                        self.poll_recv(g, c);
                        did = true;
                    }
                }
            }
            if !did {
                return;
            }
        }
        self.fail("woken futures never settle".to_string());
    }

    /// at quiescence (nothing woken): no parked future may have its enabling condition true; no deadlock
    fn quiescence_check(&mut self, phase: &str) {
        let mut msgs = Vec::new();
        for f in self.sorted_send_fids() {
            let sf = &self.send_futs[&f];
            if sf.notified {
                continue;
            }
            if !self.refc[sf.g][sf.c].recv_alive {
                msgs.push(format!("{}: lost wake-up: send future {} parked on channel {}.{} whose receiver was dropped", phase, f, sf.g, sf.c));
            } else if self.gate_has_open_empty(sf.g) {
                msgs.push(format!("{}: lost wake-up: send future {} parked on channel {}.{} although an open channel is empty", phase, f, sf.g, sf.c));
            } else if !self.refc[sf.g].iter().any(|r| r.recv_alive && !r.q.is_empty()) {
                msgs.push(format!("{}: deadlock: send future {} parked and no live receiver has anything to receive", phase, f));
            }
        }
        for g in 0..self.groups {
            for c in 0..self.n {
                if let Some(rf) = self.recv_futs[g][c].as_ref() {
                    if rf.notified {
                        continue;
                    }
                    if !self.refc[g][c].q.is_empty() {
                        msgs.push(format!("{}: lost wake-up: recv parked on channel {}.{} with {} values queued", phase, g, c, self.refc[g][c].q.len()));
                    } else if self.refc[g][c].senders_alive == 0 {
                        msgs.push(format!("{}: lost wake-up: recv parked on channel {}.{} although all senders are gone", phase, g, c));
                    }
                }
            }
        }
        for m in msgs {
            self.fail(m);
        }
    }

    /// fair executor: woken futures are re-polled, every live receiver that is not parked receives
    fn drive(&mut self) {
        for _ in 0..10_000 {
            self.settle();
            let mut progress = false;
            for g in 0..self.groups {
                for c in 0..self.n {
                    if self.receivers[g][c].is_some() && self.recv_futs[g][c].is_none() && !self.refc[g][c].got_none {
                        self.poll_recv(g, c);
                        if self.recv_futs[g][c].is_none() {
                            progress = true;
                        }
                    }
                }
            }
            let any_notified = self.send_futs.values().any(|f| f.notified)
                || self.recv_futs.iter().flatten().any(|r| r.as_ref().map(|x| x.notified).unwrap_or(false));
            if !progress && !any_notified {
                return;
            }
        }
        self.fail("drive loop did not terminate".to_string());
    }

    fn finish(&mut self) {
        // (B) quiescence after the random part
        self.settle();
        self.quiescence_check("after schedule");
        // (C) receivers drain; every parked send must complete
        self.drive();
        self.quiescence_check("after drain");
        if !self.send_futs.is_empty() {
            let left = self.sorted_send_fids();
            self.fail(format!("deadlock: send futures {:?} still pending after all live receivers drained", left));
            for f in left {
                self.cancel_send(f);
            }
        }
        // (D) drop all senders, drain to end-of-stream
        for sid in self.alive_senders() {
            self.drop_sender(sid);
        }
        self.drive();
        self.quiescence_check("after close");
        for g in 0..self.groups {
            for c in 0..self.n {
                if self.receivers[g][c].is_some() {
                    if !self.refc[g][c].got_none {
                        self.fail(format!("channel {}.{}: receiver never saw end-of-stream after all senders were dropped", g, c));
                    }
                    if !self.refc[g][c].q.is_empty() {
                        self.fail(format!("channel {}.{}: {} values sent but never delivered", g, c, self.refc[g][c].q.len()));
                    }
                }
            }
        }
        // tidy up the real objects
        for g in 0..self.groups {
            for c in 0..self.n {
                self.recv_futs[g][c] = None;
                if let Some(p) = self.receivers[g][c].take() {
                    drop(unsafe { Box::from_raw(p) });
                }
            }
        }
        let _ = self.take_woken();
    }
}

struct Profile {
    send: u64,
    repoll: u64,
    recv: u64,
    clone: u64,
    drops: u64,
    dropr: u64,
    cancel: u64,
}

fn random_part(w: &mut World, rng: &mut Rng, len: usize, p: &Profile) {
    for _ in 0..len {
        let total = p.send + p.repoll + p.recv + p.clone + p.drops + p.dropr + p.cancel;
        let mut k = rng.below(total);
        let alive = w.alive_senders();
        let live_rx: Vec<(usize, usize)> =
            (0..w.groups).flat_map(|g| (0..w.n).map(move |c| (g, c))).filter(|(g, c)| w.receivers[*g][*c].is_some()).collect();
        if k < p.send {
            if !alive.is_empty() {
                let sid = *rng.pick(&alive);
                w.new_send(sid);
            }
            continue;
        }
        k -= p.send;
        if k < p.repoll {
            let fids = w.sorted_send_fids();
            if !fids.is_empty() {
                // prefer woken futures, but spurious polls are legal too
                let woken: Vec<usize> = fids.iter().cloned().filter(|f| w.send_futs[f].notified).collect();
                let f = if !woken.is_empty() && rng.chance(3, 4) { *rng.pick(&woken) } else { *rng.pick(&fids) };
                w.poll_send(f);
            }
            continue;
        }
        k -= p.repoll;
        if k < p.recv {
            if !live_rx.is_empty() {
                let (g, c) = *rng.pick(&live_rx);
                if !w.refc[g][c].got_none {
                    w.poll_recv(g, c);
                }
            }
            continue;
        }
        k -= p.recv;
        if k < p.clone {
            if !alive.is_empty() {
                let sid = *rng.pick(&alive);
                let (g, c) = {
                    let s = w.senders[sid].as_ref().unwrap();
                    (s.g, s.c)
                };
                if w.clones_made[g][c] < 2 {
                    w.clone_sender(sid);
                }
            }
            continue;
        }
        k -= p.clone;
        if k < p.drops {
            if !alive.is_empty() {
                let sid = *rng.pick(&alive);
                w.drop_sender(sid);
            }
            continue;
        }
        k -= p.drops;
        if k < p.dropr {
            if !live_rx.is_empty() {
                let (g, c) = *rng.pick(&live_rx);
                w.drop_receiver(g, c);
            }
            continue;
        }
        // cancellation of a pending future
        let fids = w.sorted_send_fids();
        let pend_rx: Vec<(usize, usize)> = live_rx.iter().cloned().filter(|(g, c)| w.recv_futs[*g][*c].is_some()).collect();
        if !fids.is_empty() && (pend_rx.is_empty() || rng.chance(2, 3)) {
            let f = *rng.pick(&fids);
            w.cancel_send(f);
        } else if !pend_rx.is_empty() {
            let (g, c) = *rng.pick(&pend_rx);
            w.cancel_recv(g, c);
        }
    }
}

fn sched_case(rng: &mut Rng, idx: u64) -> String {
    let partition_aware = rng.chance(1, 5);
    let n = 1 + rng.below(4) as usize;
    let groups = if partition_aware { 1 + rng.below(3) as usize } else { 1 };
    let len = 8 + rng.below(50) as usize;
    let prof = match rng.below(6) {
        0 => Profile { send: 10, repoll: 4, recv: 3, clone: 1, drops: 0, dropr: 0, cancel: 1 }, // fill: gate closes
        1 => Profile { send: 6, repoll: 4, recv: 8, clone: 1, drops: 1, dropr: 0, cancel: 1 },
        2 => Profile { send: 6, repoll: 3, recv: 5, clone: 2, drops: 3, dropr: 1, cancel: 1 },
        3 => Profile { send: 6, repoll: 3, recv: 4, clone: 1, drops: 1, dropr: 3, cancel: 1 },
        4 => Profile { send: 5, repoll: 5, recv: 5, clone: 2, drops: 2, dropr: 2, cancel: 4 },
        _ => Profile { send: 3, repoll: 2, recv: 9, clone: 1, drops: 2, dropr: 1, cancel: 1 }, // receivers parked
    };
    let mode = if partition_aware { "partition_aware" } else { "channels" };
    let head = format!("\"k\":\"sched\",\"i\":{},\"mode\":\"{}\",\"groups\":{},\"n\":{}", idx, mode, groups, n);
    let r = catch_unwind(AssertUnwindSafe(|| {
        let mut w = World::new(partition_aware, groups, n);
        random_part(&mut w, rng, len, &prof);
        w.finish();
        (w.ops.join(","), w.errs.clone())
    }));
    match r {
        Ok((ops, errs)) => {
            if errs.is_empty() {
                format!("{{{},\"ops\":[{}],\"ok\":true}}", head, ops)
            } else {
                format!("{{{},\"ops\":[{}],\"ok\":false,\"why\":{}}}", head, ops, json_str(&errs.join(" | ")))
            }
        }
        Err(e) => {
            let msg = e.downcast_ref::<String>().cloned().or_else(|| e.downcast_ref::<&str>().map(|s| s.to_string())).unwrap_or_default();
            format!("{{{},\"ops\":[],\"ok\":false,\"panic\":true,\"why\":{}}}", head, json_str(&format!("panic: {}", msg)))
        }
    }
}

// ---------------------------------------------------------------------------------------------- threaded stress
/// like RepartitionExec: `n_in` producer tasks each hold one sender per output channel and route items to channels;
/// `n_out` consumer tasks receive until end-of-stream, some stop early and drop their receiver.
fn stress_case(rt: &tokio::runtime::Runtime, seed: u64, idx: u64) -> String {
    let mut rng = Rng::new(seed ^ 0xC15C15);
    let n_in = 1 + rng.below(3) as usize;
    let n_out = 1 + rng.below(4) as usize;
    let items = 50 + rng.below(400);
    let stop_after: Vec<Option<u64>> = (0..n_out).map(|_| if rng.chance(1, 4) { Some(rng.below(30)) } else { None }).collect();
    let yield_mod: Vec<u64> = (0..n_in + n_out).map(|_| 1 + rng.below(7)).collect();
    let route_seed = rng.next();
    let head = format!("\"k\":\"stress\",\"i\":{},\"n_in\":{},\"n_out\":{},\"items\":{}", idx, n_in, n_out, items);

    let res = rt.block_on(async {
        let (txs0, rxs) = channels::<u64>(n_out);
        let mut all_txs: Vec<Vec<DistributionSender<u64>>> = Vec::new();
        for _ in 1..n_in {
            all_txs.push(txs0.iter().map(|t| t.clone()).collect());
        }
        all_txs.insert(0, txs0);
        let rx_gone: Arc<Vec<AtomicBool>> = Arc::new((0..n_out).map(|_| AtomicBool::new(false)).collect());
        let sent_ok: Arc<Vec<AtomicU64>> = Arc::new((0..n_in * n_out).map(|_| AtomicU64::new(0)).collect());
        let problems: Arc<Mutex<Vec<String>>> = Arc::new(Mutex::new(Vec::new()));
        let mut handles = Vec::new();
        for (i, txs) in all_txs.into_iter().enumerate() {
            let rx_gone = rx_gone.clone();
            let sent_ok = sent_ok.clone();
            let problems = problems.clone();
            let ym = yield_mod[i];
            handles.push(tokio::spawn(async move {
                let mut txs: Vec<Option<DistributionSender<u64>>> = txs.into_iter().map(Some).collect();
                let mut r = Rng::new(route_seed ^ (i as u64 + 1));
                let mut seq = vec![0u64; txs.len()];
                for j in 0..items {
                    let c = r.below(txs.len() as u64) as usize;
                    if let Some(tx) = txs[c].as_ref() {
                        let v = ((i as u64) << 32) | seq[c];
                        match tx.send(v).await {
                            Ok(()) => {
                                seq[c] += 1;
                                sent_ok[i * txs.len() + c].fetch_add(1, Ordering::SeqCst);
                            }
                            Err(SendError(x)) => {
                                if !rx_gone[c].load(Ordering::SeqCst) {
                                    problems.lock().unwrap().push(format!("send on channel {} failed while its receiver is alive", c));
                                }
                                if x != v {
                                    problems.lock().unwrap().push("SendError returned a different value".to_string());
                                }
                                txs[c] = None;
                            }
                        }
                    }
                    if txs.iter().all(|t| t.is_none()) {
                        break;
                    }
                    if j % ym == 0 {
                        tokio::task::yield_now().await;
                    }
                }
            }));
        }
        let mut rhandles = Vec::new();
        for (c, mut rx) in rxs.into_iter().enumerate() {
            let rx_gone = rx_gone.clone();
            let stop = stop_after[c];
            let ym = yield_mod[n_in + c];
            rhandles.push(tokio::spawn(async move {
                let mut got: Vec<u64> = Vec::new();
                let mut eos = false;
                loop {
                    if let Some(k) = stop {
                        if got.len() as u64 >= k {
                            break;
                        }
                    }
                    match rx.recv().await {
                        Some(v) => got.push(v),
                        None => {
                            eos = true;
                            break;
                        }
                    }
                    if got.len() as u64 % ym == 0 {
                        tokio::task::yield_now().await;
                    }
                }
                rx_gone[c].store(true, Ordering::SeqCst);
                drop(rx);
                (got, eos)
            }));
        }
        let all = async {
            for h in handles {
                if let Err(e) = h.await {
                    problems.lock().unwrap().push(format!("producer task panicked: {}", e));
                }
            }
            let mut outs = Vec::new();
            for h in rhandles {
                match h.await {
                    Ok(x) => outs.push(Some(x)),
                    Err(e) => {
                        problems.lock().unwrap().push(format!("consumer task panicked: {}", e));
                        outs.push(None)
                    }
                }
            }
            outs
        };
        match tokio::time::timeout(std::time::Duration::from_secs(WATCHDOG_S), all).await {
            Err(_) => Err("hang: producers/consumers did not finish within the watchdog time (deadlock or lost wake-up)".to_string()),
            Ok(outs) => {
                let mut total = 0u64;
                let mut pr = problems.lock().unwrap().clone();
                for (c, o) in outs.iter().enumerate() {
                    if let Some((got, eos)) = o {
                        total += got.len() as u64;
                        let mut next = vec![0u64; n_in];
                        for v in got {
                            let i = (v >> 32) as usize;
                            let s = v & 0xffff_ffff;
                            if i >= n_in || s != next[i] {
                                pr.push(format!("channel {}: value {:#x} out of order / duplicated / invented (expected seq {} of producer {})", c, v, next.get(i).cloned().unwrap_or(0), i));
                                break;
                            }
                            next[i] += 1;
                        }
                        for i in 0..n_in {
                            let ok = sent_ok[i * n_out + c].load(Ordering::SeqCst);
                            if *eos && next[i] != ok {
                                pr.push(format!("channel {}: end-of-stream after {} values of producer {} but {} sends returned Ok", c, next[i], i, ok));
                            }
                            if next[i] > ok {
                                pr.push(format!("channel {}: received more values of producer {} than were sent", c, i));
                            }
                        }
                        if stop_after[c].is_none() && !*eos {
                            pr.push(format!("channel {}: consumer ended without end-of-stream", c));
                        }
                    }
                }
                if pr.is_empty() { Ok(total) } else { Err(pr.join(" | ")) }
            }
        }
    });
    match res {
        Ok(total) => format!("{{{},\"received\":{},\"ok\":true}}", head, total),
        Err(why) => format!("{{{},\"hang\":{},\"ok\":false,\"why\":{}}}", head, why.starts_with("hang"), json_str(&why)),
    }
}


// ---------------------------------------------------------------------------------------------- concurrent-drop probe
/// Informational (not part of the C15 oracle): the last sender and the receiver of an EMPTY channel are dropped by two
/// threads at the same time.  If `DistributionSender::drop` decrements `n_senders` after `DistributionReceiver::drop`
/// took the channel lock but before it loads `n_senders`, neither side decrements `empty_channels` (the fine-grained
/// Coq model's `leak_sched`).  Observable afterwards: with the only other channel non-empty a send must be Pending
/// (gate closed); with the leaked counter it returns Ok.
fn drop_race_probe(trials: u64) -> String {
    use std::sync::atomic::AtomicUsize;
    let mut hits = 0u64;
    let mut control_hits = 0u64;
    let log = Arc::new(Mutex::new(Vec::new()));
    for trial in 0..trials + 200 {
        // the last 200 trials are the control: the same drops one after the other (both orders), no overlap
        let control = trial >= trials;
        let (mut txs, mut rxs) = channels::<u64>(2);
        let tx1 = txs.pop().unwrap();
        let tx0 = txs.pop().unwrap();
        let _rx1 = rxs.pop().unwrap();
        let rx0 = rxs.pop().unwrap();
        let go = AtomicUsize::new(0);
        if control {
            if trial % 2 == 0 {
                drop(tx0);
                drop(rx0);
            } else {
                drop(rx0);
                drop(tx0);
            }
        } else {
        std::thread::scope(|sc| {
            sc.spawn(|| {
                go.fetch_add(1, Ordering::SeqCst);
                while go.load(Ordering::SeqCst) < 2 {
                    std::hint::spin_loop();
                }
                drop(tx0);
            });
            sc.spawn(|| {
                go.fetch_add(1, Ordering::SeqCst);
                while go.load(Ordering::SeqCst) < 2 {
                    std::hint::spin_loop();
                }
                drop(rx0);
            });
        });
        }
        let waker = Waker::from(Arc::new(LogWaker { id: 0, log: log.clone() }));
        let mut cx = Context::from_waker(&waker);
        let mut f1 = tx1.send(1);
        let first = matches!(Pin::new(&mut f1).poll(&mut cx), Poll::Ready(Ok(())));
        let mut f2 = tx1.send(2);
        let second_ready = matches!(Pin::new(&mut f2).poll(&mut cx), Poll::Ready(_));
        if first && second_ready {
            if control {
                control_hits += 1;
            } else {
                hits += 1;
            }
        }
        drop(f1);
        drop(f2);
    }
    format!(
        "{{\"k\":\"drop_race_probe\",\"trials\":{},\"gate_left_open\":{},\"control_trials\":200,\"control_gate_left_open\":{}}}",
        trials, hits, control_hits
    )
}

// ------------------------------------------------------------------ one task, one waker, several futures
// A task that awaits several sends at once (select / join) polls all of them with the SAME waker.
// Oracle only: after every operation (and after re-polling everything whenever the shared waker fired) no send may
// stay pending on a channel whose receiver is gone, and none may stay pending while an open channel is empty.
struct CountWaker(AtomicU64);
impl Wake for CountWaker {
    fn wake(self: Arc<Self>) { self.0.fetch_add(1, Ordering::SeqCst); }
    fn wake_by_ref(self: &Arc<Self>) { self.0.fetch_add(1, Ordering::SeqCst); }
}
fn shared_waker_case(rng: &mut Rng, id: u64) -> String {
    let n = 2 + rng.below(2) as usize;
    let (txs, rxs) = channels::<u64>(n);
    let mut rxs: Vec<Option<_>> = rxs.into_iter().map(Some).collect();
    let cw = Arc::new(CountWaker(AtomicU64::new(0)));
    let waker = Waker::from(cw.clone());
    let mut qlen = vec![0i64; n];
    let mut pending: Vec<(usize, Pin<Box<dyn Future<Output = Result<(), SendError<u64>>> + '_>>)> = vec![];
    let mut log: Vec<String> = vec![];
    let mut why = String::new();
    let mut seen_wakes = 0u64;
    let steps = 4 + rng.below(10);
    for step in 0..steps {
        let r = rng.below(10);
        if r < 5 {
            let c = rng.below(n as u64) as usize;
            let mut f: Pin<Box<dyn Future<Output = Result<(), SendError<u64>>> + '_>> = Box::pin(txs[c].send(step));
            let mut cx = Context::from_waker(&waker);
            match f.as_mut().poll(&mut cx) {
                Poll::Ready(Ok(())) => { qlen[c] += 1; log.push(format!("send {c} ok")); }
                Poll::Ready(Err(_)) => { log.push(format!("send {c} err")); if rxs[c].is_some() { why = format!("send on channel {c} failed although its receiver is alive"); } }
                Poll::Pending => { log.push(format!("send {c} pending")); pending.push((c, f)); }
            }
        } else if r < 7 {
            let c = rng.below(n as u64) as usize;
            if let Some(rx) = rxs[c].as_mut() {
                let mut cx = Context::from_waker(&waker);
                let mut f = Box::pin(rx.recv());
                match f.as_mut().poll(&mut cx) {
                    Poll::Ready(Some(_)) => { qlen[c] -= 1; log.push(format!("recv {c} some")); }
                    Poll::Ready(None) => log.push(format!("recv {c} none")),
                    Poll::Pending => log.push(format!("recv {c} pending")),
                }
            }
        } else {
            let c = rng.below(n as u64) as usize;
            if rxs[c].take().is_some() { log.push(format!("drop receiver {c}")); }
        }
        // the task runs again whenever its waker fired: it re-polls everything it still awaits
        loop {
            let w = cw.0.load(Ordering::SeqCst);
            if w == seen_wakes { break; }
            seen_wakes = w;
            let mut keep = vec![];
            for (c, mut f) in pending.drain(..) {
                let mut cx = Context::from_waker(&waker);
                match f.as_mut().poll(&mut cx) {
                    Poll::Ready(Ok(())) => { qlen[c] += 1; log.push(format!("resend {c} ok")); }
                    Poll::Ready(Err(_)) => log.push(format!("resend {c} err")),
                    Poll::Pending => keep.push((c, f)),
                }
            }
            pending = keep;
        }
        for (c, _) in &pending {
            if rxs[*c].is_none() && why.is_empty() {
                why = format!("after step {step}: a send is still pending on channel {c} whose receiver was dropped, and the task's waker was not woken");
            }
        }
        let gate_open = (0..n).any(|c| rxs[c].is_some() && qlen[c] == 0);
        if gate_open && !pending.is_empty() && why.is_empty() {
            why = format!("after step {step}: {} send(s) pending although an open channel is empty, and the task's waker was not woken", pending.len());
        }
        if !why.is_empty() { break; }
    }
    drop(pending);
    format!("{{\"k\":\"shared_waker\",\"id\":{id},\"n\":{n},\"log\":[{}],\"ok\":{},\"why\":{}}}",
            log.iter().map(|l| json_str(l)).collect::<Vec<_>>().join(","), why.is_empty(), json_str(&why))
}

fn main() {
    let args: Vec<String> = std::env::args().collect();
    let seed: u64 = arg(&args, "--seed", "1").parse().unwrap();
    let n: u64 = arg(&args, "--n", "100").parse().unwrap();
    let nstress: u64 = arg(&args, "--stress", "0").parse().unwrap();
    let nrace: u64 = arg(&args, "--race", "0").parse().unwrap();
    std::panic::set_hook(Box::new(|_| {}));
    let mut rng = Rng::new(seed);
    for i in 0..n {
        println!("{}", sched_case(&mut rng, i));
    }
    for i in 0..n * 6 {
        let line = catch_unwind(AssertUnwindSafe(|| shared_waker_case(&mut rng, i)))
            .unwrap_or_else(|_| format!("{{\"k\":\"shared_waker\",\"id\":{i},\"ok\":false,\"why\":\"panic\"}}"));
        println!("{}", line);
    }
    if nstress > 0 {
        let rt = tokio::runtime::Builder::new_multi_thread().worker_threads(4).enable_time().build().unwrap();
        for i in 0..nstress {
            let s = rng.next();
            let line = stress_case(&rt, s, i);
            let hang = line.contains("\"hang\":true");
            println!("{}", line);
            if hang {
                // the stuck tasks stay on the runtime: further runs would only wait for the watchdog again
                break;
            }
        }
        rt.shutdown_timeout(std::time::Duration::from_secs(1));
    }
    if nrace > 0 {
        println!("{}", drop_race_probe(nrace));
    }
}
