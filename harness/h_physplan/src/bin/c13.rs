//! C13: group-key interning. Drives the real `new_group_values(schema, &GroupOrdering::None)` stores
//! with random operation histories; prints one JSON line per history.
use std::panic::{catch_unwind, AssertUnwindSafe};
use std::sync::Arc;

use arrow::array::*;
use arrow::compute::cast;
use arrow::datatypes::*;
use datafusion_expr::EmitTo;
use datafusion_physical_plan::aggregates::group_values::{new_group_values, GroupValues, GroupValuesRows};
use datafusion_physical_plan::aggregates::order::GroupOrdering;
use h_util::{arg, Rng};

#[derive(Clone, Copy, Debug, PartialEq)]
enum Fam {
    Int8, Int32, Int64, UInt16, UInt64, Float32, Float64, Date32, TsNanos, Dec128, Bool,
    Utf8, LargeUtf8, Utf8View, Binary, BinaryView, Fsb3, DictUtf8, ListInt32,
}

fn dtype(f: Fam) -> DataType {
    match f {
        Fam::Int8 => DataType::Int8,
        Fam::Int32 => DataType::Int32,
        Fam::Int64 => DataType::Int64,
        Fam::UInt16 => DataType::UInt16,
        Fam::UInt64 => DataType::UInt64,
        Fam::Float32 => DataType::Float32,
        Fam::Float64 => DataType::Float64,
        Fam::Date32 => DataType::Date32,
        Fam::TsNanos => DataType::Timestamp(TimeUnit::Nanosecond, None),
        Fam::Dec128 => DataType::Decimal128(20, 2),
        Fam::Bool => DataType::Boolean,
        Fam::Utf8 => DataType::Utf8,
        Fam::LargeUtf8 => DataType::LargeUtf8,
        Fam::Utf8View => DataType::Utf8View,
        Fam::Binary => DataType::Binary,
        Fam::BinaryView => DataType::BinaryView,
        Fam::Fsb3 => DataType::FixedSizeBinary(3),
        Fam::DictUtf8 => DataType::Dictionary(Box::new(DataType::Int32), Box::new(DataType::Utf8)),
        Fam::ListInt32 => DataType::List(Arc::new(Field::new("item", DataType::Int32, true))),
    }
}

/// code -> text; odd codes give strings longer than 12 bytes (out-of-line string views),
/// codes that differ only far into a long common prefix are collision/prefix-prone.
fn text(code: i64) -> String {
    if code % 2 == 1 {
        format!("long-common-prefix-{:04}", code)
    } else {
        format!("k{}", code)
    }
}
fn untext(s: &str) -> i64 {
    let digits: String = s.chars().filter(|c| c.is_ascii_digit()).collect();
    digits.parse().unwrap()
}

/// Build one column from nullable codes. `alt[i]` asks for an alternative physical
/// representation of the same logical value where one exists (-0.0 for code 0 of floats).
fn build(f: Fam, codes: &[Option<i64>], alt: &[bool]) -> ArrayRef {
    macro_rules! prim {
        ($arr:ty, $conv:expr) => {
            Arc::new(codes.iter().map(|c| c.map($conv)).collect::<$arr>()) as ArrayRef
        };
    }
    match f {
        Fam::Int8 => prim!(Int8Array, |c| (c - 5) as i8),
        Fam::Int32 => prim!(Int32Array, |c| (c as i32 - 5).wrapping_mul(0x0101_0101)),
        Fam::Int64 => prim!(Int64Array, |c| if c == 7 { i64::MIN } else if c == 8 { i64::MAX } else { c - 5 }),
        Fam::UInt16 => prim!(UInt16Array, |c| c as u16),
        Fam::UInt64 => prim!(UInt64Array, |c| if c == 7 { u64::MAX } else { c as u64 }),
        Fam::Date32 => prim!(Date32Array, |c| c as i32 - 3),
        Fam::TsNanos => prim!(TimestampNanosecondArray, |c| c * 1_000_000_007),
        Fam::Dec128 => Arc::new(
            codes.iter().map(|c| c.map(|c| (c as i128 - 5) * 100_000_000_000_000_000_000_007i128 % 100_000_000_000_000_000_000i128)).collect::<Decimal128Array>()
                .with_precision_and_scale(20, 2).unwrap(),
        ) as ArrayRef,
        Fam::Float32 => Arc::new(
            codes.iter().zip(alt).map(|(c, a)| c.map(|c| if c == 0 { if *a { -0.0f32 } else { 0.0 } } else if c == 1 { f32::NAN } else { c as f32 * 0.5 })).collect::<Float32Array>(),
        ) as ArrayRef,
        Fam::Float64 => Arc::new(
            codes.iter().zip(alt).map(|(c, a)| c.map(|c| if c == 0 { if *a { -0.0f64 } else { 0.0 } } else if c == 1 { f64::NAN } else { c as f64 * 0.5 })).collect::<Float64Array>(),
        ) as ArrayRef,
        Fam::Bool => Arc::new(codes.iter().map(|c| c.map(|c| c != 0)).collect::<BooleanArray>()) as ArrayRef,
        Fam::Utf8 => Arc::new(codes.iter().map(|c| c.map(text)).collect::<StringArray>()) as ArrayRef,
        Fam::LargeUtf8 => Arc::new(codes.iter().map(|c| c.map(text)).collect::<LargeStringArray>()) as ArrayRef,
        Fam::Utf8View => Arc::new(codes.iter().map(|c| c.map(text)).collect::<StringViewArray>()) as ArrayRef,
        Fam::Binary => Arc::new(codes.iter().map(|c| c.map(|c| text(c).into_bytes())).collect::<BinaryArray>()) as ArrayRef,
        Fam::BinaryView => Arc::new(codes.iter().map(|c| c.map(|c| text(c).into_bytes())).collect::<BinaryViewArray>()) as ArrayRef,
        Fam::Fsb3 => {
            let mut b = FixedSizeBinaryBuilder::new(3);
            for c in codes {
                match c {
                    Some(c) => b.append_value([*c as u8, 0xAB, (*c >> 1) as u8]).unwrap(),
                    None => b.append_null(),
                }
            }
            Arc::new(b.finish()) as ArrayRef
        }
        Fam::DictUtf8 => {
            let s: ArrayRef = Arc::new(codes.iter().map(|c| c.map(text)).collect::<StringArray>());
            cast(&s, &dtype(Fam::DictUtf8)).unwrap()
        }
        Fam::ListInt32 => {
            let mut b = ListBuilder::new(Int32Builder::new());
            for c in codes {
                match c {
                    Some(c) => {
                        // code -> [c, c, ..] (c % 3 + 1 times): lists of different lengths
                        for _ in 0..(*c % 3 + 1) {
                            b.values().append_value(*c as i32);
                        }
                        b.append(true);
                    }
                    None => b.append(false),
                }
            }
            Arc::new(b.finish()) as ArrayRef
        }
    }
}

fn decode(f: Fam, a: &ArrayRef) -> Vec<Option<i64>> {
    let n = a.len();
    let mut out = Vec::with_capacity(n);
    macro_rules! prim {
        ($arr:ty, $inv:expr) => {{
            let x = a.as_any().downcast_ref::<$arr>().expect("emitted array type");
            for i in 0..n {
                out.push(if x.is_null(i) { None } else { Some($inv(x.value(i))) });
            }
        }};
    }
    match f {
        Fam::Int8 => prim!(Int8Array, |v: i8| v as i64 + 5),
        Fam::Int32 => prim!(Int32Array, |v: i32| (v / 0x0101_0101) as i64 + 5),
        Fam::Int64 => prim!(Int64Array, |v: i64| if v == i64::MIN { 7 } else if v == i64::MAX { 8 } else { v + 5 }),
        Fam::UInt16 => prim!(UInt16Array, |v: u16| v as i64),
        Fam::UInt64 => prim!(UInt64Array, |v: u64| if v == u64::MAX { 7 } else { v as i64 }),
        Fam::Date32 => prim!(Date32Array, |v: i32| v as i64 + 3),
        Fam::TsNanos => prim!(TimestampNanosecondArray, |v: i64| v / 1_000_000_007),
        Fam::Dec128 => prim!(Decimal128Array, |v: i128| {
            let mut r = -1;
            for c in 0..40i64 {
                if (c as i128 - 5) * 100_000_000_000_000_000_000_007i128 % 100_000_000_000_000_000_000i128 == v { r = c; }
            }
            r
        }),
        Fam::Float32 => prim!(Float32Array, |v: f32| if v.is_nan() { 1 } else { (v * 2.0) as i64 }),
        Fam::Float64 => prim!(Float64Array, |v: f64| if v.is_nan() { 1 } else { (v * 2.0) as i64 }),
        Fam::Bool => {
            let x = a.as_any().downcast_ref::<BooleanArray>().unwrap();
            for i in 0..n { out.push(if x.is_null(i) { None } else { Some(x.value(i) as i64) }); }
        }
        Fam::Fsb3 => {
            let x = a.as_any().downcast_ref::<FixedSizeBinaryArray>().unwrap();
            for i in 0..n { out.push(if x.is_null(i) { None } else { Some(x.value(i)[0] as i64) }); }
        }
        Fam::ListInt32 => {
            let x = a.as_any().downcast_ref::<ListArray>().unwrap();
            for i in 0..n {
                if x.is_null(i) { out.push(None); } else {
                    let v = x.value(i);
                    let v = v.as_any().downcast_ref::<Int32Array>().unwrap();
                    let c = v.value(0) as i64;
                    out.push(if v.len() as i64 == c % 3 + 1 && (0..v.len()).all(|j| v.value(j) as i64 == c) { Some(c) } else { Some(-1) });
                }
            }
        }
        _ => {
            // every string/binary-like family: cast to Utf8 and parse the code back
            let s = cast(a, &DataType::Utf8).expect("cast emitted array to Utf8");
            let x = s.as_any().downcast_ref::<StringArray>().unwrap();
            for i in 0..n {
                out.push(if x.is_null(i) { None } else {
                    let c = untext(x.value(i));
                    Some(if text(c) == x.value(i) { c } else { -1 })
                });
            }
        }
    }
    out
}

fn jkey(k: &[Option<i64>]) -> String {
    h_util::json_opt_list(k)
}
fn jkeys(ks: &[Vec<Option<i64>>]) -> String {
    let v: Vec<String> = ks.iter().map(|k| jkey(k)).collect();
    format!("[{}]", v.join(","))
}

fn main() {
    if std::env::var("C13_VERBOSE").is_err() { std::panic::set_hook(Box::new(|_| {})); }
    let args: Vec<String> = std::env::args().collect();
    let seed: u64 = arg(&args, "--seed", "1").parse().unwrap();
    let n: usize = arg(&args, "--n", "300").parse().unwrap();
    let mut rng = Rng::new(seed);

    // schema families: (name, columns, concrete model id: 0 spec only, 1 primitive, 2 boolean)
    let singles = [
        Fam::Int8, Fam::Int32, Fam::Int64, Fam::UInt16, Fam::UInt64, Fam::Float32, Fam::Float64, Fam::Date32,
        Fam::TsNanos, Fam::Dec128, Fam::Bool, Fam::Utf8, Fam::LargeUtf8, Fam::Utf8View, Fam::Binary,
        Fam::BinaryView, Fam::Fsb3, Fam::DictUtf8, Fam::ListInt32,
    ];
    let mut schemas: Vec<(String, Vec<Fam>, i64)> = singles
        .iter()
        .map(|f| {
            let kind = match f {
                Fam::Bool => 2,
                Fam::Int8 | Fam::Int32 | Fam::Int64 | Fam::UInt16 | Fam::UInt64 | Fam::Float32 | Fam::Float64
                | Fam::Date32 | Fam::TsNanos | Fam::Dec128 => 1,
                _ => 0,
            };
            (format!("{:?}", f), vec![*f], kind)
        })
        .collect();
    for cols in [
        vec![Fam::Int32, Fam::Utf8],
        vec![Fam::Utf8View, Fam::Int64],
        vec![Fam::Int8, Fam::Int8, Fam::Int8],
        vec![Fam::Float64, Fam::BinaryView],
        vec![Fam::Int32, Fam::Bool],
        vec![Fam::Int32, Fam::ListInt32],
        vec![Fam::DictUtf8, Fam::Int32],
        vec![Fam::Fsb3, Fam::Dec128, Fam::Date32],
        vec![Fam::LargeUtf8, Fam::Binary],
    ] {
        schemas.push((format!("{:?}", cols).replace(' ', ""), cols, 0));
    }

    // the general row-format store, constructed directly (new_group_values only falls back to it
    // for types without a specialised column)
    for cols in [vec![Fam::Utf8], vec![Fam::Float64], vec![Fam::Int32, Fam::Utf8View], vec![Fam::DictUtf8, Fam::Bool]] {
        schemas.push((format!("Rows{:?}", cols).replace(' ', ""), cols, -1));
    }

    for h in 0..n {
        let (name, cols, kind) = schemas[h % schemas.len()].clone();
        let schema = Arc::new(Schema::new(
            cols.iter().enumerate().map(|(i, f)| Field::new(format!("c{i}"), dtype(*f), true)).collect::<Vec<_>>(),
        ));
        if std::env::var("C13_VERBOSE").is_ok() { eprintln!("history {h} store {name}"); }
        let made = if kind == -1 {
            GroupValuesRows::try_new(schema).map(|g| Box::new(g) as Box<dyn GroupValues>)
        } else {
            new_group_values(schema, &GroupOrdering::None)
        };
        let kind = kind.max(0);
        let mut gv: Box<dyn GroupValues> = match made {
            Ok(g) => g,
            Err(e) => {
                println!("{{\"store\":\"{name}\",\"skip\":\"{}\"}}", e.to_string().replace('"', "'"));
                continue;
            }
        };
        // small alphabets -> many repeats; booleans only have codes 0/1
        let alpha: i64 = 2 + rng.below(7) as i64;
        let nops = 2 + rng.below(9) as usize;
        let mut reference: Vec<Vec<Option<i64>>> = vec![]; // live keys in id order (oracle)
        let mut ops: Vec<String> = vec![];
        let mut outs: Vec<String> = vec![];
        let mut ok = true;
        let mut why = String::new();
        for _ in 0..nops {
            let r = rng.below(10);
            if r < 6 {
                let rows = rng.below(7) as usize; // includes empty batches
                let mut keys: Vec<Vec<Option<i64>>> = vec![];
                for _ in 0..rows {
                    let k: Vec<Option<i64>> = cols.iter().map(|f| {
                        if rng.chance(1, 5) { None } else if *f == Fam::Bool { Some(rng.below(2) as i64) } else { Some(rng.below(alpha as u64) as i64) }
                    }).collect();
                    keys.push(k);
                }
                let alt: Vec<bool> = (0..rows).map(|_| rng.chance(1, 2)).collect();
                let arrays: Vec<ArrayRef> = cols.iter().enumerate().map(|(ci, f)| {
                    let codes: Vec<Option<i64>> = keys.iter().map(|k| k[ci]).collect();
                    build(*f, &codes, &alt)
                }).collect();
                ops.push(format!("{{\"op\":\"intern\",\"keys\":{}}}", jkeys(&keys)));
                let mut groups: Vec<usize> = vec![];
                let res = catch_unwind(AssertUnwindSafe(|| gv.intern(&arrays, &mut groups).map(|_| gv.len())));
                match res {
                    Ok(Ok(len)) => {
                        // oracle: equal keys <-> equal ids; unseen keys receive exactly the ids
                        // len, len+1, .. (their order inside one batch is not fixed by the property)
                        let base = reference.len();
                        let mut fresh: Vec<(Vec<Option<i64>>, usize)> = vec![];
                        if groups.len() != keys.len() { ok = false; why = "intern returned a different number of ids".into(); }
                        for (k, id) in keys.iter().zip(groups.iter()) {
                            if let Some(i) = reference.iter().position(|x| x == k) {
                                if i != *id { ok = false; why = format!("live key {:?} has id {} but intern returned {}", k, i, id); }
                            } else if let Some((_, i)) = fresh.iter().find(|(x, _)| x == k) {
                                if i != id { ok = false; why = format!("same new key {:?} got ids {} and {}", k, i, id); }
                            } else {
                                if fresh.iter().any(|(_, i)| i == id) { ok = false; why = format!("distinct new keys share id {}", id); }
                                fresh.push((k.clone(), *id));
                            }
                        }
                        let mut fids: Vec<usize> = fresh.iter().map(|(_, i)| *i).collect();
                        fids.sort();
                        if ok && fids != (base..base + fresh.len()).collect::<Vec<_>>() {
                            ok = false; why = format!("new keys got ids {:?}, expected exactly {}..{}", fids, base, base + fresh.len());
                        }
                        if ok {
                            fresh.sort_by_key(|(_, i)| *i);
                            for (k, _) in fresh { reference.push(k); }
                        }
                        if len != reference.len() { ok = false; why = format!("len {} but {} distinct live keys", len, reference.len()); }
                        outs.push(format!("{{\"ids\":{},\"len\":{}}}", h_util::json_list(&groups), len));
                    }
                    Ok(Err(e)) => { ok = false; why = format!("intern error {e}"); outs.push("{\"err\":true}".into()); }
                    Err(_) => { ok = false; why = "panic in intern".into(); outs.push("{\"panic\":true}".into()); }
                }
            } else if r < 9 {
                let live = reference.len();
                let (emit, opj) = if r == 6 { (EmitTo::All, "{\"op\":\"all\"}".to_string()) } else {
                    let k = rng.below(live as u64 + 1) as usize;
                    (EmitTo::First(k), format!("{{\"op\":\"first\",\"n\":{k}}}"))
                };
                ops.push(opj);
                let res = catch_unwind(AssertUnwindSafe(|| gv.emit(emit).map(|a| (a, gv.len()))));
                match res {
                    Ok(Ok((arrays, len))) => {
                        let take = match emit { EmitTo::All => live, EmitTo::First(k) => k };
                        let exp: Vec<Vec<Option<i64>>> = reference.drain(..take).collect();
                        let colsdec: Vec<Vec<Option<i64>>> = arrays.iter().zip(cols.iter()).map(|(a, f)| decode(*f, a)).collect();
                        let nrows = colsdec.first().map(|c| c.len()).unwrap_or(0);
                        let got: Vec<Vec<Option<i64>>> = (0..nrows).map(|i| colsdec.iter().map(|c| c[i]).collect()).collect();
                        if arrays.len() != cols.len() { ok = false; why = "emit column count".into(); }
                        for (a, f) in arrays.iter().zip(cols.iter()) {
                            if a.data_type() != &dtype(*f) { ok = false; why = format!("emitted type {:?} for {:?}", a.data_type(), f); }
                        }
                        if got != exp { ok = false; why = format!("emit returned {:?} expected {:?}", got, exp); }
                        if len != reference.len() { ok = false; why = format!("len {} after emit but {} live keys", len, reference.len()); }
                        outs.push(format!("{{\"keys\":{},\"len\":{}}}", jkeys(&got), len));
                    }
                    Ok(Err(e)) => { ok = false; why = format!("emit error {e}"); outs.push("{\"err\":true}".into()); }
                    Err(_) => { ok = false; why = "panic in emit".into(); outs.push("{\"panic\":true}".into()); }
                }
            } else {
                ops.push("{\"op\":\"clear\"}".into());
                let rows = rng.below(4) as usize;
                let res = catch_unwind(AssertUnwindSafe(|| { gv.clear_shrink(rows); gv.len() }));
                match res {
                    Ok(len) => {
                        reference.clear();
                        if len != 0 { ok = false; why = format!("len {len} after clear"); }
                        outs.push(format!("{{\"len\":{len}}}"));
                    }
                    Err(_) => { ok = false; why = "panic in clear_shrink".into(); outs.push("{\"panic\":true}".into()); }
                }
            }
            if !ok { break; }
        }
        println!(
            "{{\"store\":\"{name}\",\"kind\":{kind},\"ops\":[{}],\"outs\":[{}],\"ok\":{ok},\"why\":{}}}",
            ops.join(","), outs.join(","), h_util::json_str(&why)
        );
    }
}
