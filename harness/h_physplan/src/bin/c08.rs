//! C08: sorting, merging and TopK return correctly ordered results.
//! Drives the real operators: SortPreservingMergeExec / StreamingMergeBuilder (the loser tree) over k sorted
//! partitions, SortExec with and without fetch (TopK) under memory budgets that force spills and multi-level
//! merges, SortExec/PartialSortExec over an input with a sorted prefix.
//! One JSON object per line: input rows (key columns + unique row id), configuration, observed output id sequence,
//! "ok" = the direct oracle on the implementation's own output (sorted by the requested comparator, permutation of
//! the input, valid top-k under fetch, and for the merge with the stream-index tie break the exact stable sequence).
use std::cmp::Ordering;
use std::panic::{catch_unwind, AssertUnwindSafe};
use std::sync::Arc;

use arrow::array::{ArrayRef, Int64Array, RecordBatch};
use arrow::compute::SortOptions;
use arrow::datatypes::{DataType, Field, Schema, SchemaRef};
use datafusion_execution::config::SessionConfig;
use datafusion_execution::disk_manager::{DiskManagerBuilder, DiskManagerMode};
use datafusion_execution::memory_pool::MemoryConsumer;
use datafusion_execution::runtime_env::RuntimeEnvBuilder;
use datafusion_execution::{SendableRecordBatchStream, TaskContext};
use datafusion_physical_expr::expressions::col;
use datafusion_physical_expr::{LexOrdering, PhysicalSortExpr};
use datafusion_physical_plan::metrics::{BaselineMetrics, ExecutionPlanMetricsSet};
use datafusion_physical_plan::sorts::partial_sort::PartialSortExec;
use datafusion_physical_plan::sorts::sort::SortExec;
use datafusion_physical_plan::sorts::sort_preserving_merge::SortPreservingMergeExec;
use datafusion_physical_plan::sorts::streaming_merge::StreamingMergeBuilder;
use datafusion_physical_plan::test::TestMemoryExec;
use datafusion_physical_plan::{collect, common, ExecutionPlan};
use h_util::{arg, json_str, Rng};

type Key = Vec<Option<i64>>;
#[derive(Clone, Debug)]
struct Row {
    key: Key,
    id: i64,
}
type Opt = (bool, bool); // (descending, nulls_first)

fn cmp_val(o: Opt, a: Option<i64>, b: Option<i64>) -> Ordering {
    match (a, b) {
        (None, None) => Ordering::Equal,
        (None, Some(_)) => if o.1 { Ordering::Less } else { Ordering::Greater },
        (Some(_), None) => if o.1 { Ordering::Greater } else { Ordering::Less },
        (Some(x), Some(y)) => if o.0 { y.cmp(&x) } else { x.cmp(&y) },
    }
}
fn cmp_key(os: &[Opt], a: &Key, b: &Key) -> Ordering {
    for (i, o) in os.iter().enumerate() {
        let c = cmp_val(*o, a[i], b[i]);
        if c != Ordering::Equal {
            return c;
        }
    }
    Ordering::Equal
}

fn schema(ncols: usize) -> SchemaRef {
    let mut f: Vec<Field> = (0..ncols).map(|i| Field::new(format!("c{i}"), DataType::Int64, true)).collect();
    f.push(Field::new("id", DataType::Int64, false));
    Arc::new(Schema::new(f))
}
fn batch(sch: &SchemaRef, ncols: usize, rows: &[Row]) -> RecordBatch {
    let mut cols: Vec<ArrayRef> = vec![];
    for c in 0..ncols {
        cols.push(Arc::new(Int64Array::from(rows.iter().map(|r| r.key[c]).collect::<Vec<_>>())));
    }
    cols.push(Arc::new(Int64Array::from(rows.iter().map(|r| r.id).collect::<Vec<_>>())));
    RecordBatch::try_new(Arc::clone(sch), cols).unwrap()
}
fn ordering(sch: &SchemaRef, os: &[Opt]) -> LexOrdering {
    let v: Vec<PhysicalSortExpr> = os
        .iter()
        .enumerate()
        .map(|(i, o)| PhysicalSortExpr {
            expr: col(&format!("c{i}"), sch).unwrap(),
            options: SortOptions { descending: o.0, nulls_first: o.1 },
        })
        .collect();
    LexOrdering::new(v).unwrap()
}
fn ids_of(bs: &[RecordBatch], ncols: usize) -> Vec<i64> {
    let mut out = vec![];
    for b in bs {
        let a = b.column(ncols).as_any().downcast_ref::<Int64Array>().unwrap();
        out.extend(a.values().iter().copied());
    }
    out
}

fn j_rows(rows: &[Row]) -> String {
    let mut s = String::from("[");
    for (i, r) in rows.iter().enumerate() {
        if i > 0 {
            s.push(',');
        }
        s.push('[');
        for k in &r.key {
            match k {
                Some(v) => s.push_str(&v.to_string()),
                None => s.push_str("null"),
            }
            s.push(',');
        }
        s.push_str(&r.id.to_string());
        s.push(']');
    }
    s.push(']');
    s
}
fn j_rowss(rs: &[Vec<Row>]) -> String {
    format!("[{}]", rs.iter().map(|r| j_rows(r)).collect::<Vec<_>>().join(","))
}
fn j_os(os: &[Opt]) -> String {
    format!("[{}]", os.iter().map(|o| format!("[{},{}]", o.0, o.1)).collect::<Vec<_>>().join(","))
}
fn j_opt(f: Option<usize>) -> String {
    f.map(|x| x.to_string()).unwrap_or("null".into())
}
fn j_ids(v: &[i64]) -> String {
    format!("[{}]", v.iter().map(|x| x.to_string()).collect::<Vec<_>>().join(","))
}

/// direct oracle: `out` (ids) is a correct answer of ORDER BY os [LIMIT fetch] on `input`
fn oracle(os: &[Opt], input: &[Row], fetch: Option<usize>, out: &[i64]) -> Result<(), String> {
    let mut by_id = std::collections::HashMap::new();
    for r in input {
        by_id.insert(r.id, r);
    }
    let mut seen = std::collections::HashSet::new();
    let mut rows: Vec<&Row> = vec![];
    for id in out {
        match by_id.get(id) {
            None => return Err(format!("output row id {id} is not an input row")),
            Some(r) => {
                if !seen.insert(*id) {
                    return Err(format!("row id {id} is returned twice"));
                }
                rows.push(r);
            }
        }
    }
    for w in rows.windows(2) {
        if cmp_key(os, &w[0].key, &w[1].key) == Ordering::Greater {
            return Err(format!("not sorted: row {} before row {}", w[0].id, w[1].id));
        }
    }
    let want = fetch.map(|f| f.min(input.len())).unwrap_or(input.len());
    if out.len() != want {
        return Err(format!("{} rows returned, {} expected", out.len(), want));
    }
    if let Some(last) = rows.last() {
        for r in input {
            if !seen.contains(&r.id) && cmp_key(os, &r.key, &last.key) == Ordering::Less {
                return Err(format!("row {} is excluded but sorts before the returned row {}", r.id, last.id));
            }
        }
    }
    Ok(())
}

fn gen_opts(rng: &mut Rng, ncols: usize) -> Vec<Opt> {
    (0..ncols).map(|_| (rng.chance(1, 2), rng.chance(1, 2))).collect()
}
fn gen_val(rng: &mut Rng, dom: i64, nullp: u64) -> Option<i64> {
    if rng.chance(nullp, 10) {
        None
    } else {
        Some(rng.range(-1, dom - 2))
    }
}
fn gen_key(rng: &mut Rng, ncols: usize, dom: i64, nullp: u64) -> Key {
    (0..ncols).map(|_| gen_val(rng, dom, nullp)).collect()
}
fn split(rng: &mut Rng, rows: &[Row], maxb: usize, empties: bool) -> Vec<Vec<Row>> {
    let mut out = vec![];
    let mut i = 0;
    if empties && rng.chance(1, 6) {
        out.push(vec![]);
    }
    while i < rows.len() {
        let n = (rng.range(1, maxb as i64) as usize).min(rows.len() - i);
        out.push(rows[i..i + n].to_vec());
        i += n;
        if empties && rng.chance(1, 8) {
            out.push(vec![]);
        }
    }
    out
}

fn ctx(batch_size: usize, mem: Option<usize>, fanin: usize, spill_res: usize) -> Arc<TaskContext> {
    let cfg = SessionConfig::new()
        .with_batch_size(batch_size)
        .with_sort_spill_reservation_bytes(spill_res)
        .with_sort_in_place_threshold_bytes(if mem.is_some() { 256 } else { 1024 * 1024 });
    let mut rb = RuntimeEnvBuilder::new()
        .with_disk_manager_builder(DiskManagerBuilder::default().with_mode(DiskManagerMode::OsTmpDirectory).with_max_spill_merge_fan_in(fanin));
    if let Some(m) = mem {
        rb = rb.with_memory_limit(m, 1.0);
    }
    let rt = rb.build_arc().unwrap();
    Arc::new(TaskContext::default().with_session_config(cfg).with_runtime(rt))
}

enum Obs {
    Out(Vec<i64>, usize),
    Err(String),
    Panic(String),
}

fn run_plan(rt: &tokio::runtime::Runtime, plan: Arc<dyn ExecutionPlan>, tc: Arc<TaskContext>, ncols: usize) -> Obs {
    let p2 = Arc::clone(&plan);
    let r = catch_unwind(AssertUnwindSafe(|| rt.block_on(async move { collect(p2, tc).await })));
    match r {
        Err(e) => Obs::Panic(panic_msg(e)),
        Ok(Err(e)) => Obs::Err(e.to_string()),
        Ok(Ok(bs)) => {
            let mut spills = 0;
            if let Some(m) = plan.metrics() {
                spills = m.spill_count().unwrap_or(0);
            }
            Obs::Out(ids_of(&bs, ncols), spills)
        }
    }
}
fn panic_msg(e: Box<dyn std::any::Any + Send>) -> String {
    if let Some(s) = e.downcast_ref::<String>() {
        s.clone()
    } else if let Some(s) = e.downcast_ref::<&str>() {
        s.to_string()
    } else {
        "panic".into()
    }
}

fn merge_case(rng: &mut Rng, rt: &tokio::runtime::Runtime, forced_k: Option<usize>) {
    let ncols = *rng.pick(&[1usize, 1, 2, 2, 3]);
    let os = gen_opts(rng, ncols);
    let k = forced_k.unwrap_or_else(|| rng.range(1, 9) as usize);
    let dom = *rng.pick(&[2i64, 3, 3, 5, 9]);
    let nullp = *rng.pick(&[0u64, 2, 2, 5]);
    let maxrows = *rng.pick(&[3i64, 5, 8]);
    let mut parts: Vec<Vec<Row>> = vec![];
    let mut id = 0i64;
    for _ in 0..k {
        let n = if rng.chance(1, 6) { 0 } else { rng.range(0, maxrows) as usize };
        let mut rows: Vec<Row> = (0..n).map(|_| Row { key: gen_key(rng, ncols, dom, nullp), id: 0 }).collect();
        rows.sort_by(|a, b| cmp_key(&os, &a.key, &b.key));
        for r in rows.iter_mut() {
            r.id = id;
            id += 1;
        }
        parts.push(rows);
    }
    let total: usize = parts.iter().map(|p| p.len()).sum();
    let fetch = if rng.chance(1, 4) { Some(rng.range(1, total as i64 + 2) as usize) } else { None };
    let rr = rng.chance(1, 5);
    let via_smb = k == 1 || rng.chance(1, 3);
    let bs = *rng.pick(&[1usize, 2, 3, 5, 8192]);
    let maxb = *rng.pick(&[1usize, 2, 4]);
    let sch = schema(ncols);
    let batched: Vec<Vec<Vec<Row>>> = parts.iter().map(|p| split(rng, p, maxb, true)).collect();
    let rbs: Vec<Vec<RecordBatch>> = batched.iter().map(|p| p.iter().map(|b| batch(&sch, ncols, b)).collect()).collect();
    let ord = ordering(&sch, &os);
    let tc = ctx(bs, None, 0, 1024);
    let obs = if via_smb {
        let sch2 = Arc::clone(&sch);
        let ord2 = ord.clone();
        let tc2 = Arc::clone(&tc);
        let r = catch_unwind(AssertUnwindSafe(|| {
            rt.block_on(async move {
                let streams: Vec<SendableRecordBatchStream> = rbs
                    .iter()
                    .map(|p| {
                        let e = TestMemoryExec::try_new_exec(&[p.clone()], Arc::clone(&sch2), None).unwrap();
                        e.execute(0, Arc::clone(&tc2)).unwrap()
                    })
                    .collect();
                let ms = ExecutionPlanMetricsSet::new();
                let res = MemoryConsumer::new("c08").register(&tc2.runtime_env().memory_pool);
                let s = StreamingMergeBuilder::new()
                    .with_streams(streams)
                    .with_schema(Arc::clone(&sch2))
                    .with_expressions(&ord2)
                    .with_metrics(BaselineMetrics::new(&ms, 0))
                    .with_batch_size(bs)
                    .with_fetch(fetch)
                    .with_reservation(res)
                    .with_round_robin_tie_breaker(rr)
                    .build()?;
                common::collect(s).await
            })
        }));
        match r {
            Err(e) => Obs::Panic(panic_msg(e)),
            Ok(Err(e)) => Obs::Err(e.to_string()),
            Ok(Ok(b)) => Obs::Out(ids_of(&b, ncols), 0),
        }
    } else {
        let input = TestMemoryExec::try_new_exec(&rbs, Arc::clone(&sch), None).unwrap();
        let spm = SortPreservingMergeExec::new(ord.clone(), input).with_fetch(fetch).with_round_robin_repartition(rr);
        run_plan(rt, Arc::new(spm), Arc::clone(&tc), ncols)
    };
    let all: Vec<Row> = parts.iter().flatten().cloned().collect();
    let head = format!(
        "{{\"k\":\"merge\",\"via\":{},\"os\":{},\"parts\":{},\"batches\":{},\"fetch\":{},\"rr\":{},\"bs\":{}",
        json_str(if via_smb { "streaming_merge" } else { "spm" }),
        j_os(&os),
        j_rowss(&parts),
        format!("[{}]", batched.iter().map(|p| format!("[{}]", p.iter().map(|b| b.len().to_string()).collect::<Vec<_>>().join(","))).collect::<Vec<_>>().join(",")),
        j_opt(fetch),
        rr,
        bs
    );
    match obs {
        Obs::Out(out, _) => {
            let mut why = String::new();
            if let Err(e) = oracle(&os, &all, fetch, &out) {
                why = e;
            } else if !rr || k == 1 {
                // stream-index tie break: the exact stable sequence (ids were numbered in (partition, position) order)
                let mut exp = all.clone();
                exp.sort_by(|a, b| cmp_key(&os, &a.key, &b.key));
                let want: Vec<i64> = exp.iter().take(fetch.unwrap_or(usize::MAX)).map(|r| r.id).collect();
                if want != out {
                    why = format!("not the stable merge (ties by partition index, then position): expected {}", j_ids(&want));
                }
            }
            println!("{head},\"out\":{},\"ok\":{},\"why\":{}}}", j_ids(&out), why.is_empty(), json_str(&why));
        }
        Obs::Err(e) => println!("{head},\"err\":{},\"ok\":false,\"why\":{}}}", json_str(&e), json_str("the merge returned an error")),
        Obs::Panic(e) => println!("{head},\"panic\":{},\"ok\":false,\"why\":{}}}", json_str(&e), json_str("the merge panicked")),
    }
}

fn sort_case(rng: &mut Rng, rt: &tokio::runtime::Runtime) {
    let ncols = *rng.pick(&[1usize, 2, 2, 3]);
    let os = gen_opts(rng, ncols);
    let dom = *rng.pick(&[2i64, 3, 5, 9, 40]);
    let nullp = *rng.pick(&[0u64, 2, 2, 5]);
    let n = *rng.pick(&[0usize, 1, 2, 5, 9, 14, 20, 30, 40]);
    // op: 0 = SortExec, 1 = SortExec over an input with a declared sorted prefix (c0), 2 = PartialSortExec
    let op = if ncols >= 2 { *rng.pick(&[0u8, 0, 0, 1, 2]) } else { 0 };
    let mut rows: Vec<Row> = (0..n).map(|_| Row { key: gen_key(rng, ncols, dom, nullp), id: 0 }).collect();
    if op != 0 {
        let o0 = [os[0]];
        rows.sort_by(|a, b| cmp_key(&o0, &a.key, &b.key));
    }
    for (i, r) in rows.iter_mut().enumerate() {
        r.id = i as i64;
    }
    let fetch = if rng.chance(1, 2) { Some(rng.range(1, n as i64 + 2) as usize) } else { None };
    let maxb = *rng.pick(&[1usize, 2, 4, 4]);
    let chunks = split(rng, &rows, maxb, true);
    let bs = *rng.pick(&[1usize, 2, 3, 5, 8192]);
    // memory budgets: None = unbounded; small pools force the external sorter to spill sorted runs and merge them
    let mem = if op == 0 && fetch.is_none() { *rng.pick(&[None, Some(200usize), Some(300), Some(450), Some(700), Some(1000), Some(1600), Some(3000)]) } else { None };
    let fanin = *rng.pick(&[0usize, 2, 2, 3, 4]);
    let spill_res = *rng.pick(&[0usize, 0, 0, 128]);
    let sch = schema(ncols);
    let rbs: Vec<RecordBatch> = chunks.iter().map(|b| batch(&sch, ncols, b)).collect();
    let ord = ordering(&sch, &os);
    let tc = ctx(bs, mem, fanin, spill_res);
    let input: Arc<dyn ExecutionPlan> = if op == 0 {
        TestMemoryExec::try_new_exec(&[rbs], Arc::clone(&sch), None).unwrap()
    } else {
        let e = TestMemoryExec::try_new(&[rbs], Arc::clone(&sch), None)
            .unwrap()
            .try_with_sort_information(vec![ordering(&sch, &os[..1])])
            .unwrap();
        Arc::new(TestMemoryExec::update_cache(&Arc::new(e)))
    };
    let plan: Arc<dyn ExecutionPlan> = if op == 2 {
        Arc::new(PartialSortExec::new(ord.clone(), input, 1).with_fetch(fetch))
    } else {
        Arc::new(SortExec::new(ord.clone(), input).with_fetch(fetch))
    };
    let obs = run_plan(rt, plan, tc, ncols);
    let head = format!(
        "{{\"k\":\"sort\",\"op\":{},\"os\":{},\"chunks\":{},\"fetch\":{},\"bs\":{},\"mem\":{},\"fanin\":{},\"spill_res\":{}",
        json_str(["sort", "sort_prefix", "partial_sort"][op as usize]),
        j_os(&os),
        j_rowss(&chunks),
        j_opt(fetch),
        bs,
        j_opt(mem),
        fanin,
        spill_res
    );
    match obs {
        Obs::Out(out, spills) => {
            let why = oracle(&os, &rows, fetch, &out).err().unwrap_or_default();
            println!("{head},\"spills\":{spills},\"out\":{},\"ok\":{},\"why\":{}}}", j_ids(&out), why.is_empty(), json_str(&why));
        }
        // running out of the (deliberately tiny) memory budget is a legitimate outcome, not a wrong answer
        Obs::Err(e) => {
            let res = e.contains("Resources exhausted") || e.contains("Failed to allocate") || e.contains("memory");
            println!("{head},\"err\":{},\"ok\":{},\"why\":{}}}", json_str(&e), res && mem.is_some(), json_str(if res && mem.is_some() { "" } else { "the sort returned an error" }));
        }
        Obs::Panic(e) => println!("{head},\"panic\":{},\"ok\":false,\"why\":{}}}", json_str(&e), json_str("the sort panicked")),
    }
}

fn main() {
    let args: Vec<String> = std::env::args().collect();
    let seed: u64 = arg(&args, "--seed", "1").parse().unwrap();
    let n: usize = arg(&args, "--n", "300").parse().unwrap();
    std::panic::set_hook(Box::new(|_| {}));
    let rt = tokio::runtime::Builder::new_multi_thread().worker_threads(2).enable_all().build().unwrap();
    let mut rng = Rng::new(seed);
    // every k = 1..9 at least twice, then random
    for k in 1..=9usize {
        merge_case(&mut rng, &rt, Some(k));
        merge_case(&mut rng, &rt, Some(k));
    }
    for i in 0..n {
        if i % 5 < 3 {
            merge_case(&mut rng, &rt, None);
        } else {
            sort_case(&mut rng, &rt);
        }
    }
}
