//! C14: join hash table lookups return exactly the matching build rows.
//! Drives the real JoinHashMapU32 / JoinHashMapU64 through the public JoinHashMapType trait.
//! One JSON object per line: input, observed output, "pre" (do the caller obligations hold:
//! distinct build rows, row - deleted_offset < capacity, row + 1 fits the index type, limit >= 1,
//! paging starts at (0, None)), "ok" (direct oracle on the observed output; true when !pre).
use std::panic::{catch_unwind, AssertUnwindSafe};

use arrow::array::Array;
use arrow::buffer::NullBuffer;
use datafusion_physical_plan::joins::join_hash_map::{JoinHashMapType, JoinHashMapU32, JoinHashMapU64};
use h_util::{arg, Rng};

type Tok = (usize, Option<u64>);

#[derive(Clone)]
struct Build {
    w: u32,
    cap: usize,
    d: usize,
    bs: Vec<Vec<(usize, u64)>>,
}

impl Build {
    fn ins(&self) -> Vec<(usize, u64)> {
        self.bs.iter().flatten().copied().collect()
    }
    fn pre(&self) -> bool {
        let ins = self.ins();
        let wmax: u128 = if self.w == 32 { u32::MAX as u128 } else { u64::MAX as u128 };
        let mut seen = std::collections::HashSet::new();
        for (r, _) in &ins {
            if !seen.insert(*r) || *r < self.d || *r - self.d >= self.cap || (*r as u128) + 1 > wmax {
                return false;
            }
        }
        true
    }
    fn json(&self) -> String {
        let mut s = format!("\"w\":{},\"cap\":{},\"d\":{},\"bs\":[", self.w, self.cap, self.d);
        for (i, b) in self.bs.iter().enumerate() {
            if i > 0 {
                s.push(',');
            }
            s.push('[');
            for (j, (r, h)) in b.iter().enumerate() {
                if j > 0 {
                    s.push(',');
                }
                s.push_str(&format!("[{r},{h}]"));
            }
            s.push(']');
        }
        s.push(']');
        s
    }
    /// the real thing; None = update_from_iter panicked
    fn make(&self) -> Option<Box<dyn JoinHashMapType>> {
        let me = self.clone();
        catch_unwind(AssertUnwindSafe(move || {
            let mut m: Box<dyn JoinHashMapType> = if me.w == 32 {
                Box::new(JoinHashMapU32::with_capacity(me.cap))
            } else {
                Box::new(JoinHashMapU64::with_capacity(me.cap))
            };
            for b in &me.bs {
                let rows: Vec<usize> = b.iter().map(|x| x.0).collect();
                let hs: Vec<u64> = b.iter().map(|x| x.1).collect();
                m.update_from_iter(Box::new(rows.iter().copied().zip(hs.iter())), me.d);
            }
            m
        }))
        .ok()
    }
}

fn pairs_json(p: &[(u64, u64)]) -> String {
    let mut s = String::from("[");
    for (i, (a, b)) in p.iter().enumerate() {
        if i > 0 {
            s.push(',');
        }
        s.push_str(&format!("[{a},{b}]"));
    }
    s.push(']');
    s
}

fn tok_json(t: &Option<Tok>) -> String {
    match t {
        None => "null".into(),
        Some((i, None)) => format!("[{i},null]"),
        Some((i, Some(n))) => format!("[{i},{n}]"),
    }
}

/// rows with hash h, most recently inserted first
fn rows_of(ins: &[(usize, u64)], h: u64) -> Vec<usize> {
    ins.iter().rev().filter(|x| x.1 == h).map(|x| x.0).collect()
}

fn emit_build(b: &Build) -> bool {
    let m = b.make();
    let pre = b.pre();
    let (returned, len, empty) = match &m {
        Some(m) => (true, m.len(), m.is_empty()),
        None => (false, 0, true),
    };
    let mut hs: Vec<u64> = b.ins().iter().map(|x| x.1).collect();
    hs.sort();
    hs.dedup();
    let ok = !pre || (returned && len == hs.len() && empty == hs.is_empty());
    println!("{{\"k\":\"build\",{},\"returned\":{returned},\"len\":{len},\"pre\":{pre},\"ok\":{ok}}}", b.json());
    returned
}

fn emit_matched(b: &Build, probes: &[(usize, u64)], od: Option<usize>) {
    let Some(m) = b.make() else { return };
    let pre = b.pre() && (od == Some(b.d) || (od.is_none() && b.d == 0));
    let rows: Vec<usize> = probes.iter().map(|x| x.0).collect();
    let hs: Vec<u64> = probes.iter().map(|x| x.1).collect();
    let obs = catch_unwind(AssertUnwindSafe(|| m.get_matched_indices(Box::new(rows.iter().copied().zip(hs.iter())), od))).ok();
    let ins = b.ins();
    let mut exp: Vec<(u64, u64)> = vec![];
    for (ri, h) in probes {
        for r in rows_of(&ins, *h) {
            exp.push((*ri as u64, (r as u64).wrapping_sub(b.d as u64)));
        }
    }
    let obs_pairs: Option<Vec<(u64, u64)>> =
        obs.map(|(a, c)| a.iter().map(|x| *x as u64).zip(c.iter().copied()).collect());
    let ok = !pre || obs_pairs.as_ref() == Some(&exp);
    let mut pj = String::from("[");
    for (i, (r, h)) in probes.iter().enumerate() {
        if i > 0 {
            pj.push(',');
        }
        pj.push_str(&format!("[{r},{h}]"));
    }
    pj.push(']');
    println!(
        "{{\"k\":\"matched\",{},\"probes\":{pj},\"od\":{},\"obs\":{},\"pre\":{pre},\"ok\":{ok}}}",
        b.json(),
        od.map(|x| x.to_string()).unwrap_or("null".into()),
        obs_pairs.map(|p| pairs_json(&p)).unwrap_or("null".into())
    );
}

fn emit_contains(b: &Build, hs: &[u64]) {
    let Some(m) = b.make() else { return };
    let pre = b.pre();
    let arr = m.contain_hashes(hs);
    let obs: Vec<bool> = (0..hs.len()).map(|i| arr.value(i)).collect();
    let ins = b.ins();
    let exp: Vec<bool> = hs.iter().map(|h| !rows_of(&ins, *h).is_empty()).collect();
    let ok = !pre || (obs == exp && arr.null_count() == 0);
    println!(
        "{{\"k\":\"contains\",{},\"hs\":{},\"obs\":{},\"pre\":{pre},\"ok\":{ok}}}",
        b.json(),
        h_util::json_list(hs),
        h_util::json_list(&obs)
    );
}

/// the caller's paging loop, as hash_join/stream.rs does it: feed the returned offset back
fn emit_paged(b: &Build, probes: &[(u64, bool)], pass_none: bool, limit: usize, t0: Tok, max_pages: usize) {
    let Some(m) = b.make() else { return };
    let pre = b.pre() && b.d == 0 && limit >= 1 && t0 == (0, None);
    let hs: Vec<u64> = probes.iter().map(|x| x.0).collect();
    let valid: Vec<bool> = probes.iter().map(|x| x.1).collect();
    let nb = NullBuffer::from(valid.clone());
    let vk = if pass_none && valid.iter().all(|v| *v) { None } else { Some(&nb) };
    // deliberately dirty buffers: the function must clear them
    let mut ii: Vec<u32> = vec![77, 78];
    let mut mi: Vec<u64> = vec![99];
    let mut tok = t0;
    let mut pages = String::from("[");
    let mut all: Vec<(u64, u64)> = vec![];
    let mut complete = false;
    let mut panicked = false;
    let mut page_sizes_ok = true;
    let mut npages = 0;
    while npages < max_pages {
        let r = catch_unwind(AssertUnwindSafe(|| {
            m.get_matched_indices_with_limit_offset(&hs, vk, limit, tok, &mut ii, &mut mi)
        }));
        if npages > 0 {
            pages.push(',');
        }
        npages += 1;
        match r {
            Err(_) => {
                pages.push_str("null");
                panicked = true;
                break;
            }
            Ok(next) => {
                let pg: Vec<(u64, u64)> = ii.iter().map(|x| *x as u64).zip(mi.iter().copied()).collect();
                if pg.len() > limit || ii.len() != mi.len() {
                    page_sizes_ok = false;
                }
                pages.push_str(&format!("{{\"p\":{},\"t\":{}}}", pairs_json(&pg), tok_json(&next)));
                all.extend(pg);
                match next {
                    None => {
                        complete = true;
                        break;
                    }
                    Some(t) => tok = t,
                }
            }
        }
    }
    pages.push(']');
    let ins = b.ins();
    let mut exp: Vec<(u64, u64)> = vec![];
    for (i, (h, v)) in probes.iter().enumerate() {
        if *v {
            for r in rows_of(&ins, *h) {
                exp.push((i as u64, r as u64));
            }
        }
    }
    let ok = !pre || (complete && !panicked && page_sizes_ok && all == exp);
    let mut pj = String::from("[");
    for (i, (h, v)) in probes.iter().enumerate() {
        if i > 0 {
            pj.push(',');
        }
        pj.push_str(&format!("[{h},{}]", *v as u8));
    }
    pj.push(']');
    println!(
        "{{\"k\":\"paged\",{},\"probes\":{pj},\"limit\":{limit},\"t0\":{},\"pages\":{pages},\"complete\":{complete},\"npairs\":{},\"pre\":{pre},\"ok\":{ok}}}",
        b.json(),
        tok_json(&Some(t0)),
        all.len()
    );
}

/// split rows 0..hashes.len() into batches the way collect_left_input / update_hash do
/// (`style` 0: batches visited last-to-first with running offset and each batch iterated in reverse
/// = hash join build; 1: forward batches, forward rows = symmetric hash join; 2: arbitrary order)
fn make_batches(rng: &mut Rng, hashes: &[Option<u64>], d: usize, style: u64) -> Vec<Vec<(usize, u64)>> {
    let n = hashes.len();
    let mut cuts = vec![0usize, n];
    for _ in 0..rng.below(3) {
        cuts.push(rng.below(n as u64 + 1) as usize);
    }
    cuts.sort();
    let mut bs: Vec<Vec<(usize, u64)>> = vec![];
    for w in cuts.windows(2) {
        // NULL-key build rows (None) are filtered out before the iterator reaches the map
        let b: Vec<(usize, u64)> = (w[0]..w[1]).filter_map(|i| hashes[i].map(|h| (i + d, h))).collect();
        bs.push(b);
    }
    match style {
        0 => {
            bs.reverse();
            for b in bs.iter_mut() {
                b.reverse();
            }
        }
        1 => {}
        _ => {
            for b in bs.iter_mut() {
                for i in (1..b.len()).rev() {
                    let j = rng.below(i as u64 + 1) as usize;
                    b.swap(i, j);
                }
            }
            if rng.chance(1, 2) {
                bs.reverse();
            }
        }
    }
    bs
}

fn main() {
    std::panic::set_hook(Box::new(|_| {})); // panics are caught per case and reported as data
    let args: Vec<String> = std::env::args().collect();
    let args = &args[1..];
    let seed: u64 = arg(args, "--seed", "1").parse().unwrap();
    let n: usize = arg(args, "--n", "300").parse().unwrap();
    let exh: usize = arg(args, "--exh", "3").parse().unwrap();
    let mut rng = Rng::new(seed);

    // --- (0) the two scenarios of the module's own documentation / unit tests
    {
        let b = Build { w: 32, cap: 5, d: 0, bs: vec![vec![(1, 10), (2, 20), (3, 10), (4, 10)]] };
        emit_build(&b);
        emit_matched(&b, &[(0, 10), (1, 20), (2, 30)], None);
        for limit in 1..=5 {
            emit_paged(&b, &[(10, true), (20, true), (30, true), (10, true)], true, limit, (0, None), 100);
        }
    }

    // --- (1) small scope, exhaustive: every hash sequence of length <= exh over 3 hash values,
    //     built hash-join style and forward, capacity = rows (unique fast path reachable) and rows + 2,
    //     probe list with hit / miss / duplicate / NULL key / last-row hit, every limit 1..=total+1
    let alpha = [7u64, 8, 9];
    let probes: Vec<(u64, bool)> = vec![(7, true), (5, true), (8, true), (7, false), (9, true), (7, true)];
    let mut variant = 0u64;
    for len in 0..=exh {
        let total = 3usize.pow(len as u32);
        for code in 0..total {
            let mut hs = vec![];
            let mut c = code;
            for _ in 0..len {
                hs.push(Some(alpha[c % 3]));
                c /= 3;
            }
            for style in 0..2u64 {
                for extra in [0usize, 2] {
                    variant += 1;
                    let w = if variant % 2 == 0 { 32 } else { 64 };
                    let bs = make_batches(&mut rng, &hs, 0, style);
                    let b = Build { w, cap: len + extra, d: 0, bs };
                    if !emit_build(&b) {
                        continue;
                    }
                    let ins = b.ins();
                    let tot: usize = probes.iter().filter(|p| p.1).map(|p| rows_of(&ins, p.0).len()).sum();
                    for limit in 1..=tot + 1 {
                        emit_paged(&b, &probes, false, limit, (0, None), 200);
                    }
                    // last probe row is a miss / a NULL key
                    let mut p2 = probes.clone();
                    p2.push((5, true));
                    emit_paged(&b, &p2, false, 1 + (variant as usize % 3), (0, None), 200);
                    let mut p3 = probes.clone();
                    p3.push((8, false));
                    emit_paged(&b, &p3, false, 1 + (variant as usize % 2), (0, None), 200);
                    if style == 0 && extra == 0 {
                        emit_matched(&b, &[(0, 7), (1, 5), (2, 8), (4, 9), (5, 7)], None);
                        emit_contains(&b, &[7, 5, 8, 9]);
                    }
                }
            }
        }
    }

    // --- (2) random histories
    let pool: [u64; 8] = [0, 1, u64::MAX, u64::MAX - 1, 1 << 32, 0x9E3779B97F4A7C15, 42, 1 << 63];
    for _ in 0..n {
        let w = if rng.chance(1, 2) { 32 } else { 64 };
        let nrows = if rng.chance(1, 10) { 0 } else { rng.below(13) as usize };
        let k = 1 + rng.below(4) as usize; // alphabet size: heavy duplicates
        let start = rng.below(8) as usize;
        let al: Vec<u64> = (0..k).map(|i| pool[(start + i) % 8]).collect();
        let unique = rng.chance(1, 5);
        let null_rate = if rng.chance(1, 3) { 5 } else { 0 };
        let hashes: Vec<Option<u64>> = (0..nrows)
            .map(|i| {
                if null_rate > 0 && rng.chance(1, null_rate) {
                    None
                } else if unique {
                    Some(1000 + i as u64 * 3)
                } else {
                    Some(*rng.pick(&al))
                }
            })
            .collect();
        let d = if rng.chance(1, 4) { 1 + rng.below(6) as usize } else { 0 };
        let style = rng.below(3);
        let bs = make_batches(&mut rng, &hashes, d, style);
        let cap = if rng.chance(1, 2) { nrows } else { nrows + 1 + rng.below(4) as usize };
        let b = Build { w, cap, d, bs };
        if !emit_build(&b) {
            continue;
        }
        let miss = 555u64;
        let np = rng.below(9) as usize;
        let mut ph: Vec<u64> = vec![];
        for _ in 0..np {
            ph.push(if unique && rng.chance(2, 3) && nrows > 0 {
                1000 + rng.below(nrows as u64) * 3
            } else if rng.chance(1, 5) {
                miss
            } else {
                *rng.pick(&al)
            });
        }
        // un-paged lookup (with the deleted offset the map was built with), SHJ style: reversed probe iterator
        let mut mp: Vec<(usize, u64)> = ph.iter().copied().enumerate().collect();
        if rng.chance(1, 2) {
            mp.reverse();
        }
        emit_matched(&b, &mp, if d == 0 && rng.chance(1, 2) { None } else { Some(d) });
        let mut ch = ph.clone();
        ch.push(miss);
        emit_contains(&b, &ch);
        if d == 0 {
            let all_valid = rng.chance(1, 2);
            let pv: Vec<(u64, bool)> = ph.iter().map(|h| (*h, all_valid || !rng.chance(1, 4))).collect();
            let ins = b.ins();
            let tot: usize = pv.iter().filter(|p| p.1).map(|p| rows_of(&ins, p.0).len()).sum();
            let mut limits: Vec<usize> = vec![1, 2, 3, tot.max(1), tot + 1, 8192];
            limits.push(1 + rng.below(tot as u64 + 2) as usize);
            limits.push(1 + rng.below(6) as usize);
            limits.sort();
            limits.dedup();
            for limit in limits {
                emit_paged(&b, &pv, rng.chance(1, 2), limit, (0, None), 400);
            }
        }
    }

    // --- (3) outside the caller obligations (the model predicts these too; "pre" is false)
    for i in 0..(n / 10).max(6) {
        let w = if i % 2 == 0 { 32 } else { 64 };
        match i % 6 {
            0 => {
                // row beyond capacity on an occupied entry: index out of bounds
                let b = Build { w, cap: 2, d: 0, bs: vec![vec![(0, 7), (1, 8)], vec![(2 + rng.below(3) as usize, 7)]] };
                emit_build(&b);
            }
            1 => {
                // row beyond capacity on a vacant entry: insertion succeeds, lookups index out of bounds
                let b = Build { w, cap: 2, d: 0, bs: vec![vec![(0, 7), (5, 8)]] };
                emit_build(&b);
                emit_paged(&b, &[(7, true), (8, true)], true, 1 + rng.below(3) as usize, (0, None), 12);
                emit_matched(&b, &[(0, 7), (1, 8)], None);
            }
            2 => {
                // row + 1 does not fit u32
                let b = Build { w, cap: 3, d: 0, bs: vec![vec![(0, 7), (u32::MAX as usize, 8)]] };
                emit_build(&b);
                let b = Build { w, cap: 3, d: 0, bs: vec![vec![(0, 7), (u32::MAX as usize - 1, 8)]] };
                emit_build(&b);
            }
            3 => {
                // the same row inserted twice: self-referencing chain; the paged lookup never finishes
                let b = Build { w, cap: 3, d: 0, bs: vec![vec![(0, 7), (1, 7)], vec![(1, 7)]] };
                emit_build(&b);
                emit_paged(&b, &[(7, true), (9, true)], true, 1 + rng.below(3) as usize, (0, None), 6);
            }
            4 => {
                // row below the deleted offset
                let b = Build { w, cap: 4, d: 3, bs: vec![vec![(3, 7), (2, 7)]] };
                emit_build(&b);
                let b = Build { w, cap: 4, d: 3, bs: vec![vec![(3, 7), (4, 7), (5, 8)]] };
                emit_build(&b);
                // looked up with another offset than it was built with (pruned prefix)
                emit_matched(&b, &[(0, 7), (1, 8)], Some(4));
                emit_matched(&b, &[(0, 7), (1, 8)], Some(3));
            }
            _ => {
                // paging resumed from offsets the function did not return itself
                let b = Build { w, cap: 5, d: 0, bs: vec![vec![(0, 7), (1, 8), (2, 7), (3, 7)]] };
                emit_build(&b);
                let pv = [(7, true), (8, true), (7, true)];
                let toks: [Tok; 7] = [(1, None), (3, None), (4, None), (0, Some(0)), (2, Some(3)), (2, Some(1)), (1, Some(9))];
                let t = toks[rng.below(7) as usize];
                emit_paged(&b, &pv, true, 1 + rng.below(4) as usize, t, 12);
                emit_paged(&b, &[], true, 2, (0, Some(1)), 3);
            }
        }
    }
}
