//! C05: every join operator computes exactly its join type's result.
//! Drives the REAL operators (HashJoinExec in CollectLeft / Partitioned mode incl. null-aware anti joins,
//! SortMergeJoinExec over pre-sorted inputs, NestedLoopJoinExec, SymmetricHashJoinExec, CrossJoinExec) directly over
//! small generated in-memory batches, for all ten join types x NullEquality x residual filter x batch sizes x
//! input batching x partition counts.  Each side's rows are [id, k1, k2, v] with a unique id, so output bags compare
//! exactly.  One JSON object per line: configuration, both inputs (with their batching), observed output rows and
//! "ok" = the direct oracle: a nested-loop evaluation of the join type's textbook definition, in Rust, compared as
//! a bag with the operator's own output.
use std::panic::{catch_unwind, AssertUnwindSafe};
use std::sync::Arc;

use arrow::array::{Array, ArrayRef, BooleanArray, Int64Array, RecordBatch};
use arrow::compute::SortOptions;
use arrow::datatypes::{DataType, Field, Schema, SchemaRef};
use datafusion_common::{JoinSide, JoinType, NullEquality, ScalarValue};
use datafusion_execution::config::SessionConfig;
use datafusion_execution::TaskContext;
use datafusion_expr::Operator;
use datafusion_physical_expr::expressions::{BinaryExpr, Column, Literal};
use datafusion_physical_expr::{Partitioning, PhysicalExpr};
use datafusion_physical_plan::joins::utils::{ColumnIndex, JoinFilter};
use datafusion_physical_plan::joins::{
    CrossJoinExec, HashJoinExec, NestedLoopJoinExec, PartitionMode, SortMergeJoinExec, StreamJoinPartitionMode,
    SymmetricHashJoinExec,
};
use datafusion_physical_plan::repartition::RepartitionExec;
use datafusion_physical_plan::test::TestMemoryExec;
use datafusion_physical_plan::{collect, ExecutionPlan};
use h_util::{arg, json_str, Rng};

// ---------------------------------------------------------------- values and rows
#[derive(Clone, PartialEq, Eq, PartialOrd, Ord, Debug)]
enum V {
    Null,
    Int(i64),
    Bool(bool),
}
type Row = Vec<V>;

#[derive(Clone, Debug)]
struct SRow {
    id: i64,
    k1: Option<i64>,
    k2: Option<i64>,
    v: Option<i64>,
}
fn ov(x: Option<i64>) -> V {
    match x {
        Some(i) => V::Int(i),
        None => V::Null,
    }
}
impl SRow {
    fn row(&self) -> Row {
        vec![V::Int(self.id), ov(self.k1), ov(self.k2), ov(self.v)]
    }
    fn key(&self, nk: usize) -> Vec<Option<i64>> {
        [self.k1, self.k2][..nk].to_vec()
    }
}

#[derive(Clone, Copy, Debug, PartialEq)]
enum Filt {
    None,
    Lt,
    EvenSum,
    LeftGe(i64),
    RightGe(i64),
    /// a filter without any column: constant TRUE / FALSE / NULL (`-1 >= CAST(NULL AS BIGINT)`)
    Const(Option<bool>),
}
impl Filt {
    fn json(&self) -> String {
        match self {
            Filt::None => "[\"none\",0]".into(),
            Filt::Lt => "[\"lt\",0]".into(),
            Filt::EvenSum => "[\"even\",0]".into(),
            Filt::LeftGe(c) => format!("[\"lge\",{c}]"),
            Filt::RightGe(c) => format!("[\"rge\",{c}]"),
            Filt::Const(Some(true)) => "[\"const\",1]".into(),
            Filt::Const(Some(false)) => "[\"const\",0]".into(),
            Filt::Const(None) => "[\"const\",-1]".into(),
        }
    }
    /// residual filter, SQL semantics: a NULL result does not pass
    fn eval(&self, l: &SRow, r: &SRow) -> bool {
        match self {
            Filt::None => true,
            Filt::Lt => matches!((l.v, r.v), (Some(a), Some(b)) if a < b),
            Filt::EvenSum => matches!((l.v, r.v), (Some(a), Some(b)) if (a + b) % 2 == 0),
            Filt::LeftGe(c) => matches!(l.v, Some(a) if a >= *c),
            Filt::RightGe(c) => matches!(r.v, Some(b) if b >= *c),
            Filt::Const(b) => *b == Some(true),
        }
    }
}

const JTS: [JoinType; 10] = [
    JoinType::Inner,
    JoinType::Left,
    JoinType::Right,
    JoinType::Full,
    JoinType::LeftSemi,
    JoinType::RightSemi,
    JoinType::LeftAnti,
    JoinType::RightAnti,
    JoinType::LeftMark,
    JoinType::RightMark,
];
fn jt_name(j: JoinType) -> &'static str {
    match j {
        JoinType::Inner => "Inner",
        JoinType::Left => "Left",
        JoinType::Right => "Right",
        JoinType::Full => "Full",
        JoinType::LeftSemi => "LeftSemi",
        JoinType::RightSemi => "RightSemi",
        JoinType::LeftAnti => "LeftAnti",
        JoinType::RightAnti => "RightAnti",
        JoinType::LeftMark => "LeftMark",
        JoinType::RightMark => "RightMark",
    }
}

#[derive(Clone, Copy, Debug, PartialEq)]
enum Op {
    HjCollect,
    HjPart,
    Smj,
    Nlj,
    Shj,
    Cross,
}
impl Op {
    fn name(&self) -> &'static str {
        match self {
            Op::HjCollect => "hj_collect",
            Op::HjPart => "hj_part",
            Op::Smj => "smj",
            Op::Nlj => "nlj",
            Op::Shj => "shj",
            Op::Cross => "cross",
        }
    }
}

#[derive(Clone, Debug)]
struct Case {
    id: u64,
    op: Op,
    jt: JoinType,
    nulleq: bool,
    nk: usize,
    filt: Filt,
    na: bool, // null-aware anti join (NOT IN)
    fmin: bool, // the JoinFilter lists only the columns its expression uses (one-sided filters: a single column)
    bs: usize,
    so: Vec<(bool, bool)>,    // per key column (descending, nulls_first) -- SMJ
    l: Vec<Vec<Vec<SRow>>>,   // partitions -> batches -> rows
    r: Vec<Vec<Vec<SRow>>>,
    stream: &'static str,
}
fn flat(x: &[Vec<Vec<SRow>>]) -> Vec<SRow> {
    x.iter().flatten().flatten().cloned().collect()
}

// ---------------------------------------------------------------- the direct oracle (textbook nested loop)
fn keys_eq(nulleq: bool, a: &[Option<i64>], b: &[Option<i64>]) -> bool {
    a.iter().zip(b).all(|(x, y)| match (x, y) {
        (None, None) => nulleq,
        (Some(p), Some(q)) => p == q,
        _ => false,
    })
}
fn expected(c: &Case) -> Vec<Row> {
    let l = flat(&c.l);
    let r = flat(&c.r);
    let on = |a: &SRow, b: &SRow| keys_eq(c.nulleq, &a.key(c.nk), &b.key(c.nk)) && c.filt.eval(a, b);
    let nulls = || vec![V::Null; 4];
    let cat = |a: Row, b: Row| a.into_iter().chain(b).collect::<Row>();
    let mut out = vec![];
    if c.na {
        // x NOT IN (set) is TRUE iff the set is empty, or x is not NULL, the set has no NULL and no element equals x
        let (outer, inner) = if c.jt == JoinType::LeftAnti { (&l, &r) } else { (&r, &l) };
        for a in outer {
            let keep = inner.is_empty()
                || (a.k1.is_some() && inner.iter().all(|b| b.k1.is_some() && b.k1 != a.k1));
            if keep {
                out.push(a.row());
            }
        }
        return out;
    }
    match c.jt {
        JoinType::Inner | JoinType::Left | JoinType::Right | JoinType::Full => {
            for a in &l {
                let mut m = false;
                for b in &r {
                    if on(a, b) {
                        m = true;
                        out.push(cat(a.row(), b.row()));
                    }
                }
                if !m && matches!(c.jt, JoinType::Left | JoinType::Full) {
                    out.push(cat(a.row(), nulls()));
                }
            }
            if matches!(c.jt, JoinType::Right | JoinType::Full) {
                for b in &r {
                    if !l.iter().any(|a| on(a, b)) {
                        out.push(cat(nulls(), b.row()));
                    }
                }
            }
        }
        JoinType::LeftSemi => out.extend(l.iter().filter(|a| r.iter().any(|b| on(a, b))).map(|a| a.row())),
        JoinType::LeftAnti => out.extend(l.iter().filter(|a| !r.iter().any(|b| on(a, b))).map(|a| a.row())),
        JoinType::RightSemi => out.extend(r.iter().filter(|b| l.iter().any(|a| on(a, b))).map(|b| b.row())),
        JoinType::RightAnti => out.extend(r.iter().filter(|b| !l.iter().any(|a| on(a, b))).map(|b| b.row())),
        JoinType::LeftMark => {
            out.extend(l.iter().map(|a| cat(a.row(), vec![V::Bool(r.iter().any(|b| on(a, b)))])))
        }
        JoinType::RightMark => {
            out.extend(r.iter().map(|b| cat(b.row(), vec![V::Bool(l.iter().any(|a| on(a, b)))])))
        }
    }
    out
}

// ---------------------------------------------------------------- building the real operators
fn side_schema(p: &str) -> SchemaRef {
    Arc::new(Schema::new(vec![
        Field::new(format!("{p}_id"), DataType::Int64, false),
        Field::new(format!("{p}_k1"), DataType::Int64, true),
        Field::new(format!("{p}_k2"), DataType::Int64, true),
        Field::new(format!("{p}_v"), DataType::Int64, true),
    ]))
}
fn batch(schema: &SchemaRef, rows: &[SRow]) -> RecordBatch {
    let cols: Vec<ArrayRef> = vec![
        Arc::new(Int64Array::from(rows.iter().map(|r| r.id).collect::<Vec<_>>())),
        Arc::new(Int64Array::from(rows.iter().map(|r| r.k1).collect::<Vec<_>>())),
        Arc::new(Int64Array::from(rows.iter().map(|r| r.k2).collect::<Vec<_>>())),
        Arc::new(Int64Array::from(rows.iter().map(|r| r.v).collect::<Vec<_>>())),
    ];
    RecordBatch::try_new(Arc::clone(schema), cols).unwrap()
}
fn mem(schema: &SchemaRef, parts: &[Vec<Vec<SRow>>]) -> Arc<dyn ExecutionPlan> {
    let ps: Vec<Vec<RecordBatch>> =
        parts.iter().map(|p| p.iter().map(|b| batch(schema, b)).collect()).collect();
    TestMemoryExec::try_new_exec(&ps, Arc::clone(schema), None).unwrap()
}
fn col(name: &str, i: usize) -> Arc<dyn PhysicalExpr> {
    Arc::new(Column::new(name, i))
}
fn lit(i: i64) -> Arc<dyn PhysicalExpr> {
    Arc::new(Literal::new(ScalarValue::Int64(Some(i))))
}
fn bin(a: Arc<dyn PhysicalExpr>, op: Operator, b: Arc<dyn PhysicalExpr>) -> Arc<dyn PhysicalExpr> {
    Arc::new(BinaryExpr::new(a, op, b))
}
fn filt_expr(f: Filt, lv: Arc<dyn PhysicalExpr>, rv: Arc<dyn PhysicalExpr>) -> Option<Arc<dyn PhysicalExpr>> {
    match f {
        Filt::None => None,
        Filt::Lt => Some(bin(lv, Operator::Lt, rv)),
        Filt::EvenSum => Some(bin(bin(bin(lv, Operator::Plus, rv), Operator::Modulo, lit(2)), Operator::Eq, lit(0))),
        Filt::LeftGe(c) => Some(bin(lv, Operator::GtEq, lit(c))),
        Filt::RightGe(c) => Some(bin(rv, Operator::GtEq, lit(c))),
        Filt::Const(Some(true)) => Some(bin(lit(1), Operator::GtEq, lit(0))),
        Filt::Const(Some(false)) => Some(bin(lit(-1), Operator::GtEq, lit(0))),
        Filt::Const(None) => Some(bin(lit(-1), Operator::GtEq, Arc::new(Literal::new(ScalarValue::Int64(None))))),
    }
}
/// residual filter over the intermediate schema (lv, rv)
fn join_filter(f: Filt, fmin: bool) -> Option<JoinFilter> {
    let e = filt_expr(f, col("lv", 0), col("rv", 1))?;
    if let Filt::Const(_) = f {
        return Some(JoinFilter::new(e, vec![], Arc::new(Schema::empty())));
    }
    if fmin {
        if let Filt::LeftGe(_) = f {
            let e = filt_expr(f, col("lv", 0), col("lv", 0))?;
            let schema = Arc::new(Schema::new(vec![Field::new("lv", DataType::Int64, true)]));
            return Some(JoinFilter::new(e, vec![ColumnIndex { index: 3, side: JoinSide::Left }], schema));
        }
        if let Filt::RightGe(_) = f {
            let e = filt_expr(f, col("rv", 0), col("rv", 0))?;
            let schema = Arc::new(Schema::new(vec![Field::new("rv", DataType::Int64, true)]));
            return Some(JoinFilter::new(e, vec![ColumnIndex { index: 3, side: JoinSide::Right }], schema));
        }
    }
    let schema = Arc::new(Schema::new(vec![
        Field::new("lv", DataType::Int64, true),
        Field::new("rv", DataType::Int64, true),
    ]));
    let ci = vec![
        ColumnIndex { index: 3, side: JoinSide::Left },
        ColumnIndex { index: 3, side: JoinSide::Right },
    ];
    Some(JoinFilter::new(e, ci, schema))
}
/// nested loop join: the equality keys are part of the filter
fn nlj_filter(c: &Case) -> Option<JoinFilter> {
    let names = ["lk1", "lk2", "lv", "rk1", "rk2", "rv"];
    let mut e: Option<Arc<dyn PhysicalExpr>> = None;
    for k in 0..c.nk {
        let op = if c.nulleq { Operator::IsNotDistinctFrom } else { Operator::Eq };
        let t = bin(col(names[k], k), op, col(names[3 + k], 3 + k));
        e = Some(match e {
            None => t,
            Some(p) => bin(p, Operator::And, t),
        });
    }
    if let Some(t) = filt_expr(c.filt, col("lv", 2), col("rv", 5)) {
        e = Some(match e {
            None => t,
            Some(p) => bin(p, Operator::And, t),
        });
    }
    let e = e?;
    let schema = Arc::new(Schema::new(
        names.iter().map(|n| Field::new(*n, DataType::Int64, true)).collect::<Vec<_>>(),
    ));
    let mut ci = vec![];
    for i in 1..4 {
        ci.push(ColumnIndex { index: i, side: JoinSide::Left });
    }
    for i in 1..4 {
        ci.push(ColumnIndex { index: i, side: JoinSide::Right });
    }
    Some(JoinFilter::new(e, ci, schema))
}

fn build_plan(c: &Case) -> Result<Arc<dyn ExecutionPlan>, String> {
    let ls = side_schema("l");
    let rs = side_schema("r");
    let left = mem(&ls, &c.l);
    let right = mem(&rs, &c.r);
    let on: Vec<(Arc<dyn PhysicalExpr>, Arc<dyn PhysicalExpr>)> = (0..c.nk)
        .map(|k| (col(["l_k1", "l_k2"][k], 1 + k), col(["r_k1", "r_k2"][k], 1 + k)))
        .collect();
    let ne = if c.nulleq { NullEquality::NullEqualsNull } else { NullEquality::NullEqualsNothing };
    let e = |x: datafusion_common::DataFusionError| x.to_string();
    Ok(match c.op {
        Op::HjCollect => Arc::new(
            HashJoinExec::try_new(left, right, on, join_filter(c.filt, c.fmin), &c.jt, None, PartitionMode::CollectLeft, ne, c.na)
                .map_err(e)?,
        ),
        Op::HjPart => {
            let np = c.l.len().max(c.r.len()).max(1);
            let (le, re): (Vec<_>, Vec<_>) = on.iter().cloned().unzip();
            let left = Arc::new(RepartitionExec::try_new(left, Partitioning::Hash(le, np)).map_err(e)?);
            let right = Arc::new(RepartitionExec::try_new(right, Partitioning::Hash(re, np)).map_err(e)?);
            Arc::new(
                HashJoinExec::try_new(left, right, on, join_filter(c.filt, c.fmin), &c.jt, None, PartitionMode::Partitioned, ne, c.na)
                    .map_err(e)?,
            )
        }
        Op::Smj => {
            let so: Vec<SortOptions> =
                c.so.iter().map(|(d, nf)| SortOptions { descending: *d, nulls_first: *nf }).collect();
            Arc::new(SortMergeJoinExec::try_new(left, right, on, join_filter(c.filt, c.fmin), c.jt, so, ne).map_err(e)?)
        }
        Op::Nlj => Arc::new(NestedLoopJoinExec::try_new(left, right, nlj_filter(c), &c.jt, None).map_err(e)?),
        Op::Shj => Arc::new(
            SymmetricHashJoinExec::try_new(
                left,
                right,
                on,
                join_filter(c.filt, c.fmin),
                &c.jt,
                ne,
                None,
                None,
                StreamJoinPartitionMode::SinglePartition,
            )
            .map_err(e)?,
        ),
        Op::Cross => Arc::new(CrossJoinExec::new(left, right)),
    })
}

fn rows_of(batches: &[RecordBatch]) -> Result<Vec<Row>, String> {
    let mut out = vec![];
    for b in batches {
        let mut cols: Vec<Vec<V>> = vec![];
        for a in b.columns() {
            if let Some(x) = a.as_any().downcast_ref::<Int64Array>() {
                cols.push((0..x.len()).map(|i| if x.is_null(i) { V::Null } else { V::Int(x.value(i)) }).collect());
            } else if let Some(x) = a.as_any().downcast_ref::<BooleanArray>() {
                cols.push((0..x.len()).map(|i| if x.is_null(i) { V::Null } else { V::Bool(x.value(i)) }).collect());
            } else {
                return Err(format!("unexpected output column type {:?}", a.data_type()));
            }
        }
        for i in 0..b.num_rows() {
            out.push(cols.iter().map(|c| c[i].clone()).collect());
        }
    }
    Ok(out)
}

enum Obs {
    Out(Vec<Row>, String),
    Err(String),
    Panic(String),
    Timeout,
}

fn run_case(rt: &tokio::runtime::Runtime, c: &Case) -> Obs {
    let r = catch_unwind(AssertUnwindSafe(|| {
        let plan = match build_plan(c) {
            Ok(p) => p,
            Err(e) => return Obs::Err(format!("plan: {e}")),
        };
        let ctx = Arc::new(TaskContext::default().with_session_config(SessionConfig::new().with_batch_size(c.bs)));
        let schema = plan.schema();
        let res = rt.block_on(async {
            tokio::time::timeout(std::time::Duration::from_secs(30), collect(plan, ctx)).await
        });
        match res {
            Err(_) => Obs::Timeout,
            Ok(Err(e)) => Obs::Err(e.to_string()),
            Ok(Ok(bs)) => {
                // declared non-nullable output columns must not contain NULLs
                let mut note = String::new();
                for b in &bs {
                    for (i, f) in schema.fields().iter().enumerate() {
                        if !f.is_nullable() && b.column(i).null_count() > 0 && note.is_empty() {
                            note = format!("output column {} is declared non-nullable but contains NULLs", f.name());
                        }
                    }
                }
                match rows_of(&bs) {
                    Ok(r) => Obs::Out(r, note),
                    Err(e) => Obs::Err(e),
                }
            }
        }
    }));
    match r {
        Ok(o) => o,
        Err(p) => {
            let s = p
                .downcast_ref::<String>()
                .cloned()
                .or_else(|| p.downcast_ref::<&str>().map(|s| s.to_string()))
                .unwrap_or_else(|| "panic".into());
            Obs::Panic(s)
        }
    }
}

// ---------------------------------------------------------------- JSON
fn j_v(v: &V) -> String {
    match v {
        V::Null => "null".into(),
        V::Int(i) => i.to_string(),
        V::Bool(b) => b.to_string(),
    }
}
fn j_row(r: &Row) -> String {
    format!("[{}]", r.iter().map(j_v).collect::<Vec<_>>().join(","))
}
fn j_rows(rs: &[Row]) -> String {
    format!("[{}]", rs.iter().map(j_row).collect::<Vec<_>>().join(","))
}
fn j_parts(p: &[Vec<Vec<SRow>>]) -> String {
    let part = |x: &Vec<Vec<SRow>>| {
        format!(
            "[{}]",
            x.iter().map(|b| j_rows(&b.iter().map(|r| r.row()).collect::<Vec<_>>())).collect::<Vec<_>>().join(",")
        )
    };
    format!("[{}]", p.iter().map(part).collect::<Vec<_>>().join(","))
}

fn emit(rt: &tokio::runtime::Runtime, c: &Case) {
    let head = format!(
        "{{\"id\":{},\"stream\":{},\"op\":{},\"jt\":{},\"nulleq\":{},\"nk\":{},\"filt\":{},\"na\":{},\"fmin\":{},\"bs\":{},\"so\":[{}],\"l\":{},\"r\":{}",
        c.id,
        json_str(c.stream),
        json_str(c.op.name()),
        json_str(jt_name(c.jt)),
        c.nulleq,
        c.nk,
        c.filt.json(),
        c.na,
        c.fmin,
        c.bs,
        c.so.iter().map(|(d, n)| format!("[{d},{n}]")).collect::<Vec<_>>().join(","),
        j_parts(&c.l),
        j_parts(&c.r)
    );
    let mut exp = expected(c);
    exp.sort();
    match run_case(rt, c) {
        Obs::Out(mut out, note) => {
            out.sort();
            let mut why = String::new();
            if out != exp {
                let missing: Vec<&Row> = {
                    let mut o = out.clone();
                    exp.iter().filter(|x| if let Some(p) = o.iter().position(|y| &y == x) { o.remove(p); false } else { true }).collect()
                };
                let extra: Vec<&Row> = {
                    let mut o = exp.clone();
                    out.iter().filter(|x| if let Some(p) = o.iter().position(|y| &y == x) { o.remove(p); false } else { true }).collect()
                };
                why = format!(
                    "output bag differs from the nested-loop definition: {} rows observed, {} expected; missing {} extra {}",
                    out.len(),
                    exp.len(),
                    j_rows(&missing.into_iter().cloned().collect::<Vec<_>>()),
                    j_rows(&extra.into_iter().cloned().collect::<Vec<_>>())
                );
            } else if !note.is_empty() {
                why = note.clone();
            }
            println!(
                "{head},\"out\":{},\"exp\":{},\"nullability\":{},\"ok\":{},\"why\":{}}}",
                j_rows(&out),
                j_rows(&exp),
                json_str(&note),
                why.is_empty(),
                json_str(&why)
            );
        }
        Obs::Err(e) => println!(
            "{head},\"err\":{},\"exp\":{},\"ok\":false,\"why\":{}}}",
            json_str(&e),
            j_rows(&exp),
            json_str("the operator returned an error")
        ),
        Obs::Panic(e) => println!(
            "{head},\"panic\":{},\"exp\":{},\"ok\":false,\"why\":{}}}",
            json_str(&e),
            j_rows(&exp),
            json_str("the operator panicked")
        ),
        Obs::Timeout => println!(
            "{head},\"timeout\":true,\"exp\":{},\"ok\":false,\"why\":{}}}",
            j_rows(&exp),
            json_str("the operator did not finish within 30 s")
        ),
    }
}

// ---------------------------------------------------------------- generators
fn gen_side(rng: &mut Rng, base: i64, shape: u64) -> Vec<SRow> {
    let n = match rng.below(10) {
        0 => 0,
        1 => 1,
        2..=6 => rng.range(2, 6),
        7 | 8 => rng.range(5, 9),
        _ => rng.range(8, 14),
    } as usize;
    // shape: 0 uniform small domain, 1 skew (one hot key), 2 mostly distinct, 3 many NULLs
    let hot = rng.range(0, 3);
    (0..n)
        .map(|i| {
            let k1 = match shape {
                1 => if rng.chance(3, 4) { Some(hot) } else { Some(rng.range(0, 3)) },
                2 => Some(rng.range(0, 9)),
                3 => if rng.chance(1, 2) { None } else { Some(rng.range(0, 2)) },
                _ => if rng.chance(1, 6) { None } else { Some(rng.range(0, 3)) },
            };
            let k2 = if rng.chance(1, 6) { None } else { Some(rng.range(0, 1)) };
            let v = if rng.chance(1, 8) { None } else { Some(rng.range(0, 5)) };
            SRow { id: base + i as i64, k1, k2, v }
        })
        .collect()
}
fn split_batches(rng: &mut Rng, rows: Vec<SRow>) -> Vec<Vec<SRow>> {
    let mode = rng.below(5);
    let mut out = vec![];
    let mut i = 0;
    if mode == 0 {
        out.push(rows);
        return out;
    }
    while i < rows.len() {
        let k = match mode {
            1 => 1,
            2 => 2,
            _ => rng.range(1, 4) as usize,
        };
        let e = (i + k).min(rows.len());
        out.push(rows[i..e].to_vec());
        i = e;
        if rng.chance(1, 10) {
            out.push(vec![]); // an empty batch in the middle of the stream
        }
    }
    out
}
fn cmp_opt(o: (bool, bool), a: Option<i64>, b: Option<i64>) -> std::cmp::Ordering {
    use std::cmp::Ordering::*;
    match (a, b) {
        (None, None) => Equal,
        (None, Some(_)) => if o.1 { Less } else { Greater },
        (Some(_), None) => if o.1 { Greater } else { Less },
        (Some(x), Some(y)) => if o.0 { y.cmp(&x) } else { x.cmp(&y) },
    }
}
fn sort_side(rows: &mut [SRow], nk: usize, so: &[(bool, bool)]) {
    rows.sort_by(|a, b| {
        for k in 0..nk {
            let c = cmp_opt(so[k], a.key(nk)[k], b.key(nk)[k]);
            if c != std::cmp::Ordering::Equal {
                return c;
            }
        }
        std::cmp::Ordering::Equal
    });
}
/// distribute rows over np partitions by the first key (NULL -> partition 0); equal keys meet in one partition
fn part_by_key(rows: &[SRow], np: usize) -> Vec<Vec<SRow>> {
    let mut ps = vec![vec![]; np];
    for r in rows {
        let p = r.k1.map(|k| (k.rem_euclid(np as i64)) as usize).unwrap_or(0);
        ps[p].push(r.clone());
    }
    ps
}

fn gen_case(rng: &mut Rng, id: u64, op: Op, jt: JoinType) -> Case {
    let shape = rng.below(4);
    let mut l = gen_side(rng, 100, shape);
    let rshape = if rng.chance(3, 4) { shape } else { rng.below(4) };
    let mut r = gen_side(rng, 200, rshape);
    let nulleq = rng.chance(1, 3);
    let mut nk = if rng.chance(1, 4) { 2 } else { 1 };
    let mut filt = match rng.below(10) {
        0..=2 => Filt::None,
        3 | 4 => Filt::Lt,
        5 => Filt::EvenSum,
        6 => Filt::LeftGe(rng.range(1, 4)),
        7 => Filt::RightGe(rng.range(1, 4)),
        _ => Filt::Const(*rng.pick(&[None, None, Some(false), Some(true)])),
    };
    let bs = *rng.pick(&[1usize, 2, 3, 8192, 8192]);
    let so: Vec<(bool, bool)> = (0..2).map(|_| (rng.chance(1, 3), rng.chance(1, 2))).collect();
    let mut na = false;
    let mut stream = "random";
    let (lp, rp): (Vec<Vec<Vec<SRow>>>, Vec<Vec<Vec<SRow>>>);
    match op {
        Op::HjCollect => {
            // null-aware NOT IN variant: LeftAnti / RightAnti, one key, no filter
            if matches!(jt, JoinType::LeftAnti | JoinType::RightAnti) && rng.chance(1, 2) {
                na = true;
                nk = 1;
                filt = Filt::None;
                stream = "null_aware";
            }
            let np = if rng.chance(1, 2) { 1 } else { rng.range(2, 3) as usize };
            lp = vec![split_batches(rng, l)];
            // probe side: several partitions share the one build side and its visited bitmap
            let mut parts = vec![vec![]; np];
            for (i, x) in r.into_iter().enumerate() {
                parts[if np == 1 { 0 } else { (i * 7 + 3) % np }].push(x);
            }
            rp = parts.into_iter().map(|p| split_batches(rng, p)).collect();
        }
        Op::HjPart => {
            let np = rng.range(1, 3) as usize;
            let lnp = if rng.chance(1, 2) { 1 } else { np };
            // RepartitionExec hash-partitions both inputs on the join keys
            let mut lparts = vec![vec![]; lnp];
            for (i, x) in l.into_iter().enumerate() {
                lparts[i % lnp].push(x);
            }
            let mut rparts = vec![vec![]; np];
            for (i, x) in r.into_iter().enumerate() {
                rparts[i % np].push(x);
            }
            lp = lparts.into_iter().map(|p| split_batches(rng, p)).collect();
            rp = rparts.into_iter().map(|p| split_batches(rng, p)).collect();
        }
        Op::Smj => {
            sort_side(&mut l, nk, &so);
            sort_side(&mut r, nk, &so);
            let np = if rng.chance(2, 3) { 1 } else { rng.range(2, 3) as usize };
            if np == 1 {
                lp = vec![split_batches(rng, l)];
                rp = vec![split_batches(rng, r)];
            } else {
                stream = "smj_partitioned";
                lp = part_by_key(&l, np).into_iter().map(|p| split_batches(rng, p)).collect();
                rp = part_by_key(&r, np).into_iter().map(|p| split_batches(rng, p)).collect();
            }
        }
        Op::Nlj => {
            if rng.chance(1, 5) {
                nk = 0;
            }
            let np = if rng.chance(2, 3) { 1 } else { 2 };
            lp = vec![split_batches(rng, l)];
            let mut parts = vec![vec![]; np];
            for (i, x) in r.into_iter().enumerate() {
                parts[i % np].push(x);
            }
            rp = parts.into_iter().map(|p| split_batches(rng, p)).collect();
        }
        Op::Shj => {
            lp = vec![split_batches(rng, l)];
            rp = vec![split_batches(rng, r)];
        }
        Op::Cross => {
            nk = 0;
            filt = Filt::None;
            let np = if rng.chance(2, 3) { 1 } else { 2 };
            lp = vec![split_batches(rng, l)];
            let mut parts = vec![vec![]; np];
            for (i, x) in r.into_iter().enumerate() {
                parts[i % np].push(x);
            }
            rp = parts.into_iter().map(|p| split_batches(rng, p)).collect();
        }
    }
    let fmin = rng.chance(1, 2);
    Case { id, op, jt, nulleq: nulleq && !na, nk, filt, na, fmin, bs, so: so[..nk.max(1).min(2)].to_vec(), l: lp, r: rp, stream }
}

fn sr(id: i64, k1: Option<i64>, k2: Option<i64>, v: Option<i64>) -> SRow {
    SRow { id, k1, k2, v }
}

/// fixed witness inputs of the listed findings; they run first on every run
fn witnesses() -> Vec<Case> {
    vec![
        // KF-C05-1: SymmetricHashJoinExec, NullEqualsNull: the NULL-key row of the second batch of each side is
        // inserted under the stale hash left in hashes_buffer by the first batch and is never found by a NULL probe
        Case {
            id: 1_000_001,
            op: Op::Shj,
            jt: JoinType::Inner,
            nulleq: true,
            nk: 1,
            filt: Filt::None,
            na: false,
            fmin: false,
            bs: 8192,
            so: vec![(false, false)],
            l: vec![vec![vec![sr(100, Some(1), Some(0), Some(1))], vec![sr(101, None, Some(0), Some(2))]]],
            r: vec![vec![vec![sr(200, Some(1), Some(0), Some(3))], vec![sr(201, None, Some(0), Some(4))]]],
            stream: "witness:KF-C05-1",
        },
        // KF-C05-2: SortMergeJoinExec, semi/anti/mark join with a join filter that uses no column: error as soon as
        // one pair of rows has equal keys
        Case {
            id: 1_000_002,
            op: Op::Smj,
            jt: JoinType::LeftSemi,
            nulleq: false,
            nk: 1,
            filt: Filt::Const(Some(true)),
            na: false,
            fmin: false,
            bs: 8192,
            so: vec![(false, false)],
            l: vec![vec![vec![sr(100, Some(1), Some(0), Some(1))]]],
            r: vec![vec![vec![sr(200, Some(1), Some(0), Some(3))]]],
            stream: "witness:KF-C05-2",
        },
        // KF-C05-3: SortMergeJoinExec, inner/outer join: a join filter that uses no column is ignored (taken as TRUE)
        Case {
            id: 1_000_003,
            op: Op::Smj,
            jt: JoinType::Full,
            nulleq: false,
            nk: 1,
            filt: Filt::Const(None),
            na: false,
            fmin: false,
            bs: 8192,
            so: vec![(false, false)],
            l: vec![vec![vec![sr(100, Some(1), Some(0), Some(1))]]],
            r: vec![vec![vec![sr(200, Some(1), Some(0), Some(3))]]],
            stream: "witness:KF-C05-3",
        },
    ]
}

fn main() {
    let args: Vec<String> = std::env::args().collect();
    let seed: u64 = arg(&args, "--seed", "1").parse().unwrap();
    let n: usize = arg(&args, "--n", "400").parse().unwrap();
    let only = arg(&args, "--op", "");
    std::panic::set_hook(Box::new(|_| {}));
    let rt = tokio::runtime::Builder::new_multi_thread().worker_threads(3).enable_all().build().unwrap();
    for w in witnesses() {
        emit(&rt, &w);
    }
    let mut rng = Rng::new(seed);
    let ops = [Op::HjCollect, Op::HjPart, Op::Smj, Op::Nlj, Op::Shj, Op::Cross];
    let mut id = 0u64;
    // every operator x every join type it supports, n/60 rounds
    let rounds = (n / 50).max(1);
    for _ in 0..rounds {
        for op in ops {
            for jt in JTS {
                if op == Op::Cross && jt != JoinType::Inner {
                    continue;
                }
                id += 1;
                let c = gen_case(&mut rng, id, op, jt);
                if !only.is_empty() && only != op.name() {
                    continue;
                }
                emit(&rt, &c);
            }
        }
    }
}
