//! C11: hash partition index = hash mod partition count.
use std::sync::Arc;

use arrow::array::{Array, ArrayRef, Int64Array, StringArray, UInt64Array};
use arrow::datatypes::{DataType, Field, Schema};
use arrow::record_batch::RecordBatch;
use datafusion_common::hash_utils::create_hashes;
use datafusion_physical_expr::expressions::col;
use datafusion_physical_plan::metrics::{ExecutionPlanMetricsSet, MetricBuilder};
use datafusion_physical_plan::repartition::verif_hooks as hk;
use datafusion_physical_plan::repartition::{BatchPartitioner, REPARTITION_RANDOM_STATE};
use h_util::{arg, json_list, Rng};

fn edge_values() -> Vec<u64> {
    let mut v: Vec<u64> = vec![0, 1, 2, 3, 4, 5, 6, 7, 9, 10, 11, 12, 13, 15, 17, 31, 33, 63, 65, 100, 127, 255, 257, 1000, 65535, 65537];
    for k in 1..64u32 {
        let p = 1u64 << k;
        v.push(p);
        v.push(p - 1);
        v.push(p + 1);
    }
    for k in 0..8u64 {
        v.push(u64::MAX - k);
    }
    for p in [4294967291u64, 4294967311, 18446744073709551557, 9223372036854775783, 6700417, 2147483647, 0xFFFF_FFFF_0000_0001, 0xAAAA_AAAA_AAAA_AAAB, 0x5555_5555_5555_5555] {
        v.push(p);
    }
    v.sort();
    v.dedup();
    v
}

fn main() {
    std::panic::set_hook(Box::new(|_| {})); // panics are caught per case and reported as data
    let args: Vec<String> = std::env::args().collect();
    let args = &args[1..];
    let seed: u64 = arg(args, "--seed", "1").parse().unwrap();
    let n: usize = arg(args, "--n", "2000").parse().unwrap();
    let mut rng = Rng::new(seed);
    let edges = edge_values();

    // --- (1) new(d) and quotient(v, reciprocal) on edge grid + random
    let mut ds: Vec<u64> = edges.iter().copied().filter(|d| *d > 0).collect();
    for _ in 0..n / 10 {
        let bits = rng.below(64) as u32 + 1;
        let d = rng.next() >> (64 - bits);
        if d > 0 {
            ds.push(d);
        }
    }
    for d in &ds {
        let (p2, a, r) = hk::strength_reduced_new(*d);
        println!("{{\"k\":\"new\",\"d\":{d},\"pow2\":{p2},\"a\":{a},\"r\":\"{r}\"}}");
        if !p2 {
            // quotient on a few values, including adversarial ones near multiples of d
            let mut vs: Vec<u64> = vec![0, 1, *d - 1, *d, d.wrapping_add(1), u64::MAX, u64::MAX - 1, u64::MAX / *d * *d, (u64::MAX / *d * *d).wrapping_sub(1)];
            for _ in 0..6 {
                vs.push(*rng.pick(&edges));
                vs.push(rng.next());
                let m = rng.next() % (u64::MAX / *d).max(1);
                vs.push(m.wrapping_mul(*d));
                vs.push(m.wrapping_mul(*d).wrapping_sub(1));
            }
            for v in vs {
                let q = hk::strength_reduced_quotient(v, r);
                let rem_ok = q == v / *d;
                println!("{{\"k\":\"quot\",\"d\":{d},\"v\":{v},\"r\":\"{r}\",\"q\":{q},\"ok\":{rem_ok}}}");
            }
        }
    }

    // --- (2) the real partition_indices loop on small divisors with chosen hashes
    let mut small: Vec<u64> = (1..=70).collect();
    small.extend([96, 100, 127, 128, 129, 255, 256, 257, 1000, 1023, 1024, 1025, 4095, 4096, 4097, 65535, 65536, 65537]);
    let small: Vec<(u64, u64)> = small.iter().flat_map(|d| (0..4u64).map(move |v| (*d, v))).collect();
    for (d, variant) in small {
        // hash lists: the value in FIRST position and runs of equal adjacent hashes matter for any
        // per-batch state the loop may keep (caches, previous-row shortcuts)
        let mut hs: Vec<u64> = Vec::new();
        match variant {
            0 => hs.push(u64::MAX),
            1 => hs.push(0),
            2 => hs.push(*rng.pick(&edges)),
            _ => {}
        }
        for _ in 0..14 {
            let h = match rng.below(3) { 0 => *rng.pick(&edges), 1 => rng.next(), _ => (rng.next() % (u64::MAX / d)).wrapping_mul(d) };
            for _ in 0..1 + rng.below(3) { hs.push(h); }
            if rng.chance(1, 4) { hs.push(u64::MAX); hs.push(u64::MAX); }
        }
        hs.extend([0, 1, d - 1, d, d + 1, u64::MAX, u64::MAX / d * d, (u64::MAX / d * d).wrapping_sub(1)]);
        let r = std::panic::catch_unwind(|| hk::strength_reduced_partition_indices(d, &hs));
        match r {
            Ok(idx) => {
                let mut part = vec![-1i64; hs.len()];
                let mut dup = false;
                let mut ordered = true;
                for (p, rows) in idx.iter().enumerate() {
                    let mut last = -1i64;
                    for i in rows {
                        if part[*i as usize] != -1 { dup = true; }
                        part[*i as usize] = p as i64;
                        if (*i as i64) <= last { ordered = false; }
                        last = *i as i64;
                    }
                }
                let ok = !dup && ordered && part.iter().zip(hs.iter()).all(|(p, h)| *p == (*h % d) as i64);
                println!("{{\"k\":\"pidx\",\"d\":{d},\"hashes\":{},\"parts\":{},\"ok\":{ok}}}", json_list(&hs), json_list(&part));
            }
            Err(_) => {
                println!("{{\"k\":\"pidx\",\"d\":{d},\"hashes\":{},\"parts\":[],\"panic\":true,\"ok\":false}}", json_list(&hs));
            }
        }
    }

    // --- (3) public path: BatchPartitioner::new_hash_partitioner(..).partition_iter
    let schema = Arc::new(Schema::new(vec![
        Field::new("k", DataType::Int64, true),
        Field::new("s", DataType::Utf8, true),
        Field::new("id", DataType::UInt64, false),
    ]));
    let mut counts: Vec<usize> = (1..=67).collect();
    counts.extend([255, 256, 257, 1000]);
    for np in counts {
        let rows = 1 + rng.below(200) as usize;
        let ks: Vec<Option<i64>> = (0..rows).map(|_| if rng.chance(1, 10) { None } else { Some(rng.range(-50, 50)) }).collect();
        let ss: Vec<Option<String>> = (0..rows).map(|_| if rng.chance(1, 10) { None } else { Some(format!("s{}", rng.below(30))) }).collect();
        let ids: Vec<u64> = (0..rows as u64).collect();
        let batch = RecordBatch::try_new(
            schema.clone(),
            vec![
                Arc::new(Int64Array::from(ks.clone())) as ArrayRef,
                Arc::new(StringArray::from(ss.clone())) as ArrayRef,
                Arc::new(UInt64Array::from(ids)) as ArrayRef,
            ],
        )
        .unwrap();
        let two = rng.chance(1, 2);
        let mut exprs = vec![col("k", &schema).unwrap()];
        if two {
            exprs.push(col("s", &schema).unwrap());
        }
        let metrics = ExecutionPlanMetricsSet::new();
        let timer = MetricBuilder::new(&metrics).subset_time("t", 0);
        let mut p = BatchPartitioner::new_hash_partitioner(exprs, np, timer).unwrap();
        let mut seen = vec![0u32; rows];
        let mut ok = true;
        let mut bad: Vec<String> = vec![];
        let outs = std::panic::catch_unwind(std::panic::AssertUnwindSafe(|| {
            p.partition_iter(batch).unwrap().map(|r| r.unwrap()).collect::<Vec<(usize, RecordBatch)>>()
        }));
        let outs = match outs {
            Ok(o) => o,
            Err(_) => {
                println!("{{\"k\":\"public\",\"np\":{np},\"rows\":{rows},\"two_cols\":{two},\"ok\":false,\"bad\":[\"panic in partition_iter; keys={:?}\"]}}", ks);
                continue;
            }
        };
        for (part, b) in outs {
            let mut arrays = vec![b.column(0).clone()];
            if two {
                arrays.push(b.column(1).clone());
            }
            let mut hashes = vec![0u64; b.num_rows()];
            create_hashes(&arrays, REPARTITION_RANDOM_STATE.random_state(), &mut hashes).unwrap();
            let idc = b.column(2).as_any().downcast_ref::<UInt64Array>().unwrap();
            let mut last: i64 = -1;
            for i in 0..b.num_rows() {
                let id = idc.value(i) as usize;
                seen[id] += 1;
                if (id as i64) <= last { ok = false; bad.push(format!("order id={id}")); }
                last = id as i64;
                if (hashes[i] % np as u64) as usize != part {
                    ok = false;
                    bad.push(format!("row id={id} hash={} np={np} got partition {part}", hashes[i]));
                }
                // value carried intact
                let kc = b.column(0).as_any().downcast_ref::<Int64Array>().unwrap();
                let kv = if kc.is_null(i) { None } else { Some(kc.value(i)) };
                if kv != ks[id] { ok = false; bad.push(format!("row id={id} key changed")); }
            }
        }
        if seen.iter().any(|c| *c != 1) {
            ok = false;
            bad.push("row lost or duplicated".to_string());
        }
        println!("{{\"k\":\"public\",\"np\":{np},\"rows\":{rows},\"two_cols\":{two},\"ok\":{ok},\"bad\":{:?}}}", bad);
    }
}
