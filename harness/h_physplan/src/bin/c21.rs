//! C21: spill files round-trip; disk usage accounting exact (with injected write failures).
//! Part A ("acct"): random create/write/release/set-limit histories on the real DiskManager,
//!   write failures injected from outside with RLIMIT_FSIZE (SIGXFSZ ignored).
//! Part B ("rt"): batches spilled through SpillManager are read back identical, usage returns to 0.
use std::io::Write;
use std::panic::{catch_unwind, AssertUnwindSafe};
use std::sync::Arc;

use arrow::array::*;
use arrow::compute::concat_batches;
use arrow::datatypes::*;
use arrow::record_batch::RecordBatch;
use datafusion_common::config::SpillCompression;
use datafusion_execution::disk_manager::{DiskManager, DiskManagerBuilder};
use datafusion_execution::runtime_env::RuntimeEnvBuilder;
use datafusion_execution::spill_file::{SpillFile, SpillWriter};
use datafusion_physical_plan::metrics::{ExecutionPlanMetricsSet, SpillMetrics};
use datafusion_physical_plan::SpillManager;
use futures::StreamExt;
use h_util::{arg, Rng};

fn set_fsize_limit(bytes: Option<u64>) {
    unsafe {
        let mut rl = libc::rlimit { rlim_cur: 0, rlim_max: 0 };
        libc::getrlimit(libc::RLIMIT_FSIZE, &mut rl);
        rl.rlim_cur = match bytes { Some(b) => b as libc::rlim_t, None => rl.rlim_max };
        libc::setrlimit(libc::RLIMIT_FSIZE, &rl);
    }
}

struct LiveFile {
    file: Arc<dyn SpillFile>,
    writer: Box<dyn SpillWriter>,
}

fn acct_history(rng: &mut Rng, h: usize) {
    let lim: u64 = *rng.pick(&[0u64, 1000, 3000, 5000, 10000, 1 << 40]);
    let dm = Arc::new(DiskManager::builder().with_max_temp_directory_size(lim).build().unwrap());
    let mut files: Vec<Option<LiveFile>> = vec![];
    let mut ops: Vec<String> = vec![];
    let mut outs: Vec<String> = vec![];
    let mut ok = true;
    let mut why = String::new();
    let mut cur_limit = lim;
    let nops = 3 + rng.below(14) as usize;
    let live_sum = |files: &Vec<Option<LiveFile>>| -> u64 { files.iter().flatten().map(|f| f.file.size().unwrap_or(0)).sum() };
    for step in 0..nops {
        let r = rng.below(100);
        let live: Vec<usize> = files.iter().enumerate().filter(|(_, f)| f.is_some()).map(|(i, _)| i).collect();
        if r < 20 || live.is_empty() && r < 80 {
            match dm.create_tmp_file("c21").and_then(|f| f.open_writer().map(|w| (f, w))) {
                Ok((file, writer)) => {
                    files.push(Some(LiveFile { file, writer }));
                    ops.push("{\"op\":\"create\"}".into());
                    outs.push(format!("{{\"created\":{},\"used\":{}}}", files.len() - 1, dm.used_disk_space()));
                }
                Err(e) => { ok = false; why = format!("create failed: {e}"); break; }
            }
        } else if r < 70 && !live.is_empty() {
            let f = *rng.pick(&live);
            let len = *rng.pick(&[0u64, 1, 7, 100, 999, 1000, 1001, 2500, 4096, 6000]);
            let fail = rng.chance(1, 4) && len > 0;
            let lf = files[f].as_mut().unwrap();
            let phys = lf.file.path().and_then(|p| std::fs::metadata(p).ok()).map(|m| m.len()).unwrap_or(0);
            let buf = vec![0xA5u8; len as usize];
            if fail {
                // the next write may extend the file by fewer than `len` bytes -> write_all fails
                set_fsize_limit(Some(phys + rng.below(len)));
            }
            let res = lf.writer.write(&buf);
            let _ = lf.writer.flush();
            if fail { set_fsize_limit(None); }
            let used = dm.used_disk_space();
            let fsize = lf.file.size().unwrap_or(0);
            // would the limit check have rejected it? (then the I/O was never attempted)
            let code = match &res {
                Ok(n) => { if *n as u64 != len { ok = false; why = format!("short write {n} of {len}"); } 0 }
                Err(e) => if e.to_string().contains("exceeded the allowable limit") { 1 } else { 2 },
            };
            // io_ok as the model's input: the I/O outcome, meaningful only when the limit admitted the write
            let io_ok = code != 2;
            ops.push(format!("{{\"op\":\"write\",\"f\":{f},\"len\":{len},\"io_ok\":{io_ok},\"inject\":{fail}}}"));
            outs.push(format!("{{\"res\":{code},\"used\":{used},\"fsize\":{fsize}}}"));
            if code == 0 && len > 0 && used > cur_limit { ok = false; why = format!("write admitted beyond the limit: used {used} > limit {cur_limit}"); }
            if ok && fail && code == 0 { ok = false; why = format!("a write of {len} bytes that could not be completed (file size limit) was reported as Ok; used_disk_space {used}, file accounted {fsize}"); }
        } else if r < 88 && !live.is_empty() {
            let f = *rng.pick(&live);
            let lf = files[f].take().unwrap();
            drop(lf.writer);
            drop(lf.file);
            ops.push(format!("{{\"op\":\"release\",\"f\":{f}}}"));
            outs.push(format!("{{\"released\":true,\"used\":{}}}", dm.used_disk_space()));
        } else {
            let n = *rng.pick(&[0u64, 500, 2000, 4000, 8000, 20000]);
            if dm.set_max_temp_directory_size(n).is_err() { ok = false; why = "set limit failed".into(); break; }
            cur_limit = n;
            ops.push(format!("{{\"op\":\"limit\",\"n\":{n}}}"));
            outs.push(format!("{{\"limit\":true,\"used\":{}}}", dm.used_disk_space()));
        }
        // oracle: reported usage == bytes charged to live spill files, after every operation
        let used = dm.used_disk_space();
        let sum = live_sum(&files);
        if ok && used != sum { ok = false; why = format!("after op {step}: used_disk_space {used} != sum of live file sizes {sum}"); }
        if !ok { break; }
    }
    if ok {
        // release everything: usage must return to zero
        for f in 0..files.len() {
            if let Some(lf) = files[f].take() {
                drop(lf.writer);
                drop(lf.file);
                ops.push(format!("{{\"op\":\"release\",\"f\":{f}}}"));
                outs.push(format!("{{\"released\":true,\"used\":{}}}", dm.used_disk_space()));
            }
        }
        if dm.used_disk_space() != 0 { ok = false; why = format!("all files released but used_disk_space = {}", dm.used_disk_space()); }
    }
    println!("{{\"k\":\"acct\",\"h\":{h},\"lim\":{lim},\"ops\":[{}],\"outs\":[{}],\"ok\":{ok},\"why\":{}}}", ops.join(","), outs.join(","), h_util::json_str(&why));
}

fn make_array(rng: &mut Rng, dt: &DataType, rows: usize) -> ArrayRef {
    let nullat = |rng: &mut Rng| rng.chance(1, 6);
    match dt {
        DataType::Int32 => Arc::new((0..rows).map(|_| if nullat(rng) { None } else { Some(rng.range(-1000, 1000) as i32) }).collect::<Int32Array>()),
        DataType::Float64 => Arc::new((0..rows).map(|_| if nullat(rng) { None } else { Some(rng.range(-1000, 1000) as f64 * 0.25) }).collect::<Float64Array>()),
        DataType::Boolean => Arc::new((0..rows).map(|_| if nullat(rng) { None } else { Some(rng.chance(1, 2)) }).collect::<BooleanArray>()),
        DataType::Utf8 => Arc::new((0..rows).map(|_| if nullat(rng) { None } else { Some(format!("s{}", rng.below(50))) }).collect::<StringArray>()),
        DataType::Utf8View => Arc::new((0..rows).map(|_| if nullat(rng) { None } else if rng.chance(1, 3) { Some(format!("v{}", rng.below(9))) } else { Some(format!("a-long-string-view-value-that-is-out-of-line-{}", rng.below(100000))) }).collect::<StringViewArray>()),
        DataType::BinaryView => Arc::new((0..rows).map(|_| if nullat(rng) { None } else { Some(vec![rng.below(256) as u8; rng.below(40) as usize]) }).collect::<BinaryViewArray>()),
        DataType::Dictionary(_, _) => {
            let s: ArrayRef = Arc::new((0..rows).map(|_| if nullat(rng) { None } else { Some(format!("d{}", rng.below(4))) }).collect::<StringArray>());
            arrow::compute::cast(&s, dt).unwrap()
        }
        DataType::List(f) => {
            // lengths first, then one child array of the total length
            let lens: Vec<Option<usize>> = (0..rows).map(|_| if nullat(rng) { None } else { Some(rng.below(4) as usize) }).collect();
            let total: usize = lens.iter().map(|l| l.unwrap_or(0)).sum();
            let child = make_array(rng, f.data_type(), total);
            let mut offsets = vec![0i32];
            for l in &lens { offsets.push(offsets.last().unwrap() + l.unwrap_or(0) as i32); }
            let nulls: Vec<bool> = lens.iter().map(|l| l.is_some()).collect();
            Arc::new(ListArray::new(f.clone(), arrow::buffer::OffsetBuffer::new(offsets.into()), child, Some(arrow::buffer::NullBuffer::from(nulls))))
        }
        DataType::Struct(fields) => {
            let children: Vec<ArrayRef> = fields.iter().map(|f| make_array(rng, f.data_type(), rows)).collect();
            let nulls: Vec<bool> = (0..rows).map(|_| !nullat(rng)).collect();
            Arc::new(StructArray::new(fields.clone(), children, Some(arrow::buffer::NullBuffer::from(nulls))))
        }
        other => panic!("unsupported {other}"),
    }
}

fn make_batch(rng: &mut Rng, schema: &SchemaRef, rows: usize) -> RecordBatch {
    let cols: Vec<ArrayRef> = schema.fields().iter().map(|f| make_array(rng, f.data_type(), rows)).collect();
    RecordBatch::try_new_with_options(schema.clone(), cols, &RecordBatchOptions::new().with_row_count(Some(rows))).unwrap()
}

fn rt_case(rng: &mut Rng, h: usize, rt: &tokio::runtime::Runtime) {
    let dict = DataType::Dictionary(Box::new(DataType::Int32), Box::new(DataType::Utf8));
    let list = DataType::List(Arc::new(Field::new("item", DataType::Int32, true)));
    let st = DataType::Struct(Fields::from(vec![Field::new("a", DataType::Int32, true), Field::new("b", DataType::Utf8, true)]));
    // nested types with view children: their buffers are compacted (gc) before spilling
    let stv = DataType::Struct(Fields::from(vec![Field::new("a", DataType::Int32, true), Field::new("v", DataType::Utf8View, true)]));
    let lsv = DataType::List(Arc::new(Field::new("item", DataType::Utf8View, true)));
    let stl = DataType::Struct(Fields::from(vec![Field::new("l", lsv.clone(), true), Field::new("b", DataType::BinaryView, true)]));
    let pool = [DataType::Int32, DataType::Float64, DataType::Boolean, DataType::Utf8, DataType::Utf8View, DataType::BinaryView, dict, list, st, stv, lsv, stl];
    let ncols = 1 + rng.below(4) as usize;
    let schema: SchemaRef = Arc::new(Schema::new((0..ncols).map(|i| Field::new(format!("c{i}"), rng.pick(&pool).clone(), true)).collect::<Vec<_>>()));
    let comp = *rng.pick(&[SpillCompression::Uncompressed, SpillCompression::Lz4Frame, SpillCompression::Zstd]);
    let limit: u64 = *rng.pick(&[200u64, 2000, 1 << 40, 1 << 40, 1 << 40]);
    let env = RuntimeEnvBuilder::new()
        .with_disk_manager_builder(DiskManagerBuilder::default().with_max_temp_directory_size(limit))
        .build_arc().unwrap();
    let metrics = ExecutionPlanMetricsSet::new();
    let sm = SpillManager::new(env.clone(), SpillMetrics::new(&metrics, 0), schema.clone())
        .with_compression_type(comp)
        .with_batch_read_buffer_capacity(1 + rng.below(3) as usize);
    let nb = rng.below(5) as usize;
    let mut batches: Vec<RecordBatch> = vec![];
    for _ in 0..nb {
        // 700 rows of out-of-line views exceed the 10 KB threshold above which view buffers are compacted
        let rows = *rng.pick(&[0usize, 1, 2, 5, 17, 64, 700, 700]);
        let b = make_batch(rng, &schema, rows);
        // sliced batches, mostly at a non-zero offset
        let b = if rows > 2 && rng.chance(2, 3) { let off = rng.below(rows as u64 / 2 + 1) as usize + rng.below(2) as usize; let off = off.min(rows - 1); b.slice(off, rows - off - rng.below(2) as usize) } else { b };
        batches.push(b);
    }
    let desc = format!("schema={:?} comp={:?} limit={limit} batches={:?}", schema.fields().iter().map(|f| f.data_type().to_string()).collect::<Vec<_>>(), comp, batches.iter().map(|b| b.num_rows()).collect::<Vec<_>>());
    let dm = env.disk_manager.clone();
    let res = catch_unwind(AssertUnwindSafe(|| -> Result<String, String> {
        match sm.spill_record_batch_and_finish(&batches, "c21") {
            Ok(None) => {
                if !batches.is_empty() { return Err("no spill file although batches were written".into()); }
                Ok("none".into())
            }
            Ok(Some(file)) => {
                let used = dm.used_disk_space();
                let fsz = file.size().unwrap_or(0);
                if used != fsz { return Err(format!("used {used} != file size {fsz}")); }
                if used > limit { return Err(format!("used {used} beyond limit {limit}")); }
                let phys = file.path().and_then(|p| std::fs::metadata(p).ok()).map(|m| m.len()).unwrap_or(0);
                if phys != fsz { return Err(format!("accounted size {fsz} != bytes on disk {phys}")); }
                let got: Vec<RecordBatch> = rt.block_on(async {
                    let mut s = sm.read_spill_as_stream(file.clone(), None).map_err(|e| e.to_string())?;
                    let mut v = vec![];
                    while let Some(b) = s.next().await { v.push(b.map_err(|e| e.to_string())?); }
                    Ok::<_, String>(v)
                })?;
                if got.len() != batches.len() { return Err(format!("wrote {} batches, read {}", batches.len(), got.len())); }
                for (i, (a, b)) in batches.iter().zip(got.iter()).enumerate() {
                    if a.num_rows() != b.num_rows() { return Err(format!("batch {i}: rows {} != {}", a.num_rows(), b.num_rows())); }
                    if b.schema() != schema { return Err(format!("batch {i}: schema changed")); }
                    for c in 0..a.num_columns() {
                        // logical equality of the columns (representation such as view buffers may differ)
                        if a.column(c).to_data().data_type() != b.column(c).to_data().data_type() || a.column(c).as_ref() != b.column(c).as_ref() {
                            return Err(format!("batch {i} column {c} differs after round trip"));
                        }
                    }
                }
                let _ = concat_batches(&schema, &got);
                drop(got);
                drop(file);
                Ok("roundtrip".into())
            }
            Err(e) => {
                let m = e.to_string();
                if m.contains("exceeded the allowable limit") { Ok("limit".into()) } else { Err(format!("spill error: {m}")) }
            }
        }
    }));
    let (ok, outcome, why) = match res {
        Ok(Ok(o)) => {
            let used = dm.used_disk_space();
            if used != 0 { (false, o, format!("everything dropped but used_disk_space = {used}")) } else { (true, o, String::new()) }
        }
        Ok(Err(w)) => (false, "fail".to_string(), w),
        Err(_) => (false, "panic".to_string(), "panic".to_string()),
    };
    println!("{{\"k\":\"rt\",\"h\":{h},\"desc\":{},\"outcome\":\"{outcome}\",\"ok\":{ok},\"why\":{}}}", h_util::json_str(&desc), h_util::json_str(&why));
}

fn main() {
    std::panic::set_hook(Box::new(|_| {}));
    unsafe { libc::signal(libc::SIGXFSZ, libc::SIG_IGN); }
    let args: Vec<String> = std::env::args().collect();
    let seed: u64 = arg(&args, "--seed", "1").parse().unwrap();
    let n: usize = arg(&args, "--n", "500").parse().unwrap();
    let mut rng = Rng::new(seed);
    for h in 0..n {
        acct_history(&mut rng, h);
    }
    let rt = tokio::runtime::Builder::new_multi_thread().worker_threads(2).enable_all().build().unwrap();
    for h in 0..n / 2 {
        rt_case(&mut rng, h, &rt);
    }
}
