use datafusion_functions_aggregate::count::count_udaf;
fn main() { let _ = count_udaf(); }
