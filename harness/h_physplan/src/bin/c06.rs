//! C06: grouped aggregation is exact under every aggregation strategy.
//! Three streams, one JSON object per line:
//!  * "ord":    operation histories on the REAL `GroupOrderingPartial` / `GroupOrderingFull` (new_groups, emit_to,
//!              remove_groups, input_done, reset, oom_emit_to); the state after every operation is read from the
//!              struct's Debug output; panics are data.  Most histories follow the protocol of the ordered aggregate
//!              table over an input that is sorted on the ordering columns (then "ok" = no emitted group receives a
//!              later row, input_done makes everything emittable, no panic), some are adversarial.
//!  * "agg":    the REAL `AggregateExec` in every mode (Single, Partial->Final, Partial->Repartition->FinalPartitioned,
//!              SinglePartitioned, Partial->SortPreservingMerge->Final) x declared input ordering x batch sizes x
//!              memory budgets (spill / early emission under pressure) x skip-partial thresholds x key types x
//!              GROUPING SETS; "ok" = every run's output bag equals the definition computed here.
//!  * "stream": single-stage aggregation over a declared-sorted input without memory limit: the exact sequence of
//!              output batches (early emission), for the state-machine tie.
use std::cmp::Ordering;
use std::collections::BTreeMap;
use std::panic::{catch_unwind, AssertUnwindSafe};
use std::sync::Arc;

use arrow::array::{Array, ArrayRef, Float64Array, Int64Array, RecordBatch, StringArray};
use arrow::compute::SortOptions;
use arrow::datatypes::{DataType, Field, Schema, SchemaRef};
use datafusion_common::ScalarValue;
use datafusion_execution::config::SessionConfig;
use datafusion_execution::memory_pool::FairSpillPool;
use datafusion_execution::runtime_env::RuntimeEnvBuilder;
use datafusion_execution::TaskContext;
use datafusion_expr::EmitTo;
use datafusion_functions_aggregate::average::avg_udaf;
use datafusion_functions_aggregate::count::count_udaf;
use datafusion_functions_aggregate::min_max::{max_udaf, min_udaf};
use datafusion_functions_aggregate::sum::sum_udaf;
use datafusion_physical_expr::aggregate::{AggregateExprBuilder, AggregateFunctionExpr};
use datafusion_physical_expr::expressions::{cast, col, lit, Column};
use datafusion_physical_expr::{LexOrdering, PhysicalExpr, PhysicalSortExpr};
use datafusion_physical_plan::aggregates::order::{GroupOrdering, GroupOrderingFull, GroupOrderingPartial};
use datafusion_physical_plan::aggregates::{AggregateExec, AggregateMode, PhysicalGroupBy};
use datafusion_physical_plan::coalesce_partitions::CoalescePartitionsExec;
use datafusion_physical_plan::repartition::RepartitionExec;
use datafusion_physical_plan::sorts::sort_preserving_merge::SortPreservingMergeExec;
use datafusion_physical_plan::test::TestMemoryExec;
use datafusion_physical_plan::{collect, ExecutionPlan, InputOrderMode, Partitioning};
use h_util::{arg, json_str, Rng};

// ------------------------------------------------------------------ values
#[derive(Clone, Debug, PartialEq, Eq, PartialOrd, Ord, Hash)]
enum V {
    Null,
    I(i64),
    S(String),
}
fn vj(v: &V) -> String {
    match v {
        V::Null => "null".into(),
        V::I(i) => i.to_string(),
        V::S(s) => json_str(s),
    }
}
fn rowj(r: &[V]) -> String {
    format!("[{}]", r.iter().map(vj).collect::<Vec<_>>().join(","))
}
fn rowsj(rs: &[Vec<V>]) -> String {
    format!("[{}]", rs.iter().map(|r| rowj(r)).collect::<Vec<_>>().join(","))
}
fn panic_msg(e: Box<dyn std::any::Any + Send>) -> String {
    if let Some(s) = e.downcast_ref::<String>() {
        s.clone()
    } else if let Some(s) = e.downcast_ref::<&str>() {
        s.to_string()
    } else {
        "panic".into()
    }
}
fn int_col(vs: &[V]) -> ArrayRef {
    Arc::new(vs.iter().map(|v| if let V::I(i) = v { Some(*i) } else { None }).collect::<Int64Array>())
}
fn str_col(vs: &[V]) -> ArrayRef {
    Arc::new(vs.iter().map(|v| if let V::S(s) = v { Some(s.clone()) } else { None }).collect::<StringArray>())
}

// ================================================================== stream "ord"
#[derive(Clone, Debug)]
enum Op {
    New(Vec<Vec<V>>, Vec<usize>, usize),
    Emit,
    Remove(usize),
    Done,
    Reset,
    Oom(usize),
}
fn opj(o: &Op) -> String {
    match o {
        Op::New(k, g, t) => format!(
            "{{\"op\":\"new\",\"keys\":{},\"gidx\":[{}],\"total\":{}}}",
            rowsj(k),
            g.iter().map(|x| x.to_string()).collect::<Vec<_>>().join(","),
            t
        ),
        Op::Emit => "{\"op\":\"emit\"}".into(),
        Op::Remove(n) => format!("{{\"op\":\"remove\",\"n\":{}}}", n),
        Op::Done => "{\"op\":\"done\"}".into(),
        Op::Reset => "{\"op\":\"reset\"}".into(),
        Op::Oom(n) => format!("{{\"op\":\"oom\",\"n\":{}}}", n),
    }
}
/// (tag, current_sort, current, sort_key) from the Debug output
fn parse_state(dbg: &str) -> (i64, i64, i64, Vec<V>) {
    let num_after = |pat: &str| -> i64 {
        match dbg.find(pat) {
            Some(i) => {
                let t: String = dbg[i + pat.len()..].chars().take_while(|c| c.is_ascii_digit()).collect();
                t.parse().unwrap_or(-7)
            }
            None => -1,
        }
    };
    if dbg.contains("state: Start") {
        (0, -1, -1, vec![])
    } else if dbg.contains("state: Complete") {
        (2, -1, -1, vec![])
    } else if dbg.contains("state: Taken") {
        (3, -1, -1, vec![])
    } else if dbg.contains("InProgress") {
        let cs = num_after("current_sort: ");
        let cur = if dbg.contains(", current: ") { num_after(", current: ") } else { num_after("{ current: ") };
        let mut sk = vec![];
        if let Some(i) = dbg.find("sort_key: [") {
            let rest = &dbg[i + "sort_key: [".len()..];
            let end = rest.find(']').unwrap_or(0);
            for item in rest[..end].split(", ") {
                let item = item.trim();
                if item.is_empty() {
                    continue;
                }
                if let Some(x) = item.strip_prefix("Int64(") {
                    let x = x.trim_end_matches(')');
                    if x == "NULL" {
                        sk.push(V::Null)
                    } else {
                        sk.push(x.parse::<i64>().map(V::I).unwrap_or(V::S(item.to_string())))
                    }
                } else {
                    sk.push(V::S(item.to_string()))
                }
            }
        }
        (1, cs, cur, sk)
    } else {
        (9, -1, -1, vec![])
    }
}
fn emit_code(e: Option<EmitTo>) -> i64 {
    match e {
        None => -1,
        Some(EmitTo::All) => -2,
        Some(EmitTo::First(n)) => n as i64,
    }
}

fn ord_case(rng: &mut Rng, id: u64) {
    let full = rng.chance(1, 3);
    let ncols = if full { rng.range(1, 2) as usize } else { rng.range(1, 3) as usize };
    // ordering columns: non-empty list of distinct columns (any permutation)
    let mut idx: Vec<usize> = vec![];
    if !full {
        let mut cols: Vec<usize> = (0..ncols).collect();
        let n = rng.range(1, ncols as i64) as usize;
        for _ in 0..n {
            let j = rng.below(cols.len() as u64) as usize;
            idx.push(cols.remove(j));
        }
    }
    let adversarial = rng.chance(1, 5);
    let sorted = !adversarial || rng.chance(1, 2);
    // a key sequence whose ordering columns are clustered: a list of runs of the sort key
    let nruns = rng.range(1, 6) as usize;
    let mut rows: Vec<Vec<V>> = vec![];
    let mut used_sk: Vec<Vec<V>> = vec![];
    for _ in 0..nruns {
        // a fresh sort-key value
        let mut skv: Vec<V>;
        let mut tries = 0;
        loop {
            skv = (0..if full { ncols } else { idx.len() })
                .map(|_| if rng.chance(1, 6) { V::Null } else { V::I(rng.range(0, 4)) })
                .collect();
            tries += 1;
            if !used_sk.contains(&skv) || tries > 20 {
                break;
            }
        }
        if used_sk.contains(&skv) && sorted {
            continue;
        }
        used_sk.push(skv.clone());
        let len = rng.range(1, 5) as usize;
        for _ in 0..len {
            let mut k: Vec<V> = (0..ncols).map(|_| if rng.chance(1, 6) { V::Null } else { V::I(rng.range(0, 3)) }).collect();
            if full {
                k = skv.clone();
            } else {
                for (j, &i) in idx.iter().enumerate() {
                    k[i] = skv[j].clone();
                }
            }
            rows.push(k);
        }
    }
    if !sorted {
        // disturb the order
        for _ in 0..rng.range(1, 3) {
            if rows.len() >= 2 {
                let a = rng.below(rows.len() as u64) as usize;
                let b = rng.below(rows.len() as u64) as usize;
                rows.swap(a, b);
            }
        }
    }
    // the ordered table's protocol
    let mut ops: Vec<Op> = vec![];
    let mut table: Vec<Vec<V>> = vec![]; // group keys, first-seen
    let mut emitted: Vec<Vec<V>> = vec![];
    let mut ord: GroupOrdering = if full {
        GroupOrdering::Full(GroupOrderingFull::new())
    } else {
        GroupOrdering::Partial(GroupOrderingPartial::try_new(idx.clone()).unwrap())
    };
    let mut obs: Vec<String> = vec![];
    let mut ok = true;
    let mut why = String::new();
    let mut pos = 0usize;
    let mut done = false;
    let mut panicked = false;
    let mut steps = 0;
    let apply = |ord: &mut GroupOrdering, op: &Op| -> Result<(i64, i64, i64, Vec<V>, i64), String> {
        let r = catch_unwind(AssertUnwindSafe(|| {
            let mut oom: Option<i64> = None;
            match op {
                Op::New(keys, gidx, total) => {
                    let nc = keys.first().map(|k| k.len()).unwrap_or(1);
                    let cols: Vec<ArrayRef> =
                        (0..nc).map(|c| int_col(&keys.iter().map(|k| k[c].clone()).collect::<Vec<_>>())).collect();
                    ord.new_groups(&cols, gidx, *total).map_err(|e| e.to_string())?;
                }
                Op::Emit => {}
                Op::Remove(n) => ord.remove_groups(*n),
                Op::Done => ord.input_done(),
                Op::Reset => ord.reset(),
                Op::Oom(n) => oom = Some(emit_code(ord.oom_emit_to(*n))),
            }
            let dbg = format!("{:?}", ord);
            let (t, cs, cur, sk) = parse_state(&dbg);
            let e = match oom {
                Some(x) => x,
                None => emit_code(ord.emit_to()),
            };
            Ok::<_, String>((t, cs, cur, sk, e))
        }));
        match r {
            Ok(Ok(x)) => Ok(x),
            Ok(Err(e)) => Err(format!("error: {}", e)),
            Err(p) => Err(panic_msg(p)),
        }
    };
    while steps < 40 && !panicked {
        steps += 1;
        // choose the next operation
        let op: Op = if adversarial && rng.chance(1, 6) {
            match rng.below(5) {
                0 => Op::Remove(rng.range(0, 4) as usize),
                1 => Op::Done,
                2 => Op::Reset,
                3 => Op::Oom(rng.range(0, 4) as usize),
                _ => {
                    let n = rng.range(1, 3) as usize;
                    let keys: Vec<Vec<V>> = (0..n).map(|_| (0..ncols).map(|_| V::I(rng.range(0, 2))).collect()).collect();
                    let gidx: Vec<usize> = (0..n).map(|_| rng.range(0, 5) as usize).collect();
                    Op::New(keys, gidx, rng.range(0, 6) as usize)
                }
            }
        } else if done {
            if table.is_empty() {
                break;
            }
            Op::Emit
        } else if pos >= rows.len() {
            Op::Done
        } else {
            match rng.below(10) {
                0..=5 => {
                    // next batch
                    let n = rng.range(1, 4).min((rows.len() - pos) as i64) as usize;
                    let batch: Vec<Vec<V>> = rows[pos..pos + n].to_vec();
                    pos += n;
                    let before = table.len();
                    let mut gidx = vec![];
                    for k in &batch {
                        if sorted && !adversarial && emitted.contains(k) {
                            ok = false;
                            why = format!("row with key {} arrives after its group was emitted", rowj(k));
                        }
                        let g = match table.iter().position(|t| t == k) {
                            Some(g) => g,
                            None => {
                                table.push(k.clone());
                                table.len() - 1
                            }
                        };
                        gidx.push(g);
                    }
                    if table.len() > before {
                        Op::New(batch, gidx, table.len())
                    } else {
                        Op::Emit
                    }
                }
                6..=8 => Op::Emit,
                _ => Op::Oom(rng.range(0, 3) as usize),
            }
        };
        match apply(&mut ord, &op) {
            Err(msg) => {
                obs.push("{\"panic\":true}".into());
                ops.push(op);
                panicked = true;
                if !adversarial && sorted {
                    ok = false;
                    why = format!("panic on a protocol-following sorted history: {}", msg);
                }
            }
            Ok((t, cs, cur, sk, e)) => {
                obs.push(format!("{{\"tag\":{},\"cs\":{},\"cur\":{},\"sk\":{},\"emit\":{}}}", t, cs, cur, rowj(&sk), e));
                if let Op::Done = op {
                    done = true;
                    if e != -2 && !adversarial {
                        ok = false;
                        why = "emit_to after input_done is not All".into();
                    }
                }
                if let Op::Reset = op {
                    table.clear();
                    done = false;
                }
                let was_emit = matches!(op, Op::Emit | Op::Oom(_));
                ops.push(op);
                if was_emit && !table.is_empty() {
                    // the table emits what emit_to allows (clamped by a batch size) and removes the groups
                    let bs = rng.range(1, 4) as usize;
                    if e >= 0 {
                        let n = (e as usize).min(bs);
                        if n > table.len() && !adversarial && sorted {
                            ok = false;
                            why = format!("emit_to First({}) exceeds the {} buffered groups", e, table.len());
                        } else if n <= table.len() && (n > 0 || adversarial) {
                            for k in table.drain(..n) {
                                emitted.push(k);
                            }
                            let op2 = Op::Remove(n);
                            match apply(&mut ord, &op2) {
                                Err(msg) => {
                                    obs.push("{\"panic\":true}".into());
                                    panicked = true;
                                    if !adversarial && sorted {
                                        ok = false;
                                        why = format!("remove_groups panicked: {}", msg);
                                    }
                                }
                                Ok((t, cs, cur, sk, e)) => obs.push(format!(
                                    "{{\"tag\":{},\"cs\":{},\"cur\":{},\"sk\":{},\"emit\":{}}}",
                                    t,
                                    cs,
                                    cur,
                                    rowj(&sk),
                                    e
                                )),
                            }
                            ops.push(op2);
                        }
                    } else if e == -2 {
                        let n = bs.min(table.len());
                        for k in table.drain(..n) {
                            emitted.push(k);
                        }
                    }
                }
            }
        }
    }
    println!(
        "{{\"kind\":\"ord\",\"id\":{},\"full\":{},\"idx\":[{}],\"sorted\":{},\"adversarial\":{},\"ops\":[{}],\"obs\":[{}],\"ok\":{},\"why\":{}}}",
        id,
        full,
        idx.iter().map(|x| x.to_string()).collect::<Vec<_>>().join(","),
        sorted,
        adversarial,
        ops.iter().map(opj).collect::<Vec<_>>().join(","),
        obs.join(","),
        ok,
        json_str(&why)
    );
}

// ================================================================== AggregateExec
#[derive(Clone, Copy, Debug, PartialEq)]
enum KT {
    I,
    S,
}
const AGGS: [&str; 6] = ["count_star", "count", "sum", "min", "max", "avg"];

fn gen_key(rng: &mut Rng, kt: KT, dom: i64) -> V {
    if rng.chance(1, 6) {
        return V::Null;
    }
    let c = rng.range(0, dom);
    match kt {
        KT::I => V::I(match c {
            5 => i64::MAX,
            6 => i64::MIN,
            c => c - 1,
        }),
        KT::S => V::S(match c {
            0 => "".to_string(),
            1 => "a".to_string(),
            2 => "b".to_string(),
            3 => "ab".to_string(),
            c => format!("long-common-prefix-{:04}", c),
        }),
    }
}
fn gen_val(rng: &mut Rng) -> V {
    match rng.below(12) {
        0 | 1 => V::Null,
        2 => V::I(rng.range(-1_000_000_000_000, 1_000_000_000_000)),
        _ => V::I(rng.range(-5, 20)),
    }
}

type OrdSpec = Vec<(usize, bool, bool)>; // (column, descending, nulls_first)
fn cmp_v(a: &V, b: &V, desc: bool, nf: bool) -> Ordering {
    match (a, b) {
        (V::Null, V::Null) => Ordering::Equal,
        (V::Null, _) => {
            if nf {
                Ordering::Less
            } else {
                Ordering::Greater
            }
        }
        (_, V::Null) => {
            if nf {
                Ordering::Greater
            } else {
                Ordering::Less
            }
        }
        (a, b) => {
            let o = match (a, b) {
                (V::I(x), V::I(y)) => x.cmp(y),
                (V::S(x), V::S(y)) => x.as_bytes().cmp(y.as_bytes()),
                _ => Ordering::Equal,
            };
            if desc {
                o.reverse()
            } else {
                o
            }
        }
    }
}
fn sort_rows(rows: &mut Vec<(Vec<V>, V)>, spec: &OrdSpec) {
    rows.sort_by(|a, b| {
        for &(c, d, nf) in spec {
            let o = cmp_v(&a.0[c], &b.0[c], d, nf);
            if o != Ordering::Equal {
                return o;
            }
        }
        Ordering::Equal
    });
}

fn schema_of(kts: &[KT]) -> SchemaRef {
    let mut f: Vec<Field> = kts
        .iter()
        .enumerate()
        .map(|(i, kt)| Field::new(format!("k{}", i), if *kt == KT::I { DataType::Int64 } else { DataType::Utf8 }, true))
        .collect();
    f.push(Field::new("v", DataType::Int64, true));
    Arc::new(Schema::new(f))
}
fn batch_of(kts: &[KT], schema: &SchemaRef, rows: &[(Vec<V>, V)]) -> RecordBatch {
    let mut cols: Vec<ArrayRef> = vec![];
    for (i, kt) in kts.iter().enumerate() {
        let c: Vec<V> = rows.iter().map(|r| r.0[i].clone()).collect();
        cols.push(if *kt == KT::I { int_col(&c) } else { str_col(&c) });
    }
    cols.push(int_col(&rows.iter().map(|r| r.1.clone()).collect::<Vec<_>>()));
    RecordBatch::try_new(Arc::clone(schema), cols).unwrap()
}
/// cut rows into batches of the given sizes (cyclic)
fn cut(rows: &[(Vec<V>, V)], sizes: &[usize]) -> Vec<Vec<(Vec<V>, V)>> {
    let mut out = vec![];
    let mut i = 0;
    let mut j = 0;
    while i < rows.len() {
        let n = sizes[j % sizes.len()].max(1).min(rows.len() - i);
        out.push(rows[i..i + n].to_vec());
        i += n;
        j += 1;
    }
    out
}

fn agg_exprs(aggs: &[&str], schema: &SchemaRef) -> Vec<Arc<AggregateFunctionExpr>> {
    aggs.iter()
        .map(|a| {
            let v = col("v", schema).unwrap();
            let (udaf, args): (_, Vec<Arc<dyn PhysicalExpr>>) = match *a {
                "count_star" => (count_udaf(), vec![lit(1i64)]),
                "count" => (count_udaf(), vec![v]),
                "sum" => (sum_udaf(), vec![v]),
                "min" => (min_udaf(), vec![v]),
                "max" => (max_udaf(), vec![v]),
                _ => (avg_udaf(), vec![cast(v, schema, DataType::Float64).unwrap()]),
            };
            Arc::new(AggregateExprBuilder::new(udaf, args).schema(Arc::clone(schema)).alias(format!("{}_v", a)).build().unwrap())
        })
        .collect()
}

#[derive(Clone, Debug)]
struct Cfg {
    mode: &'static str,
    nparts: usize,
    sizes: Vec<usize>,
    batch_size: usize,
    mem: Option<usize>,
    skip: Option<(usize, f64)>,
    migr: bool,
    order: OrdSpec,
}
fn cfgj(c: &Cfg) -> String {
    format!(
        "{{\"mode\":\"{}\",\"nparts\":{},\"sizes\":[{}],\"batch_size\":{},\"mem\":{},\"skip\":{},\"migr\":{},\"order\":[{}]}}",
        c.mode,
        c.nparts,
        c.sizes.iter().map(|x| x.to_string()).collect::<Vec<_>>().join(","),
        c.batch_size,
        c.mem.map(|m| m.to_string()).unwrap_or("null".into()),
        c.skip.map(|(r, t)| format!("[{},{}]", r, t)).unwrap_or("null".into()),
        c.migr,
        c.order.iter().map(|(c, d, n)| format!("[{},{},{}]", c, d, n)).collect::<Vec<_>>().join(",")
    )
}
fn task_ctx(c: &Cfg) -> Arc<TaskContext> {
    let mut sc = SessionConfig::new()
        .with_batch_size(c.batch_size)
        .set_bool("datafusion.execution.enable_migration_aggregate", c.migr);
    if let Some((rows, ratio)) = c.skip {
        sc = sc
            .set("datafusion.execution.skip_partial_aggregation_probe_rows_threshold", &ScalarValue::UInt64(Some(rows as u64)))
            .set("datafusion.execution.skip_partial_aggregation_probe_ratio_threshold", &ScalarValue::Float64(Some(ratio)));
    }
    let mut rb = RuntimeEnvBuilder::new();
    if let Some(m) = c.mem {
        rb = rb.with_memory_pool(Arc::new(FairSpillPool::new(m)));
    }
    Arc::new(TaskContext::default().with_session_config(sc).with_runtime(rb.build_arc().unwrap()))
}

fn lex(schema: &SchemaRef, spec: &OrdSpec) -> Option<LexOrdering> {
    LexOrdering::new(spec.iter().map(|&(c, d, nf)| {
        PhysicalSortExpr::new(
            Arc::new(Column::new(schema.field(c).name(), c)) as Arc<dyn PhysicalExpr>,
            SortOptions { descending: d, nulls_first: nf },
        )
    }))
}
fn key_hash(k: &[V]) -> u64 {
    let mut h: u64 = 1469598103934665603;
    for v in k {
        let s = vj(v);
        for b in s.bytes() {
            h = (h ^ b as u64).wrapping_mul(1099511628211);
        }
        h = h.wrapping_mul(31).wrapping_add(7);
    }
    h
}

struct RunOut {
    rows: Result<Vec<Vec<V>>, String>,
    batches: Vec<Vec<Vec<V>>>,
    iom: String,
    spills: usize,
    skipped: usize,
    panic: bool,
}

/// decode an output batch: group columns (Int64 / Utf8 / unsigned grouping id), then the aggregates
fn decode(b: &RecordBatch) -> Result<Vec<Vec<V>>, String> {
    let mut rows: Vec<Vec<V>> = vec![vec![]; b.num_rows()];
    for c in 0..b.num_columns() {
        let a = b.column(c);
        for r in 0..b.num_rows() {
            let v = if a.is_null(r) {
                V::Null
            } else {
                match a.data_type() {
                    DataType::Int64 => V::I(a.as_any().downcast_ref::<Int64Array>().unwrap().value(r)),
                    DataType::Utf8 => V::S(a.as_any().downcast_ref::<StringArray>().unwrap().value(r).to_string()),
                    DataType::UInt8 | DataType::UInt16 | DataType::UInt32 | DataType::UInt64 => {
                        let s = ScalarValue::try_from_array(a, r).map_err(|e| e.to_string())?;
                        V::I(s.to_string().parse::<i64>().map_err(|e| format!("gid {}: {}", s, e))?)
                    }
                    DataType::Float64 => {
                        let f = a.as_any().downcast_ref::<Float64Array>().unwrap().value(r);
                        // avg: recover the exact reduced fraction (the float must be the correctly rounded quotient)
                        let mut found = None;
                        for d in 1..=4096i64 {
                            let n = (f * d as f64).round();
                            if n.abs() < 9.0e15 && (n / d as f64).to_bits() == f.to_bits() {
                                found = Some((n as i64, d));
                                break;
                            }
                        }
                        match found {
                            Some((n, d)) => V::S(format!("{}/{}", n, d)),
                            None => V::S(format!("float:{:?}", f)),
                        }
                    }
                    t => return Err(format!("unexpected output type {:?}", t)),
                }
            };
            rows[r].push(v);
        }
    }
    Ok(rows)
}

#[allow(clippy::too_many_arguments)]
fn run_agg_once(
    rt: &tokio::runtime::Runtime,
    kts: &[KT],
    aggs: &[&str],
    sets: &[Vec<bool>],
    rows: &[(Vec<V>, V)],
    c: &Cfg,
) -> RunOut {
    let schema = schema_of(kts);
    let nk = kts.len();
    let r = catch_unwind(AssertUnwindSafe(|| -> Result<(Vec<RecordBatch>, String, usize, usize), String> {
        // partition the rows
        let mut parts: Vec<Vec<(Vec<V>, V)>> = vec![vec![]; c.nparts];
        for (i, r) in rows.iter().enumerate() {
            let p = if c.mode == "single_partitioned" { (key_hash(&r.0) % c.nparts as u64) as usize } else { i % c.nparts };
            parts[p].push(r.clone());
        }
        for p in parts.iter_mut() {
            if !c.order.is_empty() {
                sort_rows(p, &c.order);
            }
        }
        let pb: Vec<Vec<RecordBatch>> =
            parts.iter().map(|p| cut(p, &c.sizes).iter().map(|b| batch_of(kts, &schema, b)).collect()).collect();
        let mut mem = TestMemoryExec::try_new(&pb, Arc::clone(&schema), None).map_err(|e| e.to_string())?;
        let ordering = lex(&schema, &c.order);
        if let Some(o) = &ordering {
            mem = mem.try_with_sort_information(vec![o.clone()]).map_err(|e| e.to_string())?;
        }
        let input: Arc<dyn ExecutionPlan> = Arc::new(TestMemoryExec::update_cache(&Arc::new(mem)));
        let gexprs: Vec<(Arc<dyn PhysicalExpr>, String)> =
            (0..nk).map(|i| (col(&format!("k{}", i), &schema).unwrap(), format!("k{}", i))).collect();
        let group_by = if sets.is_empty() {
            PhysicalGroupBy::new_single(gexprs)
        } else {
            let nulls: Vec<(Arc<dyn PhysicalExpr>, String)> = (0..nk)
                .map(|i| {
                    let sv = if kts[i] == KT::I { ScalarValue::Int64(None) } else { ScalarValue::Utf8(None) };
                    (lit(sv), format!("k{}", i))
                })
                .collect();
            PhysicalGroupBy::new(gexprs, nulls, sets.to_vec(), true)
        };
        let aggr = agg_exprs(aggs, &schema);
        let filt = vec![None; aggr.len()];
        let mk = |mode: AggregateMode, gb: PhysicalGroupBy, inp: Arc<dyn ExecutionPlan>| -> Result<Arc<AggregateExec>, String> {
            AggregateExec::try_new(mode, gb, aggr.clone(), filt.clone(), inp, Arc::clone(&schema))
                .map(Arc::new)
                .map_err(|e| e.to_string())
        };
        let single_input = |inp: Arc<dyn ExecutionPlan>| -> Arc<dyn ExecutionPlan> {
            if c.nparts == 1 {
                inp
            } else if let Some(o) = &ordering {
                Arc::new(SortPreservingMergeExec::new(o.clone(), inp))
            } else {
                Arc::new(CoalescePartitionsExec::new(inp))
            }
        };
        let mut watch: Vec<Arc<AggregateExec>> = vec![];
        let plan: Arc<dyn ExecutionPlan> = match c.mode {
            "single" => {
                let a = mk(AggregateMode::Single, group_by.clone(), single_input(input))?;
                watch.push(Arc::clone(&a));
                a
            }
            "single_partitioned" => {
                let a = mk(AggregateMode::SinglePartitioned, group_by.clone(), input)?;
                watch.push(Arc::clone(&a));
                a
            }
            "single_repartitioned" => {
                let hexprs: Vec<Arc<dyn PhysicalExpr>> = (0..nk).map(|i| col(&format!("k{}", i), &schema).unwrap()).collect();
                let rp = Arc::new(
                    RepartitionExec::try_new(input, Partitioning::Hash(hexprs, c.nparts.max(2))).map_err(|e| e.to_string())?,
                );
                let a = mk(AggregateMode::SinglePartitioned, group_by.clone(), rp)?;
                watch.push(Arc::clone(&a));
                a
            }
            m => {
                let partial = mk(AggregateMode::Partial, group_by.clone(), input)?;
                watch.push(Arc::clone(&partial));
                let pschema = partial.schema();
                let fin_gb = group_by.as_final();
                let ngb = pschema.fields().len() - partial.aggr_expr().iter().map(|a| a.state_fields().map(|f| f.len()).unwrap_or(1)).sum::<usize>();
                match m {
                    "partial_final" => {
                        let mid: Arc<dyn ExecutionPlan> = Arc::new(CoalescePartitionsExec::new(partial));
                        let a = mk(AggregateMode::Final, fin_gb, mid)?;
                        watch.push(Arc::clone(&a));
                        a
                    }
                    "partial_spm_final" => {
                        // the partial stage keeps the order of the ordering columns: merge its partitions on them
                        let spec: OrdSpec = c.order.clone();
                        // (only when the partial stage really reports that order: with GROUPING SETS it does not)
                        let mid: Arc<dyn ExecutionPlan> = match lex(&pschema, &spec) {
                            Some(o)
                                if c.nparts > 1
                                    && partial.properties().equivalence_properties().ordering_satisfy(o.clone()).unwrap_or(false) =>
                            {
                                Arc::new(SortPreservingMergeExec::new(o, partial))
                            }
                            _ => Arc::new(CoalescePartitionsExec::new(partial)),
                        };
                        let a = mk(AggregateMode::Final, fin_gb, mid)?;
                        watch.push(Arc::clone(&a));
                        a
                    }
                    _ => {
                        let hexprs: Vec<Arc<dyn PhysicalExpr>> =
                            (0..ngb).map(|i| Arc::new(Column::new(pschema.field(i).name(), i)) as Arc<dyn PhysicalExpr>).collect();
                        let rp = Arc::new(
                            RepartitionExec::try_new(partial, Partitioning::Hash(hexprs, c.nparts.max(2))).map_err(|e| e.to_string())?,
                        );
                        let a = mk(AggregateMode::FinalPartitioned, fin_gb, rp)?;
                        watch.push(Arc::clone(&a));
                        a
                    }
                }
            }
        };
        let iom = watch
            .iter()
            .map(|a| match a.input_order_mode() {
                InputOrderMode::Linear => "Linear".to_string(),
                InputOrderMode::Sorted => "Sorted".to_string(),
                InputOrderMode::PartiallySorted(ix) => format!("Partial{:?}", ix),
            })
            .collect::<Vec<_>>()
            .join("+");
        let tc = task_ctx(c);
        let p2 = Arc::clone(&plan);
        let out = rt
            .block_on(async move { tokio::time::timeout(std::time::Duration::from_secs(20), collect(p2, tc)).await })
            .map_err(|_| "timeout".to_string())?
            .map_err(|e| e.to_string())?;
        let mut spills = 0;
        let mut skipped = 0;
        for a in &watch {
            if let Some(m) = a.metrics() {
                spills += m.spill_count().unwrap_or(0);
                skipped += m.sum_by_name("skipped_aggregation_rows").map(|v| v.as_usize()).unwrap_or(0);
            }
        }
        Ok((out, iom, spills, skipped))
    }));
    match r {
        Err(p) => RunOut { rows: Err(format!("panic: {}", panic_msg(p))), batches: vec![], iom: String::new(), spills: 0, skipped: 0, panic: true },
        Ok(Err(e)) => RunOut { rows: Err(e), batches: vec![], iom: String::new(), spills: 0, skipped: 0, panic: false },
        Ok(Ok((bs, iom, spills, skipped))) => {
            let mut all = vec![];
            let mut per = vec![];
            let mut err = None;
            for b in &bs {
                match decode(b) {
                    Ok(rs) => {
                        all.extend(rs.clone());
                        per.push(rs);
                    }
                    Err(e) => err = Some(e),
                }
            }
            RunOut { rows: if let Some(e) = err { Err(e) } else { Ok(all) }, batches: per, iom, spills, skipped, panic: false }
        }
    }
}

/// A plan with RepartitionExec under a memory budget intermittently never finishes on a loaded machine (a liveness
/// matter, not C06's): a run that times out is repeated (up to 3 attempts); if it still hangs it has no result.
fn run_agg(rt: &tokio::runtime::Runtime, kts: &[KT], aggs: &[&str], sets: &[Vec<bool>], rows: &[(Vec<V>, V)], c: &Cfg) -> RunOut {
    let mut o = run_agg_once(rt, kts, aggs, sets, rows, c);
    for _ in 0..2 {
        if matches!(&o.rows, Err(e) if e == "timeout") {
            o = run_agg_once(rt, kts, aggs, sets, rows, c);
        }
    }
    o
}

// ---- the definition, computed here
fn gcd(a: i128, b: i128) -> i128 {
    if b == 0 {
        a.abs()
    } else {
        gcd(b, a % b)
    }
}
fn agg_def(a: &str, vs: &[V]) -> V {
    let xs: Vec<i64> = vs.iter().filter_map(|v| if let V::I(i) = v { Some(*i) } else { None }).collect();
    match a {
        "count_star" => V::I(vs.len() as i64),
        "count" => V::I(xs.len() as i64),
        "sum" => {
            if xs.is_empty() {
                V::Null
            } else {
                V::I(xs.iter().sum())
            }
        }
        "min" => xs.iter().min().map(|x| V::I(*x)).unwrap_or(V::Null),
        "max" => xs.iter().max().map(|x| V::I(*x)).unwrap_or(V::Null),
        _ => {
            if xs.is_empty() {
                V::Null
            } else {
                let s: i128 = xs.iter().map(|x| *x as i128).sum();
                let n = xs.len() as i128;
                let g = gcd(s, n).max(1);
                V::S(format!("{}/{}", s / g, n / g))
            }
        }
    }
}
fn definition(aggs: &[&str], sets: &[Vec<bool>], rows: &[(Vec<V>, V)]) -> Vec<Vec<V>> {
    let mut out = vec![];
    let passes: Vec<(Vec<bool>, i64)> = if sets.is_empty() {
        vec![(vec![], -1)]
    } else {
        let n = sets[0].len();
        sets.iter()
            .enumerate()
            .map(|(i, m)| {
                let ordinal = sets[..i].iter().filter(|x| *x == m).count() as i64;
                let sem = m.iter().fold(0i64, |acc, b| (acc << 1) | (*b as i64));
                (m.clone(), sem | (ordinal << n))
            })
            .collect()
    };
    for (mask, gid) in passes {
        let mut groups: BTreeMap<Vec<V>, Vec<V>> = BTreeMap::new();
        for (k, v) in rows {
            let mut kk: Vec<V> =
                k.iter().enumerate().map(|(i, x)| if !mask.is_empty() && mask[i] { V::Null } else { x.clone() }).collect();
            if gid >= 0 {
                kk.push(V::I(gid));
            }
            groups.entry(kk).or_default().push(v.clone());
        }
        if rows.is_empty() && !mask.is_empty() && mask.iter().all(|b| *b) {
            // the empty grouping set has its (grand total) group even when there is no input row
            let mut kk: Vec<V> = mask.iter().map(|_| V::Null).collect();
            kk.push(V::I(gid));
            groups.insert(kk, vec![]);
        }
        for (k, vs) in groups {
            let mut r = k.clone();
            for a in aggs {
                r.push(agg_def(a, &vs));
            }
            out.push(r);
        }
    }
    out
}
fn bag_eq(a: &[Vec<V>], b: &[Vec<V>]) -> bool {
    let mut x = a.to_vec();
    let mut y = b.to_vec();
    x.sort();
    y.sort();
    x == y
}

fn gen_rows(rng: &mut Rng, kts: &[KT], focus: &str) -> Vec<(Vec<V>, V)> {
    let (n, dom) = match focus {
        "spill" => (rng.range(60, 200) as usize, rng.range(7, 15)),
        "skip" => (rng.range(15, 80) as usize, rng.range(4, 15)),
        _ => (
            match rng.below(10) {
                0 => 0,
                1 => 1,
                2..=6 => rng.range(2, 12) as usize,
                _ => rng.range(12, 40) as usize,
            },
            rng.range(1, 6),
        ),
    };
    (0..n).map(|_| (kts.iter().map(|kt| gen_key(rng, *kt, dom)).collect(), gen_val(rng))).collect()
}
fn gen_kts(rng: &mut Rng) -> Vec<KT> {
    match rng.below(6) {
        0 => vec![KT::I],
        1 => vec![KT::S],
        2 => vec![KT::I, KT::S],
        3 => vec![KT::S, KT::I],
        4 => vec![KT::I, KT::I],
        _ => vec![KT::I, KT::S, KT::I],
    }
}
fn gen_aggs(rng: &mut Rng) -> Vec<&'static str> {
    let mut v: Vec<&'static str> = AGGS.iter().copied().filter(|_| rng.chance(1, 2)).collect();
    if v.is_empty() {
        v.push(*rng.pick(&AGGS));
    }
    v
}
fn gen_order(rng: &mut Rng, nk: usize) -> OrdSpec {
    if rng.chance(1, 4) {
        return vec![];
    }
    let mut cols: Vec<usize> = (0..nk).collect();
    let n = rng.range(1, nk as i64) as usize;
    let mut o = vec![];
    for _ in 0..n {
        let j = rng.below(cols.len() as u64) as usize;
        o.push((cols.remove(j), rng.chance(1, 3), rng.chance(1, 2)));
    }
    o
}
fn gen_cfg(rng: &mut Rng, nk: usize, has_sets: bool, focus: &str) -> Cfg {
    let modes = ["single", "single_partitioned", "single_repartitioned", "partial_final", "partial_spm_final", "partial_repart_finalpart"];
    let mut mode: &'static str = *rng.pick(&modes);
    if has_sets && mode.starts_with("single_") {
        // a pre-partitioned single stage cannot be partitioned on the keys of the expanded grouping sets
        mode = "single";
    }
    if focus == "skip" {
        mode = *rng.pick(&["partial_final", "partial_repart_finalpart", "partial_spm_final"]);
    }
    let nparts = if mode == "single_partitioned" { rng.range(2, 3) as usize } else { rng.range(1, 3) as usize };
    let sizes: Vec<usize> = (0..rng.range(1, 3)).map(|_| rng.range(1, if focus == "spill" { 24 } else { 6 }) as usize).collect();
    let batch_size = *rng.pick(&[1usize, 2, 3, 4, 8, 8192]);
    let mem = if focus == "spill" || rng.chance(1, 5) {
        Some(*rng.pick(&[3000usize, 5000, 7000, 9000, 12000, 16000, 22000, 30000, 45000]))
    } else {
        None
    };
    let skip = if focus == "skip" {
        Some((rng.range(1, 8) as usize, *rng.pick(&[0.0f64, 0.1, 0.3])))
    } else if rng.chance(1, 4) {
        Some((rng.range(1, 6) as usize, *rng.pick(&[0.0f64, 0.2, 0.5, 0.9])))
    } else {
        None
    };
    let order = if (has_sets && rng.chance(1, 2)) || (focus == "skip" && rng.chance(3, 4)) {
        vec![]
    } else if focus == "ordered" {
        let mut o = gen_order(rng, nk);
        if o.is_empty() {
            o.push((0, rng.chance(1, 3), rng.chance(1, 2)));
        }
        o
    } else {
        gen_order(rng, nk)
    };
    Cfg { mode, nparts, sizes, batch_size, mem, skip, migr: rng.chance(3, 4), order }
}

fn agg_case_with(rt: &tokio::runtime::Runtime, id: u64, kts: &[KT], aggs: &[&str], sets: &[Vec<bool>], rows: &[(Vec<V>, V)], cfgs: &[Cfg], tag: &str) {
    let def = definition(aggs, sets, rows);
    let mut ok = true;
    let mut runs = vec![];
    for c in cfgs {
        let o = run_agg(rt, kts, aggs, sets, rows, c);
        let body = match &o.rows {
            Ok(rs) => {
                let good = bag_eq(rs, &def);
                if !good {
                    ok = false;
                }
                format!("\"rows\":{},\"good\":{}", rowsj(rs), good)
            }
            Err(e) => {
                // running out of the memory budget is an accepted outcome (no result); anything else is not
                let benign = !o.panic && (e.contains("Resources exhausted") || e.contains("ResourcesExhausted") || e == "timeout");
                if !benign {
                    ok = false;
                }
                format!("\"err\":{},\"benign\":{}", json_str(&e.chars().take(300).collect::<String>()), benign)
            }
        };
        runs.push(format!(
            "{{\"cfg\":{},\"iom\":{},\"spills\":{},\"skipped\":{},{}}}",
            cfgj(c),
            json_str(&o.iom),
            o.spills,
            o.skipped,
            body
        ));
    }
    println!(
        "{{\"kind\":\"agg\",\"id\":{},\"tag\":{},\"ktypes\":[{}],\"aggs\":[{}],\"sets\":[{}],\"keys\":{},\"vals\":{},\"runs\":[{}],\"ok\":{}}}",
        id,
        json_str(tag),
        kts.iter().map(|k| if *k == KT::I { "\"i\"" } else { "\"s\"" }).collect::<Vec<_>>().join(","),
        aggs.iter().map(|a| json_str(a)).collect::<Vec<_>>().join(","),
        sets.iter().map(|m| format!("[{}]", m.iter().map(|b| b.to_string()).collect::<Vec<_>>().join(","))).collect::<Vec<_>>().join(","),
        rowsj(&rows.iter().map(|r| r.0.clone()).collect::<Vec<_>>()),
        rowj(&rows.iter().map(|r| r.1.clone()).collect::<Vec<_>>()),
        runs.join(","),
        ok
    );
}

fn agg_case(rng: &mut Rng, rt: &tokio::runtime::Runtime, id: u64) {
    let focus: &str = *rng.pick(&["mix", "mix", "ordered", "ordered", "spill", "skip", "sets"]);
    let kts = gen_kts(rng);
    let aggs = gen_aggs(rng);
    let rows = gen_rows(rng, &kts, focus);
    let nk = kts.len();
    let sets: Vec<Vec<bool>> = if focus == "sets" {
        match rng.below(3) {
            0 => (0..=nk).map(|i| (0..nk).map(|j| j >= nk - i).collect()).collect(), // ROLLUP
            1 => (0..(1usize << nk)).map(|m| (0..nk).map(|j| (m >> j) & 1 == 1).collect()).collect(), // CUBE
            _ => (0..rng.range(1, 4)).map(|_| (0..nk).map(|_| rng.chance(1, 2)).collect()).collect(), // arbitrary, repeats possible
        }
    } else {
        vec![]
    };
    let k = rng.range(2, 4) as usize;
    let cfgs: Vec<Cfg> = (0..k).map(|_| gen_cfg(rng, nk, !sets.is_empty(), focus)).collect();
    agg_case_with(rt, id, &kts, &aggs, &sets, &rows, &cfgs, focus);
}

// ================================================================== stream "stream"
fn stream_case(rng: &mut Rng, rt: &tokio::runtime::Runtime, id: u64) {
    let kts: Vec<KT> = match rng.below(4) {
        0 => vec![KT::I],
        1 => vec![KT::I, KT::I],
        2 => vec![KT::I, KT::S],
        _ => vec![KT::I, KT::I, KT::I],
    };
    let nk = kts.len();
    let aggs = gen_aggs(rng);
    let mut rows = gen_rows(rng, &kts, "mix");
    let mut order = gen_order(rng, nk);
    if order.is_empty() {
        order.push((0, false, false));
    }
    sort_rows(&mut rows, &order);
    let sizes: Vec<usize> = (0..rng.range(1, 3)).map(|_| rng.range(1, 5) as usize).collect();
    let c = Cfg {
        mode: "single",
        nparts: 1,
        sizes: sizes.clone(),
        batch_size: *rng.pick(&[1usize, 2, 3, 8192]),
        mem: None,
        skip: None,
        migr: !rng.chance(1, 4),
        order: order.clone(),
    };
    let o = run_agg(rt, &kts, &aggs, &[], &rows, &c);
    let def = definition(&aggs, &[], &rows);
    let full = order.len() == nk;
    let idx: Vec<usize> = order.iter().map(|x| x.0).collect();
    let batches = cut(&rows, &sizes);
    let (ok, obs) = match &o.rows {
        Ok(rs) => {
            // direct oracle: the union of the output batches is the definition, and no group key is output twice
            let mut keys: Vec<Vec<V>> = rs.iter().map(|r| r[..nk].to_vec()).collect();
            keys.sort();
            let n0 = keys.len();
            keys.dedup();
            (bag_eq(rs, &def) && keys.len() == n0, format!("[{}]", o.batches.iter().map(|b| rowsj(b)).collect::<Vec<_>>().join(",")))
        }
        Err(e) => (false, format!("{{\"err\":{}}}", json_str(e))),
    };
    println!(
        "{{\"kind\":\"stream\",\"id\":{},\"ktypes\":[{}],\"aggs\":[{}],\"full\":{},\"idx\":[{}],\"bs\":{},\"migr\":{},\"iom\":{},\"batches\":[{}],\"obs\":{},\"ok\":{}}}",
        id,
        kts.iter().map(|k| if *k == KT::I { "\"i\"" } else { "\"s\"" }).collect::<Vec<_>>().join(","),
        aggs.iter().map(|a| json_str(a)).collect::<Vec<_>>().join(","),
        full,
        idx.iter().map(|x| x.to_string()).collect::<Vec<_>>().join(","),
        c.batch_size,
        c.migr,
        json_str(&o.iom),
        batches
            .iter()
            .map(|b| format!("[{}]", b.iter().map(|(k, v)| format!("[{},{}]", rowj(k), vj(v))).collect::<Vec<_>>().join(",")))
            .collect::<Vec<_>>()
            .join(","),
        obs,
        ok
    );
}

/// fixed witness inputs of the listed findings; they run first on every run
fn witnesses(rt: &tokio::runtime::Runtime) {
    let iv = |x: i64| V::I(x);
    // KF-C06-1: single-stage GROUPING SETS aggregation that spills: the merge of the spilled runs groups on the
    // grouping expressions only (the __grouping_id column is dropped) and fails with an internal Arrow error
    let keys: Vec<Vec<V>> = vec![
        vec![iv(3), iv(3)], vec![iv(-1), iv(-1)], vec![iv(-1), iv(3)], vec![iv(1), iv(3)], vec![iv(2), iv(0)],
        vec![iv(1), V::Null], vec![iv(2), iv(1)], vec![iv(1), V::Null], vec![iv(3), iv(2)], vec![V::Null, iv(3)],
        vec![iv(-1), V::Null], vec![iv(2), iv(2)], vec![V::Null, iv(1)], vec![iv(0), iv(2)], vec![iv(1), V::Null],
    ];
    let vals: Vec<V> = vec![iv(14), iv(5), iv(17), iv(-1), iv(15), iv(-3), iv(9), iv(8), iv(18), iv(3), iv(19), iv(2), iv(0), V::Null, iv(-1)];
    let rows: Vec<(Vec<V>, V)> = keys.into_iter().zip(vals).collect();
    let sets = vec![vec![false, false], vec![false, true], vec![true, true]];
    let cfgs = vec![
        Cfg { mode: "single", nparts: 1, sizes: vec![4, 1, 5], batch_size: 8192, mem: Some(3000), skip: None, migr: true, order: vec![] },
        Cfg { mode: "single", nparts: 1, sizes: vec![4, 1, 5], batch_size: 8192, mem: None, skip: None, migr: true, order: vec![] },
    ];
    agg_case_with(rt, 1_000_000, &[KT::I, KT::I], &["count_star", "min"], &sets, &rows, &cfgs, "witness:KF-C06-1");
}

fn main() {
    let args: Vec<String> = std::env::args().collect();
    let seed: u64 = arg(&args, "--seed", "1").parse().unwrap();
    let n: u64 = arg(&args, "--n", "100").parse().unwrap();
    let only = arg(&args, "--only", "");
    std::panic::set_hook(Box::new(|_| {}));
    let rt = tokio::runtime::Builder::new_multi_thread().worker_threads(2).enable_all().build().unwrap();
    let mut rng = Rng::new(seed);
    if only.is_empty() || only == "agg" {
        witnesses(&rt);
    }
    for id in 0..n {
        let which = id % 10;
        if which < 5 {
            if only.is_empty() || only == "ord" {
                ord_case(&mut rng, id);
            } else {
                rng.next();
            }
        } else if which < 8 {
            if only.is_empty() || only == "agg" {
                agg_case(&mut rng, &rt, id);
            } else {
                rng.next();
            }
        } else if only.is_empty() || only == "stream" {
            stream_case(&mut rng, &rt, id);
        } else {
            rng.next();
        }
    }
}
