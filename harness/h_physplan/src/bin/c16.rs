//! C16: spill channels (spill_pool::spsc_channel / mpsc_channel) deliver every spilled batch exactly once and terminate.
//! Part "sched": the real channel is driven single-threaded at CALL granularity (push / drop-writer / poll-reader
//!   calls interleaved by a generated schedule; the reader stream is polled by hand with a counting waker), push
//!   failures are injected from outside through the DiskManager size limit, and after the schedule all writers are
//!   dropped and the reader is drained (quiescence: a Pending with no wake outstanding is the hang).
//! Part "stress": real threads + tokio, watchdog timeout, oracle only.
//! `ok` is the direct property oracle evaluated on the implementation's own output.
use std::collections::HashMap;
use std::panic::{catch_unwind, AssertUnwindSafe};
use std::sync::atomic::{AtomicUsize, Ordering};
use std::sync::Arc;
use std::task::{Context, Poll, Wake, Waker};

use arrow::array::{Array, ArrayRef, Int32Array};
use arrow::datatypes::{DataType, Field, Schema, SchemaRef};
use arrow::record_batch::RecordBatch;
use datafusion_execution::disk_manager::{DiskManager, DiskManagerBuilder};
use datafusion_execution::runtime_env::RuntimeEnvBuilder;
use datafusion_execution::SendableRecordBatchStream;
use datafusion_physical_plan::metrics::{ExecutionPlanMetricsSet, SpillMetrics};
use datafusion_physical_plan::spill::spill_pool::{mpsc_channel, spsc_channel, SpillPoolSink, SpillPoolWriter};
use datafusion_physical_plan::SpillManager;
use futures::StreamExt;
use h_util::{arg, json_str, Rng};

const BIG: u64 = 1 << 40;
/// a threaded run normally ends within milliseconds; a reader still waiting after this long is reported as hanging
const WATCHDOG_S: u64 = 45;

struct CountWaker(AtomicUsize);
impl Wake for CountWaker {
    fn wake(self: Arc<Self>) {
        self.0.fetch_add(1, Ordering::SeqCst);
    }
    fn wake_by_ref(self: &Arc<Self>) {
        self.0.fetch_add(1, Ordering::SeqCst);
    }
}

enum W {
    Sink(SpillPoolSink),
    Writer(SpillPoolWriter),
}
impl W {
    fn push(&self, b: &RecordBatch) -> datafusion_common::Result<()> {
        match self {
            W::Sink(s) => s.push_batch(b),
            W::Writer(w) => w.push_batch(b),
        }
    }
}

fn schema() -> SchemaRef {
    Arc::new(Schema::new(vec![Field::new("a", DataType::Int32, false)]))
}

fn batch(id: i32, rows: usize) -> RecordBatch {
    let a: ArrayRef = Arc::new(Int32Array::from(vec![id; rows]));
    RecordBatch::try_new(schema(), vec![a]).unwrap()
}

/// (id, rows) of a batch read back, or a description of what is wrong with it
fn batch_id(b: &RecordBatch) -> Result<(i64, usize), String> {
    if b.num_columns() != 1 {
        return Err("column count".into());
    }
    let a = b.column(0).as_any().downcast_ref::<Int32Array>().ok_or("column type")?;
    if a.is_empty() {
        return Err("empty batch yielded".into());
    }
    let id = a.value(0);
    if a.null_count() != 0 || !a.values().iter().all(|v| *v == id) {
        return Err("batch content mixed".into());
    }
    Ok((id as i64, a.len()))
}

fn env_with_limit(limit: u64) -> (Arc<SpillManager>, Arc<DiskManager>) {
    let env = RuntimeEnvBuilder::new()
        .with_disk_manager_builder(DiskManagerBuilder::default().with_max_temp_directory_size(limit))
        .build_arc()
        .unwrap();
    let metrics = ExecutionPlanMetricsSet::new();
    let sm = Arc::new(SpillManager::new(env.clone(), SpillMetrics::new(&metrics, 0), schema()));
    (sm, env.disk_manager.clone())
}

/// bytes written by the IPC stream for (the header of a new file, one batch of `rows` rows)
fn calibrate(rows_set: &[usize]) -> (u64, HashMap<usize, u64>) {
    let mut header = 0;
    let mut m = HashMap::new();
    for &r in rows_set {
        let (sm, dm) = env_with_limit(BIG);
        let (w, _reader) = spsc_channel(usize::MAX, sm);
        let u0 = dm.used_disk_space();
        w.push_batch(&batch(1, r)).unwrap();
        let u1 = dm.used_disk_space();
        w.push_batch(&batch(2, r)).unwrap();
        let u2 = dm.used_disk_space();
        header = (u1 - u0) - (u2 - u1);
        m.insert(r, u2 - u1);
    }
    (header, m)
}

#[derive(Clone, Debug)]
enum Op {
    Push { w: usize, id: i64, rows: usize, inj: u8 }, // inj: 0 none, 1 append fails, 2 rotation-finish fails
    Drop { w: usize },
    Poll,
}

#[derive(Clone, Debug, PartialEq)]
enum PollOut {
    Batch(i64),
    Pending,
    Eof,
    Error(String),
}

struct Driver<'a> {
    rt: &'a tokio::runtime::Runtime,
    reader: SendableRecordBatchStream,
    cw: Arc<CountWaker>,
    waker: Waker,
}

impl<'a> Driver<'a> {
    fn wakes(&self) -> usize {
        self.cw.0.load(Ordering::SeqCst)
    }
    /// all file I/O started by earlier polls has completed (and fired its wake) once this returns:
    /// the runtime has exactly one blocking thread, which serves its queue in FIFO order
    fn io_barrier(&self) {
        let _ = self.rt.block_on(tokio::task::spawn_blocking(|| ()));
    }
    /// one reader "poll call" at the granularity of the channel protocol: poll, and re-poll as long as the Pending
    /// was only the file read in flight (its completion wakes us). Returns (outcome, had to wait for file I/O).
    fn poll(&mut self, rows_of: &HashMap<i64, usize>) -> (PollOut, bool) {
        let mut io = false;
        for _ in 0..64 {
            let before = self.wakes();
            let mut cx = Context::from_waker(&self.waker);
            let r = self.reader.as_mut().poll_next(&mut cx);
            match r {
                Poll::Ready(Some(Ok(b))) => {
                    self.io_barrier();
                    return match batch_id(&b) {
                        Ok((id, rows)) => {
                            if rows_of.get(&id).copied() != Some(rows) {
                                (PollOut::Error(format!("batch {id} came back with {rows} rows")), io)
                            } else {
                                (PollOut::Batch(id), io)
                            }
                        }
                        Err(e) => (PollOut::Error(e), io),
                    };
                }
                Poll::Ready(Some(Err(e))) => {
                    self.io_barrier();
                    return (PollOut::Error(e.to_string()), io);
                }
                Poll::Ready(None) => {
                    self.io_barrier();
                    return (PollOut::Eof, io);
                }
                Poll::Pending => {
                    self.io_barrier();
                    if self.wakes() != before {
                        io = true;
                        continue;
                    }
                    return (PollOut::Pending, io);
                }
            }
        }
        (PollOut::Error("poll did not settle after 64 I/O wake-ups".into()), io)
    }
}

fn sched_case(rng: &mut Rng, h: usize, rt: &tokio::runtime::Runtime, header: u64, bytes: &HashMap<usize, u64>, rows_set: &[usize], fixed: Option<&(usize, u64, Vec<Op>)>) {
    // ---- generate
    let (nw, thr, sched): (usize, u64, Vec<Op>) = match fixed {
        Some(f) => f.clone(),
        None => {
            let nw = 1 + rng.below(3) as usize;
            let mut progs: Vec<Vec<Op>> = vec![];
            let mut next_id = 1i64;
            // memory size of the batches is 64-byte granular; thresholds around one to three batches, 0 and "never"
            let thr = *rng.pick(&[0u64, 0, 1, 300, 600, 1200, 5000, BIG, BIG]);
            for w in 0..nw {
                let k = rng.below(5) as usize;
                let mut p = vec![];
                for _ in 0..k {
                    let rows = if rng.chance(1, 7) { 0 } else { *rng.pick(rows_set) };
                    let inj = if rng.chance(1, 4) { 1 } else if thr == 0 && rng.chance(1, 6) { 2 } else { 0 };
                    p.push(Op::Push { w, id: next_id, rows, inj });
                    next_id += 1;
                }
                if rng.chance(3, 4) {
                    p.push(Op::Drop { w });
                }
                progs.push(p);
            }
            // interleave the writer programs with reader polls
            let mut sched = vec![];
            let mut pos = vec![0usize; nw];
            let poll_w = *rng.pick(&[1u64, 2, 4]);
            loop {
                let live: Vec<usize> = (0..nw).filter(|&w| pos[w] < progs[w].len()).collect();
                if live.is_empty() {
                    break;
                }
                if rng.below(poll_w + 2) < poll_w {
                    sched.push(Op::Poll);
                } else {
                    let w = *rng.pick(&live);
                    sched.push(progs[w][pos[w]].clone());
                    pos[w] += 1;
                }
            }
            for _ in 0..rng.below(3) {
                sched.push(Op::Poll);
            }
            (nw, thr, sched)
        }
    };

    // ---- run on the real channel
    let (sm, dm) = env_with_limit(BIG);
    let thr_us = if thr >= BIG { usize::MAX } else { thr as usize };
    let spsc = nw == 1 && (fixed.is_some() || rng.chance(1, 2));
    let mut writers: Vec<Option<W>> = vec![];
    let reader;
    if spsc {
        let (w, r) = spsc_channel(thr_us, sm);
        writers.push(Some(W::Sink(w)));
        reader = r;
    } else {
        let (w, r) = mpsc_channel(thr_us, sm);
        for i in 1..nw {
            writers.push(Some(if i % 2 == 1 { W::Writer(w.clone()) } else { W::Sink(w.new_sink()) }));
        }
        writers.insert(0, Some(W::Writer(w)));
        reader = r;
    }
    let cw = Arc::new(CountWaker(AtomicUsize::new(0)));
    let waker = Waker::from(cw.clone());
    let mut d = Driver { rt, reader, cw, waker };

    let mut ops_js: Vec<String> = vec![];
    let mut outs_js: Vec<String> = vec![];
    let mut why = String::new();
    let mut hang = false;
    // oracle bookkeeping
    let mut rows_of: HashMap<i64, usize> = HashMap::new();
    let mut attempted: Vec<i64> = vec![]; // non-empty pushes, call order
    let mut ok_pushed: Vec<i64> = vec![]; // non-empty pushes that returned Ok, call order
    let mut yielded: Vec<i64> = vec![];
    let mut alive = nw;
    let mut last_poll_pending = false;
    let mut wakes_since_pending = 0usize;
    let mut eof_seen = false;

    let mut full: Vec<Op> = sched.clone();
    // quiescence phase: drop every remaining writer, then drain
    {
        let mut dropped = vec![false; nw];
        for o in &sched {
            if let Op::Drop { w } = o {
                dropped[*w] = true;
            }
        }
        for w in 0..nw {
            if !dropped[w] {
                full.push(Op::Drop { w });
            }
        }
    }
    let sched_len = full.len();
    let mut i = 0;
    let mut drain_polls = 0;
    let total_batches: usize = full.iter().filter(|o| matches!(o, Op::Push { .. })).count();
    loop {
        let op = if i < sched_len {
            full[i].clone()
        } else {
            // drain: a fair reader polls again after every wake / ready result; all writers are gone
            if eof_seen || hang || !why.is_empty() || drain_polls > total_batches + 3 {
                break;
            }
            drain_polls += 1;
            Op::Poll
        };
        i += 1;
        match op {
            Op::Push { w, id, rows, inj } => {
                let b = batch(id as i32, rows);
                let size = b.get_array_memory_size();
                rows_of.insert(id, rows);
                if rows > 0 {
                    attempted.push(id);
                }
                let used = dm.used_disk_space();
                match inj {
                    1 => dm.set_max_temp_directory_size(used).unwrap(),
                    2 => dm.set_max_temp_directory_size(used + header + bytes.get(&rows).copied().unwrap_or(0)).unwrap(),
                    _ => {}
                }
                let before = d.wakes();
                let r = writers[w].as_ref().expect("schedule pushes on a dropped writer").push(&b);
                let wk = d.wakes() - before;
                dm.set_max_temp_directory_size(BIG).unwrap();
                let res = match &r {
                    Ok(()) => "ok".to_string(),
                    Err(e) => {
                        if e.to_string().contains("exceeded the allowable limit") { "err".to_string() } else { format!("err:{}", e) }
                    }
                };
                if r.is_ok() && rows > 0 {
                    ok_pushed.push(id);
                }
                if res.len() > 3 && why.is_empty() {
                    why = format!("push failed with an error that was not injected: {res}");
                }
                if last_poll_pending {
                    wakes_since_pending += wk;
                }
                let injs = ["none", "append", "finish"][inj as usize];
                ops_js.push(format!("{{\"op\":\"push\",\"w\":{w},\"id\":{id},\"rows\":{rows},\"size\":{size},\"inj\":\"{injs}\"}}"));
                outs_js.push(format!("{{\"r\":{},\"wakes\":{wk}}}", json_str(&res[..res.len().min(3)])));
            }
            Op::Drop { w } => {
                let before = d.wakes();
                let wr = writers[w].take().expect("schedule drops a writer twice");
                drop(wr);
                let wk = d.wakes() - before;
                alive -= 1;
                if last_poll_pending {
                    wakes_since_pending += wk;
                }
                ops_js.push(format!("{{\"op\":\"drop\",\"w\":{w}}}"));
                outs_js.push(format!("{{\"wakes\":{wk}}}"));
            }
            Op::Poll => {
                let (r, io) = d.poll(&rows_of);
                ops_js.push(format!("{{\"op\":\"poll\",\"io\":{io}}}"));
                // ---- direct oracle on this poll
                match &r {
                    PollOut::Batch(id) => {
                        if yielded.contains(id) && why.is_empty() {
                            why = format!("batch {id} delivered twice");
                        }
                        if !attempted.contains(id) && why.is_empty() {
                            why = format!("batch {id} delivered but never pushed (non-empty)");
                        }
                        if eof_seen && why.is_empty() {
                            why = format!("batch {id} delivered after end-of-stream");
                        }
                        yielded.push(*id);
                        outs_js.push(format!("{{\"p\":\"batch\",\"id\":{id}}}"));
                    }
                    PollOut::Eof => {
                        if alive > 0 && why.is_empty() {
                            why = format!("end-of-stream reported while {alive} writer(s) are still alive");
                        }
                        for id in &ok_pushed {
                            if !yielded.contains(id) && why.is_empty() {
                                why = format!("end-of-stream reported but successfully pushed batch {id} was never delivered");
                            }
                        }
                        eof_seen = true;
                        outs_js.push("{\"p\":\"eof\"}".to_string());
                    }
                    PollOut::Pending => {
                        if alive == 0 {
                            // nobody is left to wake the reader: this is the hang
                            hang = true;
                            if why.is_empty() {
                                let missing: Vec<i64> = ok_pushed.iter().filter(|id| !yielded.contains(id)).cloned().collect();
                                why = format!("reader hangs: Pending after every writer was dropped (no wake can follow); successfully pushed batches never delivered: {:?}", missing);
                            }
                        }
                        outs_js.push("{\"p\":\"pending\"}".to_string());
                    }
                    PollOut::Error(e) => {
                        if why.is_empty() {
                            why = format!("reader error: {e}");
                        }
                        outs_js.push(format!("{{\"p\":\"error\",\"msg\":{}}}", json_str(e)));
                    }
                }
                if !matches!(r, PollOut::Pending) && last_poll_pending && wakes_since_pending == 0 && why.is_empty() {
                    why = "lost wake-up: the reader returned Pending, progress became possible, but no wake was issued in between".into();
                }
                last_poll_pending = matches!(r, PollOut::Pending);
                wakes_since_pending = 0;
            }
        }
    }
    // ---- end-of-run oracle
    if why.is_empty() {
        if !eof_seen {
            why = "reader did not reach end-of-stream after all writers were dropped".into();
        } else if nw == 1 {
            // single writer: delivered = pushed order (batches of failed pushes may or may not be there)
            let filt: Vec<i64> = attempted.iter().filter(|id| yielded.contains(id)).cloned().collect();
            if filt != yielded {
                why = format!("single writer but delivery order {:?} is not push order {:?}", yielded, filt);
            }
        }
    }
    let ok = why.is_empty();
    println!(
        "{{\"k\":\"sched\",\"h\":{h},\"chan\":\"{}\",\"nw\":{nw},\"thr\":{thr},\"ops\":[{}],\"outs\":[{}],\"sched_len\":{},\"hang\":{hang},\"ok\":{ok},\"why\":{}}}",
        if spsc { "spsc" } else { "mpsc" },
        ops_js.join(","),
        outs_js.join(","),
        sched_len,
        json_str(&why)
    );
}

/// real threads: nw writer threads push concurrently, a tokio task reads; watchdog timeout
fn stress_case(rng: &mut Rng, h: usize, rt: &tokio::runtime::Runtime) -> bool {
    let nw = 1 + rng.below(3) as usize;
    let thr = *rng.pick(&[0u64, 300, 1200, BIG]);
    let per = 1 + rng.below(12) as usize;
    let fail_every = *rng.pick(&[0usize, 0, 3, 5]);
    let (sm, dm) = env_with_limit(BIG);
    let thr_us = if thr >= BIG { usize::MAX } else { thr as usize };
    let (w0, mut reader) = mpsc_channel(thr_us, sm);
    let mut ws = vec![];
    for _ in 1..nw {
        ws.push(w0.clone());
    }
    ws.insert(0, w0);
    let mut handles = vec![];
    for (wi, w) in ws.into_iter().enumerate() {
        let dm = dm.clone();
        let seed = rng.next();
        handles.push(std::thread::spawn(move || {
            let mut r = Rng::new(seed);
            let mut res: Vec<(i64, bool)> = vec![];
            for j in 0..per {
                let id = (wi * 1000 + j + 1) as i64;
                let rows = 1 + r.below(8) as usize;
                let inject = fail_every > 0 && (j + wi) % fail_every == fail_every - 1;
                if inject {
                    let _ = dm.set_max_temp_directory_size(dm.used_disk_space());
                }
                let ok = w.push_batch(&batch(id as i32, rows)).is_ok();
                if inject {
                    let _ = dm.set_max_temp_directory_size(BIG);
                }
                res.push((id, ok));
                if r.chance(1, 3) {
                    std::thread::yield_now();
                }
            }
            drop(w);
            res
        }));
    }
    let got = rt.block_on(async {
        tokio::time::timeout(std::time::Duration::from_secs(WATCHDOG_S), async {
            let mut v: Vec<Result<i64, String>> = vec![];
            while let Some(b) = reader.next().await {
                v.push(b.map_err(|e| e.to_string()).and_then(|b| batch_id(&b).map(|x| x.0)));
            }
            v
        })
        .await
    });
    let mut pushed: Vec<(i64, bool)> = vec![];
    let mut per_writer: Vec<Vec<(i64, bool)>> = vec![];
    for hnd in handles {
        let r = hnd.join().unwrap_or_default();
        pushed.extend(r.iter().cloned());
        per_writer.push(r);
    }
    let _ = dm.set_max_temp_directory_size(BIG);
    let mut why = String::new();
    let mut hang = false;
    let mut nread = 0;
    match got {
        Err(_) => {
            hang = true;
            why = "reader did not reach end-of-stream within the watchdog time after all writers finished and were dropped".into();
        }
        Ok(v) => {
            let mut seen: Vec<i64> = vec![];
            for x in v {
                match x {
                    Ok(id) => {
                        if seen.contains(&id) && why.is_empty() { why = format!("batch {id} delivered twice"); }
                        if !pushed.iter().any(|p| p.0 == id) && why.is_empty() { why = format!("batch {id} never pushed"); }
                        seen.push(id);
                    }
                    Err(e) => if why.is_empty() { why = format!("reader error: {e}") },
                }
            }
            nread = seen.len();
            for (id, ok) in &pushed {
                if *ok && !seen.contains(id) && why.is_empty() {
                    why = format!("successfully pushed batch {id} never delivered");
                }
            }
            if nw == 1 && why.is_empty() {
                let filt: Vec<i64> = per_writer[0].iter().map(|p| p.0).filter(|id| seen.contains(id)).collect();
                if filt != seen { why = format!("single writer but delivery order {:?} is not push order", seen); }
            }
        }
    }
    let nfail = pushed.iter().filter(|p| !p.1).count();
    let ok = why.is_empty();
    println!("{{\"k\":\"stress\",\"h\":{h},\"nw\":{nw},\"thr\":{thr},\"per\":{per},\"fail_every\":{fail_every},\"pushed\":{},\"failed\":{nfail},\"read\":{nread},\"hang\":{hang},\"ok\":{ok},\"why\":{}}}",
        pushed.len(), json_str(&why));
    hang
}

fn main() {
    std::panic::set_hook(Box::new(|_| {}));
    let args: Vec<String> = std::env::args().collect();
    let seed: u64 = arg(&args, "--seed", "1").parse().unwrap();
    let n: usize = arg(&args, "--n", "300").parse().unwrap();
    let nstress: usize = arg(&args, "--stress", "20").parse().unwrap();
    let mut rng = Rng::new(seed);
    // one blocking thread: see Driver::io_barrier
    let rt = tokio::runtime::Builder::new_multi_thread().worker_threads(1).max_blocking_threads(1).enable_all().build().unwrap();
    let _g = rt.enter();
    let rows_set = [1usize, 2, 3, 16, 40, 100, 250];
    let (header, bytes) = calibrate(&rows_set);
    println!("{{\"k\":\"calib\",\"header\":{header},\"bytes\":[{}]}}", rows_set.iter().map(|r| format!("[{},{}]", r, bytes[r])).collect::<Vec<_>>().join(","));
    // fixed histories first: the failed-append history of the pinned upstream defect, and its rotation-finish twin
    let fixed: Vec<(usize, u64, Vec<Op>)> = vec![
        (1, BIG, vec![Op::Push { w: 0, id: 1, rows: 3, inj: 0 }, Op::Push { w: 0, id: 2, rows: 250, inj: 1 }, Op::Push { w: 0, id: 3, rows: 3, inj: 0 }, Op::Drop { w: 0 }]),
        (1, 0, vec![Op::Push { w: 0, id: 1, rows: 3, inj: 2 }, Op::Push { w: 0, id: 2, rows: 3, inj: 0 }, Op::Drop { w: 0 }]),
        (2, BIG, vec![Op::Poll, Op::Push { w: 0, id: 1, rows: 3, inj: 0 }, Op::Poll, Op::Poll, Op::Push { w: 1, id: 2, rows: 16, inj: 1 }, Op::Poll, Op::Push { w: 0, id: 3, rows: 3, inj: 0 }, Op::Drop { w: 0 }, Op::Poll, Op::Drop { w: 1 }]),
    ];
    let mut h = 0;
    for f in &fixed {
        let r = catch_unwind(AssertUnwindSafe(|| sched_case(&mut Rng::new(1), h, &rt, header, &bytes, &rows_set, Some(f))));
        if r.is_err() {
            println!("{{\"k\":\"sched\",\"h\":{h},\"panic\":true,\"ok\":false,\"why\":\"panic in fixed history\"}}");
        }
        h += 1;
    }
    for _ in 0..n {
        let r = catch_unwind(AssertUnwindSafe(|| sched_case(&mut rng, h, &rt, header, &bytes, &rows_set, None)));
        if r.is_err() {
            println!("{{\"k\":\"sched\",\"h\":{h},\"panic\":true,\"ok\":false,\"why\":\"panic\"}}");
        }
        h += 1;
    }
    drop(_g);
    drop(rt);
    let rt2 = tokio::runtime::Builder::new_multi_thread().worker_threads(2).enable_all().build().unwrap();
    for s in 0..nstress {
        let r = catch_unwind(AssertUnwindSafe(|| stress_case(&mut rng, s, &rt2)));
        match r {
            Err(_) => println!("{{\"k\":\"stress\",\"h\":{s},\"panic\":true,\"ok\":false,\"why\":\"panic\"}}"),
            // one hang is a complete finding; the hung reader task still occupies the runtime, do not pile up more
            Ok(true) => break,
            Ok(false) => {}
        }
    }
    // a hung reader task must not keep the process alive
    rt2.shutdown_background();
}
