//! Harness bin for properties anchored in datafusion-physical-plan.
//! usage: h_physplan <cmd> --seed S --n N ...   prints one JSON object per line.
mod c11;

fn main() {
    let args: Vec<String> = std::env::args().collect();
    if args.len() < 2 {
        eprintln!("usage: h_physplan <cmd> [--seed S] [--n N]");
        std::process::exit(2);
    }
    let rest = &args[2..];
    // panics are caught per case and reported as data; keep stderr quiet
    std::panic::set_hook(Box::new(|_| {}));
    match args[1].as_str() {
        "c11" => c11::run(rest),
        other => {
            eprintln!("unknown command {other}");
            std::process::exit(2);
        }
    }
}
