//! C33: expression evaluation strategies agree with row-by-row SQL semantics.
//!
//! Generates typed expression trees (depth <= 4) over nullable Int64 / Boolean / Utf8 columns (plus
//! Int8/Int16/Int32/UInt8 needles for the IN-list and lookup-table streams), plans them with the REAL planner
//! (`ExprSimplifier::coerce` = TypeCoercionRewriter, then `create_physical_expr`) and evaluates them with
//! `PhysicalExpr::evaluate` / `evaluate_selection` on batches laid out to trigger every strategy:
//!   inset    IN lists of 1..40 literals incl. NULLs / duplicates (branchless, bitmap, hash-set, ArrayStaticFilter)
//!   inchain  IN lists with a non-constant element or no element (dynamic or_kleene chain), early exit included
//!   inscalar literal needle (scalar path of InListExpr::evaluate)
//!   lookup   CASE x WHEN lit THEN lit ... (literal lookup table), 2..20 branches, duplicate / NULL literals
//!   mask     searched CASE, >= 2 branches (case_when_no_expr), guarded divisions in the branches
//!   case1    single-branch CASE forms (InfallibleExprOrNull, ScalarOrScalar, ExpressionOrExpression) and
//!            CASE x WHEN expr (case_when_with_expr)
//!   logic    AND / OR with all-true / all-false / sparse (pre-selection) / dense / NULL left sides and a right
//!            side that fails exactly where the left side guards it
//!   tree     random trees;  sel: random trees through evaluate_selection;  like: LIKE / ILIKE (direct oracle only)
//! Direct oracle ("ok"): the SAME physical expression evaluated on every single-row slice of the batch must
//! give, row by row, the vectorised result; when no single row raises an error the vectorised evaluation must
//! not raise one either.  One JSON object per line; the Python driver ties rows/expr/obs to RefSQL + the
//! strategy models in Coq.
use std::panic::{catch_unwind, AssertUnwindSafe};
use std::sync::Arc;

use arrow::array::*;
use arrow::datatypes::{DataType, Field, Schema};
use arrow::record_batch::RecordBatch;
use datafusion_common::{DFSchema, ScalarValue};
use datafusion_expr::execution_props::ExecutionProps;
use datafusion_expr::expr::{Between, Case, InList, Like};
use datafusion_expr::physical_planning_context::PhysicalPlanningContext;
use datafusion_expr::simplify::SimplifyContext;
use datafusion_expr::{col, BinaryExpr, Expr, Operator};
use datafusion_optimizer::simplify_expressions::ExprSimplifier;
use datafusion_physical_expr::expressions::{InListExpr, Literal};
use datafusion_physical_expr::{create_physical_expr, PhysicalExpr};
use h_util::{arg, json_str, Rng};

// ------------------------------------------------------------------ values
#[derive(Clone, Debug, PartialEq)]
enum V {
    Null,
    I(i64),
    B(bool),
    S(String),
}
fn jv(v: &V) -> String {
    match v {
        V::Null => "null".into(),
        V::I(i) => i.to_string(),
        V::B(b) => b.to_string(),
        V::S(s) => json_str(s),
    }
}
fn jcol(c: &[V]) -> String {
    format!("[{}]", c.iter().map(jv).collect::<Vec<_>>().join(","))
}

#[derive(Clone, Copy, Debug, PartialEq)]
enum Ty {
    I64,
    I32,
    I16,
    I8,
    U8,
    Bool,
    Str,
}
impl Ty {
    fn dt(self) -> DataType {
        match self {
            Ty::I64 => DataType::Int64,
            Ty::I32 => DataType::Int32,
            Ty::I16 => DataType::Int16,
            Ty::I8 => DataType::Int8,
            Ty::U8 => DataType::UInt8,
            Ty::Bool => DataType::Boolean,
            Ty::Str => DataType::Utf8,
        }
    }
    fn scalar(self, v: &V) -> ScalarValue {
        match (self, v) {
            (Ty::I64, V::I(i)) => ScalarValue::Int64(Some(*i)),
            (Ty::I64, _) => ScalarValue::Int64(None),
            (Ty::I32, V::I(i)) => ScalarValue::Int32(Some(*i as i32)),
            (Ty::I32, _) => ScalarValue::Int32(None),
            (Ty::I16, V::I(i)) => ScalarValue::Int16(Some(*i as i16)),
            (Ty::I16, _) => ScalarValue::Int16(None),
            (Ty::I8, V::I(i)) => ScalarValue::Int8(Some(*i as i8)),
            (Ty::I8, _) => ScalarValue::Int8(None),
            (Ty::U8, V::I(i)) => ScalarValue::UInt8(Some(*i as u8)),
            (Ty::U8, _) => ScalarValue::UInt8(None),
            (Ty::Bool, V::B(b)) => ScalarValue::Boolean(Some(*b)),
            (Ty::Bool, _) => ScalarValue::Boolean(None),
            (Ty::Str, V::S(s)) => ScalarValue::Utf8(Some(s.clone())),
            (Ty::Str, _) => ScalarValue::Utf8(None),
        }
    }
    fn array(self, vs: &[V]) -> ArrayRef {
        macro_rules! ints {
            ($A:ty, $t:ty) => {
                Arc::new(<$A>::from(vs.iter().map(|v| if let V::I(i) = v { Some(*i as $t) } else { None }).collect::<Vec<Option<$t>>>())) as ArrayRef
            };
        }
        match self {
            Ty::I64 => ints!(Int64Array, i64),
            Ty::I32 => ints!(Int32Array, i32),
            Ty::I16 => ints!(Int16Array, i16),
            Ty::I8 => ints!(Int8Array, i8),
            Ty::U8 => ints!(UInt8Array, u8),
            Ty::Bool => Arc::new(BooleanArray::from(vs.iter().map(|v| if let V::B(b) = v { Some(*b) } else { None }).collect::<Vec<_>>())),
            Ty::Str => Arc::new(StringArray::from(vs.iter().map(|v| if let V::S(s) = v { Some(s.clone()) } else { None }).collect::<Vec<_>>())),
        }
    }
}

fn read_col(a: &ArrayRef) -> Result<Vec<V>, String> {
    macro_rules! ints {
        ($A:ty) => {{
            let x = a.as_any().downcast_ref::<$A>().unwrap();
            Ok((0..x.len()).map(|i| if x.is_null(i) { V::Null } else { V::I(x.value(i) as i64) }).collect())
        }};
    }
    match a.data_type() {
        DataType::Null => Ok(vec![V::Null; a.len()]),
        DataType::Int64 => ints!(Int64Array),
        DataType::Int32 => ints!(Int32Array),
        DataType::Int16 => ints!(Int16Array),
        DataType::Int8 => ints!(Int8Array),
        DataType::UInt8 => ints!(UInt8Array),
        DataType::Boolean => {
            let x = a.as_any().downcast_ref::<BooleanArray>().unwrap();
            Ok((0..x.len()).map(|i| if x.is_null(i) { V::Null } else { V::B(x.value(i)) }).collect())
        }
        DataType::Utf8 => {
            let x = a.as_any().downcast_ref::<StringArray>().unwrap();
            Ok((0..x.len()).map(|i| if x.is_null(i) { V::Null } else { V::S(x.value(i).to_string()) }).collect())
        }
        other => Err(format!("unexpected result type {other:?}")),
    }
}

// ------------------------------------------------------------------ typed expression AST
#[derive(Clone, Debug)]
enum E {
    Col(usize),
    Lit(Ty, V),
    Arith(char, Box<E>, Box<E>),
    Cmp(&'static str, Box<E>, Box<E>),
    And(Box<E>, Box<E>),
    Or(Box<E>, Box<E>),
    Not(Box<E>),
    IsNull(bool, Box<E>),
    Distinct(bool, Box<E>, Box<E>),
    Between(bool, Box<E>, Box<E>, Box<E>),
    InList(bool, Box<E>, Vec<E>),
    Case(Vec<(E, E)>, Option<Box<E>>),
    /// CASE operand WHEN w THEN t ...  (reference form: searched CASE with operand = w)
    SimpleCase(Box<E>, Vec<(E, E)>, Option<Box<E>>),
    Like(bool, bool, Box<E>, Box<E>),
}
fn bx(e: E) -> Box<E> {
    Box::new(e)
}

struct Sch {
    cols: Vec<(String, Ty)>,
}

fn to_expr(e: &E, s: &Sch) -> Expr {
    let b = |x: &E| Box::new(to_expr(x, s));
    let bin = |l: &E, op: Operator, r: &E| Expr::BinaryExpr(BinaryExpr::new(b(l), op, b(r)));
    match e {
        E::Col(i) => col(s.cols[*i].0.as_str()),
        E::Lit(t, v) => Expr::Literal(t.scalar(v), None),
        E::Arith(op, l, r) => bin(
            l,
            match op {
                '+' => Operator::Plus,
                '-' => Operator::Minus,
                '*' => Operator::Multiply,
                '/' => Operator::Divide,
                _ => Operator::Modulo,
            },
            r,
        ),
        E::Cmp(op, l, r) => bin(
            l,
            match *op {
                "=" => Operator::Eq,
                "<>" => Operator::NotEq,
                "<" => Operator::Lt,
                "<=" => Operator::LtEq,
                ">" => Operator::Gt,
                _ => Operator::GtEq,
            },
            r,
        ),
        E::And(l, r) => bin(l, Operator::And, r),
        E::Or(l, r) => bin(l, Operator::Or, r),
        E::Not(x) => Expr::Not(b(x)),
        E::IsNull(neg, x) => {
            if *neg {
                Expr::IsNotNull(b(x))
            } else {
                Expr::IsNull(b(x))
            }
        }
        E::Distinct(neg, l, r) => bin(l, if *neg { Operator::IsNotDistinctFrom } else { Operator::IsDistinctFrom }, r),
        E::Between(neg, x, lo, hi) => Expr::Between(Between::new(b(x), *neg, b(lo), b(hi))),
        E::InList(neg, x, l) => Expr::InList(InList::new(b(x), l.iter().map(|y| to_expr(y, s)).collect(), *neg)),
        E::Case(ws, els) => Expr::Case(Case::new(None, ws.iter().map(|(w, t)| (b(w), b(t))).collect(), els.as_ref().map(|x| b(x)))),
        E::SimpleCase(op, ws, els) => Expr::Case(Case::new(Some(b(op)), ws.iter().map(|(w, t)| (b(w), b(t))).collect(), els.as_ref().map(|x| b(x)))),
        E::Like(neg, ci, x, p) => Expr::Like(Like::new(*neg, b(x), b(p), None, *ci)),
    }
}

/// RefSQL JSON (the format of lib/props/C01.py r_expr)
fn to_json(e: &E) -> String {
    let j = to_json;
    match e {
        E::Col(i) => format!("[\"col\",0,{i}]"),
        E::Lit(_, v) => format!("[\"lit\",{}]", jv(v)),
        E::Arith(op, l, r) => format!("[\"arith\",\"{op}\",{},{}]", j(l), j(r)),
        E::Cmp(op, l, r) => format!("[\"cmp\",\"{op}\",{},{}]", j(l), j(r)),
        E::And(l, r) => format!("[\"and\",{},{}]", j(l), j(r)),
        E::Or(l, r) => format!("[\"or\",{},{}]", j(l), j(r)),
        E::Not(x) => format!("[\"not\",{}]", j(x)),
        E::IsNull(neg, x) => format!("[\"isnull\",{neg},{}]", j(x)),
        // RefSQL: EDistinct neg  with neg = true meaning IS NOT DISTINCT FROM
        E::Distinct(neg, l, r) => format!("[\"distinct\",{neg},{},{}]", j(l), j(r)),
        E::Between(neg, x, lo, hi) => format!("[\"between\",{neg},{},{},{}]", j(x), j(lo), j(hi)),
        E::InList(neg, x, l) => format!("[\"inlist\",{neg},{},[{}]]", j(x), l.iter().map(j).collect::<Vec<_>>().join(",")),
        E::Case(ws, els) => format!(
            "[\"case\",[{}],{}]",
            ws.iter().map(|(w, t)| format!("[{},{}]", j(w), j(t))).collect::<Vec<_>>().join(","),
            els.as_ref().map(|x| j(x)).unwrap_or("null".into())
        ),
        E::SimpleCase(op, ws, els) => format!(
            "[\"case\",[{}],{}]",
            ws.iter().map(|(w, t)| format!("[[\"cmp\",\"=\",{},{}],{}]", j(op), j(w), j(t))).collect::<Vec<_>>().join(","),
            els.as_ref().map(|x| j(x)).unwrap_or("null".into())
        ),
        E::Like(neg, ci, x, p) => format!("[\"like\",{neg},{ci},{},{}]", j(x), j(p)),
    }
}
fn has_like(e: &E) -> bool {
    match e {
        E::Like(..) => true,
        E::Col(_) | E::Lit(..) => false,
        E::Arith(_, l, r) | E::Cmp(_, l, r) | E::And(l, r) | E::Or(l, r) | E::Distinct(_, l, r) => has_like(l) || has_like(r),
        E::Not(x) | E::IsNull(_, x) => has_like(x),
        E::Between(_, a, b, c) => has_like(a) || has_like(b) || has_like(c),
        E::InList(_, x, l) => has_like(x) || l.iter().any(has_like),
        E::Case(ws, els) => ws.iter().any(|(w, t)| has_like(w) || has_like(t)) || els.as_ref().map_or(false, |x| has_like(x)),
        E::SimpleCase(o, ws, els) => has_like(o) || ws.iter().any(|(w, t)| has_like(w) || has_like(t)) || els.as_ref().map_or(false, |x| has_like(x)),
    }
}


fn has_defn(e: &E) -> bool {
    match e {
        E::InList(..) | E::SimpleCase(..) => true,
        E::Col(_) | E::Lit(..) => false,
        E::Arith(_, l, r) | E::Cmp(_, l, r) | E::And(l, r) | E::Or(l, r) | E::Distinct(_, l, r) | E::Like(_, _, l, r) => has_defn(l) || has_defn(r),
        E::Not(x) | E::IsNull(_, x) => has_defn(x),
        E::Between(_, a, b, c) => has_defn(a) || has_defn(b) || has_defn(c),
        E::Case(ws, els) => ws.iter().any(|(w, t)| has_defn(w) || has_defn(t)) || els.as_ref().map_or(false, |x| has_defn(x)),
    }
}
/// definitional rewriting: x IN (l1..ln) = x = l1 OR ... OR x = ln (FALSE for n = 0), NOT IN = NOT of it;
/// CASE x WHEN w THEN t = CASE WHEN x = w THEN t
fn or_chain(e: &E) -> E {
    let f = |x: &E| bx(or_chain(x));
    match e {
        E::InList(neg, x, l) => {
            let x = or_chain(x);
            let mut it = l.iter().map(|y| E::Cmp("=", bx(x.clone()), bx(or_chain(y))));
            let chain = match it.next() {
                None => E::Lit(Ty::Bool, V::B(false)),
                Some(first) => it.fold(first, |acc, c| E::Or(bx(acc), bx(c))),
            };
            if *neg {
                E::Not(bx(chain))
            } else {
                chain
            }
        }
        E::Col(_) | E::Lit(..) => e.clone(),
        E::Arith(op, l, r) => E::Arith(*op, f(l), f(r)),
        E::Cmp(op, l, r) => E::Cmp(op, f(l), f(r)),
        E::And(l, r) => E::And(f(l), f(r)),
        E::Or(l, r) => E::Or(f(l), f(r)),
        E::Not(x) => E::Not(f(x)),
        E::IsNull(n, x) => E::IsNull(*n, f(x)),
        E::Distinct(n, l, r) => E::Distinct(*n, f(l), f(r)),
        E::Between(n, a, b, c) => E::Between(*n, f(a), f(b), f(c)),
        E::Case(ws, els) => E::Case(ws.iter().map(|(w, t)| (or_chain(w), or_chain(t))).collect(), els.as_ref().map(|x| f(x))),
        // CASE x WHEN w THEN t ... = CASE WHEN x = w THEN t ...
        E::SimpleCase(o, ws, els) => {
            let o = or_chain(o);
            E::Case(ws.iter().map(|(w, t)| (E::Cmp("=", bx(o.clone()), bx(or_chain(w))), or_chain(t))).collect(), els.as_ref().map(|x| f(x)))
        }
        E::Like(n, c, l, r) => E::Like(*n, *c, f(l), f(r)),
    }
}
/// an InListExpr that carries a static filter ("IN (SET)") although one of its list elements is not a literal
fn frozen_inlist(p: &Arc<dyn PhysicalExpr>) -> bool {
    if let Some(il) = p.downcast_ref::<InListExpr>() {
        let shown = format!("{il}");
        let own = shown.find(" IN (SET)").map_or(false, |_| true);
        // the Display of a nested IN also contains "(SET)"; decide on this node: a static filter exists iff
        // "<expr> [NOT ]IN (SET) (" follows the needle's own Display
        let needle = format!("{}", il.expr());
        let own = own && (shown.starts_with(&format!("{needle} IN (SET)")) || shown.starts_with(&format!("{needle} NOT IN (SET)")));
        if own && il.list().iter().any(|x| !x.is::<Literal>()) {
            return true;
        }
    }
    p.children().iter().any(|c| frozen_inlist(c))
}

// ------------------------------------------------------------------ planning / evaluation
struct Ctx {
    sch: Sch,
    schema: Arc<Schema>,
    df: DFSchema,
    simp: ExprSimplifier,
    props: ExecutionProps,
}
fn ctx(cols: Vec<(String, Ty)>) -> Ctx {
    let schema = Arc::new(Schema::new(cols.iter().map(|(n, t)| Field::new(n, t.dt(), true)).collect::<Vec<_>>()));
    let df = DFSchema::try_from(schema.as_ref().clone()).unwrap();
    let sc = SimplifyContext::builder().with_schema(Arc::new(df.clone())).build();
    Ctx { sch: Sch { cols }, schema, df, simp: ExprSimplifier::new(sc), props: ExecutionProps::new() }
}
fn plan(c: &Ctx, e: &E) -> Result<Arc<dyn PhysicalExpr>, String> {
    let le = to_expr(e, &c.sch);
    let le = c.simp.coerce(le, &c.df).map_err(|e| format!("coerce: {e}"))?;
    create_physical_expr(&le, &c.df, &c.props, &PhysicalPlanningContext::default()).map_err(|e| format!("plan: {e}"))
}
fn batch(c: &Ctx, cols: &[Vec<V>], n: usize) -> RecordBatch {
    let arrays: Vec<ArrayRef> = c.sch.cols.iter().zip(cols).map(|((_, t), vs)| t.array(vs)).collect();
    if arrays.is_empty() {
        RecordBatch::try_new_with_options(c.schema.clone(), vec![], &arrow::record_batch::RecordBatchOptions::new().with_row_count(Some(n))).unwrap()
    } else {
        RecordBatch::try_new(c.schema.clone(), arrays).unwrap()
    }
}
fn short(e: String) -> String {
    e.chars().take(160).collect()
}
fn eval(p: &Arc<dyn PhysicalExpr>, b: &RecordBatch) -> Result<Vec<V>, String> {
    let r = catch_unwind(AssertUnwindSafe(|| -> Result<Vec<V>, String> {
        let v = p.evaluate(b).map_err(|e| short(format!("{e}")))?;
        let a = v.into_array(b.num_rows()).map_err(|e| short(format!("{e}")))?;
        if a.len() != b.num_rows() {
            return Err(format!("PANIC-LIKE: result has {} rows for a batch of {}", a.len(), b.num_rows()));
        }
        read_col(&a)
    }));
    match r {
        Ok(x) => x,
        Err(p) => Err(format!("PANIC: {}", p.downcast_ref::<String>().cloned().or(p.downcast_ref::<&str>().map(|s| s.to_string())).unwrap_or_default())),
    }
}
/// values at the selected rows
fn eval_sel(p: &Arc<dyn PhysicalExpr>, b: &RecordBatch, sel: &[bool]) -> Result<Vec<V>, String> {
    let r = catch_unwind(AssertUnwindSafe(|| -> Result<Vec<V>, String> {
        let mask = BooleanArray::from(sel.to_vec());
        let v = p.evaluate_selection(b, &mask).map_err(|e| short(format!("{e}")))?;
        let a = v.into_array(b.num_rows()).map_err(|e| short(format!("{e}")))?;
        if a.len() != b.num_rows() {
            return Err(format!("PANIC-LIKE: result has {} rows for a batch of {}", a.len(), b.num_rows()));
        }
        let all = read_col(&a)?;
        Ok(all.into_iter().zip(sel).filter(|(_, s)| **s).map(|(v, _)| v).collect())
    }));
    match r {
        Ok(x) => x,
        Err(p) => Err(format!("PANIC: {}", p.downcast_ref::<String>().cloned().or(p.downcast_ref::<&str>().map(|s| s.to_string())).unwrap_or_default())),
    }
}

// ------------------------------------------------------------------ generators
const STRS: [&str; 9] = ["", "a", "b", "ab", "abc", "B", "a%", "_b", "\u{e9}"];
fn gen_val(r: &mut Rng, t: Ty, nullp: u64) -> V {
    if r.chance(nullp, 100) {
        return V::Null;
    }
    match t {
        Ty::I64 => {
            if r.chance(1, 40) {
                V::I(*r.pick(&[i64::MAX, i64::MIN, i64::MAX - 1, 1 << 40, -(1 << 40)]))
            } else {
                V::I(r.range(-3, 6))
            }
        }
        Ty::I32 => V::I(if r.chance(1, 20) { *r.pick(&[i32::MAX as i64, i32::MIN as i64]) } else { r.range(-3, 40) }),
        Ty::I16 => V::I(if r.chance(1, 20) { *r.pick(&[i16::MAX as i64, i16::MIN as i64]) } else { r.range(-3, 40) }),
        Ty::I8 => V::I(if r.chance(1, 20) { *r.pick(&[127i64, -128]) } else { r.range(-3, 40) }),
        Ty::U8 => V::I(if r.chance(1, 20) { *r.pick(&[255i64, 0]) } else { r.range(0, 40) }),
        Ty::Bool => V::B(r.chance(1, 2)),
        Ty::Str => V::S(r.pick(&STRS).to_string()),
    }
}
fn base_cols() -> Vec<(String, Ty)> {
    vec![("a".into(), Ty::I64), ("b".into(), Ty::I64), ("p".into(), Ty::Bool), ("q".into(), Ty::Bool), ("s".into(), Ty::Str), ("t".into(), Ty::Str)]
}
fn gen_rows(r: &mut Rng, cols: &[(String, Ty)], n: usize) -> Vec<Vec<V>> {
    // per column: null density 0 / 15 / 60 / 100
    cols.iter()
        .map(|(_, t)| {
            let np = *r.pick(&[0u64, 15, 15, 15, 60, 100]);
            (0..n).map(|_| gen_val(r, *t, np)).collect()
        })
        .collect()
}
fn pick_n(r: &mut Rng) -> usize {
    match r.below(10) {
        0 => 0,
        1 => 1,
        2 | 3 => r.range(2, 6) as usize,
        4..=7 => r.range(7, 24) as usize,
        8 => r.range(25, 70) as usize,
        _ => r.range(100, 140) as usize,
    }
}
fn col_of(r: &mut Rng, cols: &[(String, Ty)], t: Ty) -> Option<usize> {
    let c: Vec<usize> = cols.iter().enumerate().filter(|(_, (_, ty))| *ty == t).map(|(i, _)| i).collect();
    if c.is_empty() {
        None
    } else {
        Some(*r.pick(&c))
    }
}
const CMPS: [&str; 6] = ["=", "<>", "<", "<=", ">", ">="];

/// expression of type t; `fallible`: may contain unguarded divisions
fn gen(r: &mut Rng, cols: &[(String, Ty)], t: Ty, d: u32, like: bool) -> E {
    let leaf = d == 0 || r.chance(1, 5);
    if leaf {
        if r.chance(3, 5) {
            if let Some(i) = col_of(r, cols, t) {
                return E::Col(i);
            }
        }
        return E::Lit(t, gen_val(r, t, 12));
    }
    match t {
        Ty::I64 => match r.below(10) {
            0..=3 => E::Arith(*r.pick(&['+', '-', '*']), bx(gen(r, cols, t, d - 1, like)), bx(gen(r, cols, t, d - 1, like))),
            4 | 5 => guarded_div(r, cols, d, like),
            6 | 7 => gen_case(r, cols, t, d, like),
            _ => gen_simple_case(r, cols, t, d, like),
        },
        Ty::Str => match r.below(4) {
            0 | 1 => gen_case(r, cols, t, d, like),
            2 => gen_simple_case(r, cols, t, d, like),
            _ => E::Lit(t, gen_val(r, t, 12)),
        },
        Ty::Bool => {
            let ot = *r.pick(&[Ty::I64, Ty::I64, Ty::Str, Ty::Bool]);
            match r.below(if like { 15 } else { 14 }) {
                0 | 1 => E::Cmp(*r.pick(&CMPS), bx(gen(r, cols, ot, d - 1, like)), bx(gen(r, cols, ot, d - 1, like))),
                2 | 3 => E::And(bx(gen(r, cols, t, d - 1, like)), bx(gen(r, cols, t, d - 1, like))),
                4 | 5 => E::Or(bx(gen(r, cols, t, d - 1, like)), bx(gen(r, cols, t, d - 1, like))),
                6 => E::Not(bx(gen(r, cols, t, d - 1, like))),
                7 => E::IsNull(r.chance(1, 2), bx(gen(r, cols, ot, d - 1, like))),
                8 => E::Distinct(r.chance(1, 2), bx(gen(r, cols, ot, d - 1, like)), bx(gen(r, cols, ot, d - 1, like))),
                9 => {
                    let bt = *r.pick(&[Ty::I64, Ty::Str]);
                    E::Between(r.chance(1, 3), bx(gen(r, cols, bt, d - 1, like)), bx(gen(r, cols, bt, d - 1, like)), bx(gen(r, cols, bt, d - 1, like)))
                }
                10 | 11 => {
                    let k = r.range(0, 6) as usize;
                    let dynamic = r.chance(1, 3);
                    let list = (0..k).map(|i| if dynamic && i == 0 { gen(r, cols, ot, d - 1, like) } else { E::Lit(ot, gen_val(r, ot, 15)) }).collect();
                    // (an empty list is not SQL; the planner folds `NULL::Utf8 IN ()` to NULL while the dynamic path
                    // gives FALSE for every needle: keep literal needles away from empty lists)
                    let needle = match (k, col_of(r, cols, ot)) {
                        (0, Some(c)) => E::Col(c),
                        _ => gen(r, cols, ot, d - 1, like),
                    };
                    let list = if k == 0 && !matches!(needle, E::Col(_)) { vec![E::Lit(ot, gen_val(r, ot, 15))] } else { list };
                    E::InList(r.chance(1, 2), bx(needle), list)
                }
                12 => gen_case(r, cols, t, d, like),
                13 => gen_simple_case(r, cols, t, d, like),
                _ => E::Like(r.chance(1, 3), r.chance(1, 3), bx(gen(r, cols, Ty::Str, d - 1, like)), bx(if r.chance(2, 3) { E::Lit(Ty::Str, V::S(r.pick(&["a%", "%b", "_b", "%", "a_c", "", "A%", "%\u{e9}"]).to_string())) } else { gen(r, cols, Ty::Str, d - 1, like) })),
            }
        }
        _ => E::Lit(t, gen_val(r, t, 12)),
    }
}
/// CASE WHEN y <> 0 THEN x / y [ELSE e] END   or   CASE WHEN y = 0 THEN e ELSE x % y END : never fails on any row
fn guarded_div(r: &mut Rng, cols: &[(String, Ty)], d: u32, like: bool) -> E {
    let y = if r.chance(3, 4) { col_of(r, cols, Ty::I64).map(E::Col).unwrap_or(E::Lit(Ty::I64, V::I(0))) } else { E::Arith('-', bx(gen(r, cols, Ty::I64, 0, like)), bx(E::Lit(Ty::I64, V::I(r.range(0, 3))))) };
    let x = gen(r, cols, Ty::I64, d.saturating_sub(2), like);
    let op = *r.pick(&['/', '%']);
    let other = if r.chance(1, 2) { Some(bx(gen(r, cols, Ty::I64, d.saturating_sub(2), like))) } else { None };
    if r.chance(1, 2) {
        E::Case(vec![(E::Cmp("<>", bx(y.clone()), bx(E::Lit(Ty::I64, V::I(0)))), E::Arith(op, bx(x), bx(y)))], other)
    } else {
        let e = other.map(|b| *b).unwrap_or(E::Lit(Ty::I64, V::Null));
        let mut ws = vec![(E::Cmp("=", bx(y.clone()), bx(E::Lit(Ty::I64, V::I(0)))), e)];
        if r.chance(1, 2) {
            ws.push((gen(r, cols, Ty::Bool, d.saturating_sub(2), like), gen(r, cols, Ty::I64, 0, like)));
        }
        E::Case(ws, Some(bx(E::Arith(op, bx(x), bx(y)))))
    }
}
fn gen_case(r: &mut Rng, cols: &[(String, Ty)], t: Ty, d: u32, like: bool) -> E {
    let k = *r.pick(&[1usize, 1, 2, 2, 3, 4]);
    let ws = (0..k).map(|_| (gen(r, cols, Ty::Bool, d - 1, like), gen(r, cols, t, d - 1, like))).collect();
    let els = if r.chance(3, 5) { Some(bx(gen(r, cols, t, d - 1, like))) } else { None };
    E::Case(ws, els)
}
fn gen_simple_case(r: &mut Rng, cols: &[(String, Ty)], t: Ty, d: u32, like: bool) -> E {
    let ot = *r.pick(&[Ty::I64, Ty::Str, Ty::Bool]);
    let k = r.range(1, 5) as usize;
    let lits = r.chance(2, 3);
    let op = gen(r, cols, ot, d - 1, like);
    let ws = (0..k)
        .map(|_| if lits { (E::Lit(ot, gen_val(r, ot, 10)), E::Lit(t, gen_val(r, t, 10))) } else { (gen(r, cols, ot, d - 1, like), gen(r, cols, t, d - 1, like)) })
        .collect();
    let els = if r.chance(3, 5) { Some(bx(if lits { E::Lit(t, gen_val(r, t, 10)) } else { gen(r, cols, t, d - 1, like) })) } else { None };
    E::SimpleCase(bx(op), ws, els)
}

// ------------------------------------------------------------------ one case
struct Case_ {
    stream: &'static str,
    kind: u32,
    cols: Vec<(String, Ty)>,
    rows: Vec<Vec<V>>, // column major
    n: usize,
    sel: Option<Vec<bool>>,
    e: E,
}

fn run_case(id: u64, c: &Case_) {
    let cx = ctx(c.cols.clone());
    let head = format!(
        "{{\"id\":{id},\"stream\":\"{}\",\"kind\":{},\"ncols\":{},\"n\":{},\"types\":[{}],\"rows\":[{}],\"sel\":{},\"expr\":{},\"ref\":{}",
        c.stream,
        c.kind,
        c.cols.len(),
        c.n,
        c.cols.iter().map(|(_, t)| format!("\"{t:?}\"")).collect::<Vec<_>>().join(","),
        (0..c.n).map(|i| format!("[{}]", c.rows.iter().map(|col| jv(&col[i])).collect::<Vec<_>>().join(","))).collect::<Vec<_>>().join(","),
        c.sel.as_ref().map(|s| format!("[{}]", s.iter().map(|b| b.to_string()).collect::<Vec<_>>().join(","))).unwrap_or("null".into()),
        to_json(&c.e),
        !has_like(&c.e)
    );
    let p = match catch_unwind(AssertUnwindSafe(|| plan(&cx, &c.e))) {
        Ok(Ok(p)) => p,
        Ok(Err(e)) => {
            println!("{head},\"planned\":false,\"err\":{},\"ok\":true}}", json_str(&short(e)));
            return;
        }
        Err(_) => {
            println!("{head},\"planned\":false,\"err\":\"PANIC in planning\",\"ok\":false,\"why\":\"panic in planning\"}}");
            return;
        }
    };
    let b = batch(&cx, &c.rows, c.n);
    let vec_res = match &c.sel {
        None => eval(&p, &b),
        Some(s) => eval_sel(&p, &b, s),
    };
    // row by row: the same physical expression on every single-row slice (selected rows only under a selection)
    let idx: Vec<usize> = (0..c.n).filter(|i| c.sel.as_ref().map_or(true, |s| s[*i])).collect();
    let rowwise: Vec<Result<V, String>> = idx.iter().map(|&i| eval(&p, &b.slice(i, 1)).map(|mut v| v.remove(0))).collect();
    let row_errs = rowwise.iter().filter(|x| x.is_err()).count();
    let mut why = String::new();
    match &vec_res {
        Ok(vs) => {
            if vs.len() != idx.len() {
                why = format!("vectorised result has {} values for {} rows", vs.len(), idx.len());
            } else {
                for (k, rw) in rowwise.iter().enumerate() {
                    if let Ok(v) = rw {
                        if *v != vs[k] {
                            why = format!("row {}: vectorised {} but row-by-row {}", idx[k], jv(&vs[k]), jv(v));
                            break;
                        }
                    }
                }
            }
        }
        Err(e) => {
            if e.starts_with("PANIC") {
                why = format!("vectorised evaluation panicked: {e}");
            } else if row_errs == 0 {
                why = format!("vectorised evaluation raised an error that no single row raises: {e}");
            }
        }
    }
    if why.is_empty() {
        if let Some(Err(e)) = rowwise.iter().find(|x| matches!(x, Err(e) if e.starts_with("PANIC"))) {
            why = format!("row-by-row evaluation panicked: {e}");
        }
    }
    // second direct oracle: IN lists / CASE x WHEN against their definitions (OR chain of equalities, searched
    // CASE), planned and evaluated by the same engine
    let frozen = frozen_inlist(&p);
    let mut alt_txt = "null".to_string();
    if why.is_empty() && has_defn(&c.e) {
        let alt_e = or_chain(&c.e);
        if let Ok(Ok(ap)) = catch_unwind(AssertUnwindSafe(|| plan(&cx, &alt_e))) {
            let alt = match &c.sel {
                None => eval(&ap, &b),
                Some(s) => eval_sel(&ap, &b, s),
            };
            if let (Ok(vs), Ok(avs)) = (&vec_res, &alt) {
                alt_txt = jcol(avs);
                if let Some(k) = (0..vs.len().min(avs.len())).find(|&k| vs[k] != avs[k]) {
                    why = format!("result differs from the definitional rewriting (IN list as OR-chain of equalities, CASE x WHEN w as CASE WHEN x = w) at row {}: {} vs {}{}", idx[k], jv(&vs[k]), jv(&avs[k]), if frozen { " (non-constant list element frozen into a static filter)" } else { "" });
                }
            }
        }
    }
    let disp = format!("{p}");
    println!(
        "{head},\"planned\":true,\"frozen_inlist\":{frozen},\"or_chain\":{alt_txt},\"phys\":{},\"obs\":{},\"err\":{},\"row_errs\":{},\"rowwise\":{},\"ok\":{},\"why\":{}}}",
        json_str(&disp.chars().take(1500).collect::<String>()),
        vec_res.as_ref().map(|v| jcol(v)).unwrap_or("null".into()),
        vec_res.as_ref().err().map(|e| json_str(e)).unwrap_or("null".into()),
        row_errs,
        if row_errs == 0 { jcol(&rowwise.iter().map(|x| x.clone().unwrap()).collect::<Vec<_>>()) } else { "null".into() },
        why.is_empty(),
        json_str(&why)
    );
}

// ------------------------------------------------------------------ streams
fn lit(t: Ty, v: V) -> E {
    E::Lit(t, v)
}
fn li(i: i64) -> E {
    E::Lit(Ty::I64, V::I(i))
}

fn s_inlist(r: &mut Rng) -> Case_ {
    let t = *r.pick(&[Ty::I64, Ty::I64, Ty::I32, Ty::I16, Ty::I8, Ty::U8, Ty::Str, Ty::Bool]);
    let cols = vec![("x".to_string(), t), ("y".to_string(), t)];
    let n = pick_n(r);
    let rows = gen_rows(r, &cols, n);
    let mode = r.below(10);
    let k = if mode == 9 { r.range(0, 3) } else { *r.pick(&[1i64, 2, 3, 4, 8, 9, 16, 17, 18, 32, 33, 34, 40]) } as usize;
    let nullp = *r.pick(&[0u64, 0, 10, 30, 100]);
    let mut list: Vec<E> = (0..k).map(|_| lit(t, gen_val(r, t, nullp))).collect();
    let neg = r.chance(1, 2);
    let (stream, kind, needle) = match mode {
        0..=5 => ("inset", 1, E::Col(0)),
        6 => ("inscalar", 6, lit(t, gen_val(r, t, 20))),
        _ => {
            // dynamic: a column among the list elements (or an empty list)
            if !list.is_empty() {
                let at = r.below(list.len() as u64) as usize;
                list[at] = E::Col(1);
            }
            ("inchain", 2, E::Col(0))
        }
    };
    Case_ { stream, kind, cols, rows, n, sel: None, e: E::InList(neg, bx(needle), list) }
}

fn s_lookup(r: &mut Rng) -> Case_ {
    let ot = *r.pick(&[Ty::I64, Ty::I64, Ty::I32, Ty::I8, Ty::Str, Ty::Bool]);
    let tt = *r.pick(&[Ty::I64, Ty::Str, Ty::Bool]);
    let cols = vec![("x".to_string(), ot)];
    let n = pick_n(r);
    let rows = gen_rows(r, &cols, n);
    let k = r.range(2, 20) as usize;
    let ws: Vec<(E, E)> = (0..k).map(|_| (lit(ot, gen_val(r, ot, 12)), lit(tt, gen_val(r, tt, 12)))).collect();
    let els = if r.chance(2, 3) { Some(bx(lit(tt, gen_val(r, tt, 10)))) } else { None };
    let operand = if r.chance(1, 8) { lit(ot, gen_val(r, ot, 25)) } else { E::Col(0) };
    // all WHEN literals NULL -> no lookup table (falls back to case_when_with_expr): tie by rows only
    let all_null = ws.iter().all(|(w, _)| matches!(w, E::Lit(_, V::Null)));
    let scalar = !matches!(operand, E::Col(_));
    Case_ { stream: "lookup", kind: if all_null || scalar { 0 } else { 4 }, cols, rows, n, sel: None, e: E::SimpleCase(bx(operand), ws, els) }
}

fn s_mask(r: &mut Rng) -> Case_ {
    let cols = base_cols();
    let n = pick_n(r);
    let rows = gen_rows(r, &cols, n);
    let t = *r.pick(&[Ty::I64, Ty::I64, Ty::Str, Ty::Bool]);
    let k = r.range(2, 6) as usize;
    let mut ws: Vec<(E, E)> = Vec::new();
    for _ in 0..k {
        if t == Ty::I64 && r.chance(1, 2) {
            // a branch that fails exactly on the rows its condition excludes
            let y = E::Col(*r.pick(&[0usize, 1]));
            let x = gen(r, &cols, Ty::I64, 1, false);
            ws.push((E::Cmp(*r.pick(&["<>", ">", "<"]), bx(y.clone()), bx(li(0))), E::Arith(*r.pick(&['/', '%']), bx(x), bx(y))));
        } else {
            ws.push((gen(r, &cols, Ty::Bool, 2, false), gen(r, &cols, t, 1, false)));
        }
    }
    let els = if r.chance(3, 5) { Some(bx(gen(r, &cols, t, 1, false))) } else { None };
    Case_ { stream: "mask", kind: 3, cols, rows, n, sel: None, e: E::Case(ws, els) }
}

fn s_case1(r: &mut Rng) -> Case_ {
    let cols = base_cols();
    let n = pick_n(r);
    let rows = gen_rows(r, &cols, n);
    let t = *r.pick(&[Ty::I64, Ty::Str, Ty::Bool]);
    let cond = gen(r, &cols, Ty::Bool, 2, false);
    let e = match r.below(6) {
        0 => E::Case(vec![(cond, E::Col(col_of(r, &cols, t).unwrap()))], None), // InfallibleExprOrNull
        1 => E::Case(vec![(cond, lit(t, gen_val(r, t, 10)))], Some(bx(lit(t, gen_val(r, t, 10))))), // ScalarOrScalar
        2 => {
            // ExpressionOrExpression with a division guarded by the condition
            let y = E::Col(*r.pick(&[0usize, 1]));
            E::Case(vec![(E::Cmp("<>", bx(y.clone()), bx(li(0))), E::Arith('/', bx(gen(r, &cols, Ty::I64, 1, false)), bx(y.clone())))], if r.chance(1, 2) { Some(bx(E::Arith('+', bx(y), bx(li(1))))) } else { None })
        }
        3 => {
            let y = E::Col(*r.pick(&[0usize, 1]));
            E::Case(vec![(E::Cmp("=", bx(y.clone()), bx(li(0))), gen(r, &cols, Ty::I64, 1, false))], Some(bx(E::Arith('%', bx(gen(r, &cols, Ty::I64, 1, false)), bx(y)))))
        }
        4 => E::Case(vec![(cond, gen(r, &cols, t, 2, false))], if r.chance(1, 2) { Some(bx(gen(r, &cols, t, 2, false))) } else { None }),
        _ => {
            // CASE x WHEN expr THEN expr (case_when_with_expr)
            let ot = *r.pick(&[Ty::I64, Ty::Str, Ty::Bool]);
            let k = r.range(1, 4) as usize;
            let ws = (0..k).map(|_| (gen(r, &cols, ot, 1, false), gen(r, &cols, t, 1, false))).collect();
            E::SimpleCase(bx(gen(r, &cols, ot, 1, false)), ws, if r.chance(1, 2) { Some(bx(gen(r, &cols, t, 1, false))) } else { None })
        }
    };
    Case_ { stream: "case1", kind: 0, cols, rows, n, sel: None, e }
}

fn s_logic(r: &mut Rng, allow_guard: bool) -> Case_ {
    // columns: a (the guard / divisor), b, p (left side boolean), q
    let cols = base_cols();
    let n = match r.below(8) {
        0 => r.range(0, 1) as usize,
        1 => r.range(2, 5) as usize,
        _ => r.range(5, 60) as usize,
    };
    let is_and = r.chance(1, 2);
    let mut rows = gen_rows(r, &cols, n);
    // shape of the left side p: 0 all "neutral", 1 all "absorbing", 2 sparse neutral (<= 20%), 3 dense, 4 with NULLs
    let shape = r.below(5);
    let neutral = is_and; // AND: true rows need the RHS; OR: false rows need it
    let sparse_k = if n >= 5 { r.range(1, (n / 5) as i64) as usize } else { 0 };
    let mut pcol: Vec<V> = (0..n)
        .map(|i| match shape {
            0 => V::B(neutral),
            1 => V::B(!neutral),
            2 => V::B(if i < sparse_k { neutral } else { !neutral }),
            3 => V::B(r.chance(1, 2)),
            _ => {
                if r.chance(1, 4) {
                    V::Null
                } else {
                    V::B(r.chance(1, 2))
                }
            }
        })
        .collect();
    // shuffle
    for i in (1..n).rev() {
        let j = r.below(i as u64 + 1) as usize;
        pcol.swap(i, j);
    }
    rows[2] = pcol;
    // (the guard relies on the density of the whole batch: not under evaluate_selection, which filters first)
    let guard = r.chance(1, 2) && shape <= 2 && allow_guard;
    let (l, rr) = if guard {
        // left side decides exactly where the division is defined:  a <> 0 AND b / a > 1   |   a = 0 OR b / a > 1
        // lay out `a` from p so that the density of the left side is the chosen shape
        let acol: Vec<V> = rows[2].iter().map(|p| if *p == V::B(true) { if is_and { V::I(r.range(1, 4)) } else { V::I(0) } } else { if is_and { V::I(0) } else { V::I(r.range(1, 4)) } }).collect();
        rows[0] = acol;
        let l = E::Cmp(if is_and { "<>" } else { "=" }, bx(E::Col(0)), bx(li(0)));
        let rr = E::Cmp(*r.pick(&[">", "=", "<"]), bx(E::Arith(*r.pick(&['/', '%']), bx(E::Col(1)), bx(E::Col(0)))), bx(li(r.range(0, 2))));
        (l, rr)
    } else {
        let rr = match r.below(4) {
            0 => lit(Ty::Bool, gen_val(r, Ty::Bool, 30)),
            1 => E::Col(3),
            _ => gen(r, &cols, Ty::Bool, 2, false),
        };
        (E::Col(2), rr)
    };
    let e = if is_and { E::And(bx(l), bx(rr)) } else { E::Or(bx(l), bx(rr)) };
    Case_ { stream: "logic", kind: 5, cols, rows, n, sel: None, e }
}

fn s_tree(r: &mut Rng, like: bool) -> Case_ {
    let cols = base_cols();
    let n = pick_n(r);
    let rows = gen_rows(r, &cols, n);
    let t = *r.pick(&[Ty::Bool, Ty::Bool, Ty::I64, Ty::Str]);
    let d = r.range(1, 4) as u32;
    let e = gen(r, &cols, if like { Ty::Bool } else { t }, d, like);
    Case_ { stream: if like { "like" } else { "tree" }, kind: 0, cols, rows, n, sel: None, e }
}

fn s_sel(r: &mut Rng) -> Case_ {
    let mut c = match r.below(4) {
        0 => s_mask(r),
        1 => s_inlist(r),
        2 => s_logic(r, false),
        _ => s_tree(r, false),
    };
    let shape = r.below(5);
    c.sel = Some((0..c.n).map(|_| match shape { 0 => true, 1 => false, 2 => r.chance(1, 8), 3 => r.chance(7, 8), _ => r.chance(1, 2) }).collect());
    c.stream = "sel";
    c.kind = 0;
    c
}

/// fixed cases that run first on every seed (edge cases of every strategy; witnesses of listed findings)
fn fixed() -> Vec<Case_> {
    let mut out = Vec::new();
    let i = |v: i64| V::I(v);
    // witness of KF-C33-1: a IN (CASE WHEN b > 0 THEN b WHEN b < 0 THEN 0 - b ELSE 0 END, 7): the CASE evaluates to the scalar 0
    // on an empty batch, so InListExpr::try_new takes the list for constant and freezes it into a static filter
    for neg in [false, true] {
        let abs_b = E::Case(vec![(E::Cmp(">", bx(E::Col(1)), bx(li(0))), E::Col(1)), (E::Cmp("<", bx(E::Col(1)), bx(li(0))), E::Arith('-', bx(li(0)), bx(E::Col(1))))], Some(bx(li(0))));
        out.push(Case_ { stream: "witness", kind: 0, cols: vec![("a".into(), Ty::I64), ("b".into(), Ty::I64)], rows: vec![vec![i(1), i(2), i(0), i(3)], vec![i(1), i(-2), i(5), i(0)]], n: 4, sel: None, e: E::InList(neg, bx(E::Col(0)), vec![abs_b, li(7)]) });
    }
    // witness of KF-C33-2: a batch of 0 rows; no WHEN has a true row, so ELSE (a constant expression that fails) is
    // evaluated on the empty batch:  CASE WHEN a > 0 THEN 1 WHEN a <= 0 THEN 2 ELSE 1 / 0 END
    {
        let e = E::Case(vec![(E::Cmp(">", bx(E::Col(0)), bx(li(0))), li(1)), (E::Cmp("<=", bx(E::Col(0)), bx(li(0))), li(2))], Some(bx(E::Arith('/', bx(li(1)), bx(li(0))))));
        out.push(Case_ { stream: "witness", kind: 0, cols: vec![("a".into(), Ty::I64), ("b".into(), Ty::I64)], rows: vec![vec![], vec![]], n: 0, sel: None, e });
    }
    // IN (SET) with NULL in the list, NOT IN, NULL needle
    for neg in [false, true] {
        for t in [Ty::I64, Ty::I8, Ty::Str] {
            let vals: Vec<V> = if t == Ty::Str { vec![V::S("a".into()), V::S("b".into()), V::Null, V::S("".into())] } else { vec![i(1), i(2), V::Null, i(-128)] };
            for with_null in [false, true] {
                let mut list: Vec<E> = vec![lit(t, vals[0].clone()), lit(t, vals[0].clone())];
                if with_null {
                    list.push(lit(t, V::Null));
                }
                out.push(Case_ { stream: "inset", kind: 1, cols: vec![("x".into(), t), ("y".into(), t)], rows: vec![vals.clone(), vals.clone()], n: 4, sel: None, e: E::InList(neg, bx(E::Col(0)), list) });
            }
            // 17 and 40 distinct literals (hash set / past every branchless cut-off)
            if t != Ty::Str {
                for k in [17i64, 40] {
                    let list: Vec<E> = (0..k).map(|j| lit(t, i(j))).chain(std::iter::once(lit(t, V::Null))).collect();
                    out.push(Case_ { stream: "inset", kind: 1, cols: vec![("x".into(), t), ("y".into(), t)], rows: vec![vec![i(0), i(39), i(40), V::Null, i(-1)], vec![V::Null; 5]], n: 5, sel: None, e: E::InList(neg, bx(E::Col(0)), list) });
                }
            }
        }
        // empty list (dynamic path), NULL needle
        out.push(Case_ { stream: "inchain", kind: 2, cols: vec![("x".into(), Ty::I64), ("y".into(), Ty::I64)], rows: vec![vec![i(1), V::Null], vec![i(1), V::Null]], n: 2, sel: None, e: E::InList(neg, bx(E::Col(0)), vec![]) });
        // dynamic chain whose first element already matches every row (early exit) followed by a NULL
        out.push(Case_ { stream: "inchain", kind: 2, cols: vec![("x".into(), Ty::I64), ("y".into(), Ty::I64)], rows: vec![vec![i(1), i(2)], vec![i(1), i(2)]], n: 2, sel: None, e: E::InList(neg, bx(E::Col(0)), vec![E::Col(1), lit(Ty::I64, V::Null), li(7)]) });
    }
    // lookup table: duplicates, NULL literal, NULL operand, missing ELSE
    for els in [None, Some(bx(li(0)))] {
        out.push(Case_ {
            stream: "lookup",
            kind: 4,
            cols: vec![("x".into(), Ty::I64)],
            rows: vec![vec![i(1), i(2), i(3), V::Null, i(0)]],
            n: 5,
            sel: None,
            e: E::SimpleCase(bx(E::Col(0)), vec![(li(1), li(10)), (lit(Ty::I64, V::Null), li(99)), (li(1), li(11)), (li(2), lit(Ty::I64, V::Null)), (li(0), li(5))], els),
        });
    }
    // guarded division in a multi-branch CASE, missing ELSE, NULL condition
    let cols = base_cols();
    let rows = vec![vec![i(6), i(1), V::Null, i(7), i(0)], vec![i(3), i(0), i(2), V::Null, i(0)], vec![V::B(true); 5], vec![V::B(false); 5], vec![V::Null; 5], vec![V::Null; 5]];
    out.push(Case_ { stream: "mask", kind: 3, cols: cols.clone(), rows: rows.clone(), n: 5, sel: None, e: E::Case(vec![(E::Cmp("<>", bx(E::Col(1)), bx(li(0))), E::Arith('/', bx(E::Col(0)), bx(E::Col(1)))), (E::Cmp("=", bx(E::Col(0)), bx(li(0))), li(-1))], None) });
    // pre-selection AND with a guarded division
    let n = 10;
    let a: Vec<V> = (0..n).map(|k| if k == 3 { i(2) } else { i(0) }).collect();
    let b: Vec<V> = (0..n).map(|k| i(k as i64)).collect();
    let rows2 = vec![a, b, vec![V::B(true); n], vec![V::B(false); n], vec![V::Null; n], vec![V::Null; n]];
    out.push(Case_ { stream: "logic", kind: 5, cols: cols.clone(), rows: rows2, n, sel: None, e: E::And(bx(E::Cmp("<>", bx(E::Col(0)), bx(li(0)))), bx(E::Cmp(">", bx(E::Arith('/', bx(E::Col(1)), bx(E::Col(0)))), bx(li(0))))) });
    out
}

fn main() {
    let args: Vec<String> = std::env::args().collect();
    let seed: u64 = arg(&args, "--seed", "1").parse().unwrap();
    let n: u64 = arg(&args, "--n", "300").parse().unwrap();
    let only: i64 = arg(&args, "--case", "-1").parse().unwrap();
    std::panic::set_hook(Box::new(|_| {}));
    let mut id = 1_000_000u64;
    for c in fixed() {
        if only < 0 || only as u64 == id {
            run_case(id, &c);
        }
        id += 1;
    }
    let mut r = Rng::new(seed);
    for id in 0..n {
        // one PRNG state; every case consumes from it, so --case replays by regenerating the prefix
        let c = match id % 12 {
            0 | 1 => s_inlist(&mut r),
            2 => s_lookup(&mut r),
            3 | 4 => s_mask(&mut r),
            5 => s_case1(&mut r),
            6 | 7 => s_logic(&mut r, true),
            8 => s_sel(&mut r),
            9 => s_tree(&mut r, true),
            _ => s_tree(&mut r, false),
        };
        if only < 0 || only as u64 == id {
            run_case(id, &c);
        }
    }
}
