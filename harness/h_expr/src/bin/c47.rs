//! C47: mixed-type comparisons are order-independent and exact for integers/decimals.
//!
//! Runs the REAL implementation:
//!   * `comparison_coercion(a, b)` for every ordered pair of a type universe            (k = "ty")
//!   * `col(l) op col(r)` -> TypeCoercionRewriter (ExprSimplifier::coerce) -> create_physical_expr
//!     -> PhysicalExpr::evaluate on boundary values, six operators                      (k = "cmp")
//!   * `col(l) op lit(y)` / `lit(x) op col(r)` -> coerce -> ExprSimplifier::simplify (unwrap_cast & co)
//!     -> create_physical_expr -> evaluate                                               (k = "lit")
//!   * `col(l) IN (lit y1, .., lit yk)` -> coerce -> create_physical_expr -> evaluate    (k = "inl")
//! and prints one JSON object per line.  "ok" is the direct oracle (i128 mathematics) where the bin
//! can compute it (integer operands); decimal rows are judged by the Python driver with exact integers.
use std::panic::{catch_unwind, AssertUnwindSafe};
use std::sync::Arc;

use arrow::array::*;
use arrow::datatypes::i256;
use arrow::datatypes::{DataType, Field, IntervalUnit, Schema, TimeUnit};
use arrow::record_batch::RecordBatch;
use datafusion_common::{DFSchema, ScalarValue};
use datafusion_expr::execution_props::ExecutionProps;
use datafusion_expr::physical_planning_context::PhysicalPlanningContext;
use datafusion_expr::simplify::SimplifyContext;
use datafusion_expr::{binary_expr, col, lit, Expr, ExprSchemable, Operator};
use datafusion_expr_common::type_coercion::binary::comparison_coercion;
use datafusion_optimizer::simplify_expressions::ExprSimplifier;
use datafusion_physical_expr::{create_physical_expr, PhysicalExpr};
use h_util::{arg, json_str, Rng};

const OPS: [Operator; 6] = [Operator::Eq, Operator::NotEq, Operator::Lt, Operator::LtEq, Operator::Gt, Operator::GtEq];

fn tag(dt: &DataType) -> String {
    use DataType::*;
    match dt {
        Null => "Null".into(),
        Int8 => "I8".into(),
        Int16 => "I16".into(),
        Int32 => "I32".into(),
        Int64 => "I64".into(),
        UInt8 => "U8".into(),
        UInt16 => "U16".into(),
        UInt32 => "U32".into(),
        UInt64 => "U64".into(),
        Float16 => "F16".into(),
        Float32 => "F32".into(),
        Float64 => "F64".into(),
        Decimal32(p, s) => format!("D32:{p}:{s}"),
        Decimal64(p, s) => format!("D64:{p}:{s}"),
        Decimal128(p, s) => format!("D128:{p}:{s}"),
        Decimal256(p, s) => format!("D256:{p}:{s}"),
        other => format!("X:{other:?}"),
    }
}

fn int_types() -> Vec<DataType> {
    use DataType::*;
    vec![Int8, Int16, Int32, Int64, UInt8, UInt16, UInt32, UInt64]
}

fn int_range(dt: &DataType) -> (i128, i128) {
    use DataType::*;
    match dt {
        Int8 => (i8::MIN as i128, i8::MAX as i128),
        Int16 => (i16::MIN as i128, i16::MAX as i128),
        Int32 => (i32::MIN as i128, i32::MAX as i128),
        Int64 => (i64::MIN as i128, i64::MAX as i128),
        UInt8 => (0, u8::MAX as i128),
        UInt16 => (0, u16::MAX as i128),
        UInt32 => (0, u32::MAX as i128),
        UInt64 => (0, u64::MAX as i128),
        _ => unreachable!(),
    }
}

fn pow10(k: u32) -> i256 {
    i256::from_i128(10).pow_wrapping(k)
}

/// the decimal grid: valid types (1 <= p <= max, 0 <= s <= p)
fn dec_grid() -> Vec<DataType> {
    use DataType::*;
    vec![
        Decimal32(1, 0), Decimal32(5, 2), Decimal32(9, 0), Decimal32(9, 4), Decimal32(9, 9),
        Decimal64(3, 0), Decimal64(10, 0), Decimal64(10, 2), Decimal64(18, 0), Decimal64(18, 6), Decimal64(18, 18),
        Decimal128(10, 2), Decimal128(19, 0), Decimal128(20, 0), Decimal128(30, 15), Decimal128(38, 0),
        Decimal128(38, 10), Decimal128(38, 20), Decimal128(38, 38),
        Decimal256(20, 0), Decimal256(40, 0), Decimal256(50, 10), Decimal256(76, 0), Decimal256(76, 38),
        Decimal256(76, 51), Decimal256(76, 52), Decimal256(76, 76),
    ]
}

fn dec_parts(dt: &DataType) -> Option<(u32, u8, i8)> {
    use DataType::*;
    match dt {
        Decimal32(p, s) => Some((32, *p, *s)),
        Decimal64(p, s) => Some((64, *p, *s)),
        Decimal128(p, s) => Some((128, *p, *s)),
        Decimal256(p, s) => Some((256, *p, *s)),
        _ => None,
    }
}

fn make_array(dt: &DataType, vals: &[Option<i256>]) -> ArrayRef {
    use DataType::*;
    macro_rules! prim {
        ($A:ty, $t:ty) => {
            Arc::new(<$A>::from(vals.iter().map(|v| v.map(|v| v.to_i128().unwrap() as $t)).collect::<Vec<Option<$t>>>())) as ArrayRef
        };
    }
    match dt {
        Int8 => prim!(Int8Array, i8),
        Int16 => prim!(Int16Array, i16),
        Int32 => prim!(Int32Array, i32),
        Int64 => prim!(Int64Array, i64),
        UInt8 => prim!(UInt8Array, u8),
        UInt16 => prim!(UInt16Array, u16),
        UInt32 => prim!(UInt32Array, u32),
        UInt64 => prim!(UInt64Array, u64),
        Decimal32(p, s) => Arc::new(
            Decimal32Array::from(vals.iter().map(|v| v.map(|v| v.to_i128().unwrap() as i32)).collect::<Vec<_>>())
                .with_precision_and_scale(*p, *s)
                .unwrap(),
        ),
        Decimal64(p, s) => Arc::new(
            Decimal64Array::from(vals.iter().map(|v| v.map(|v| v.to_i128().unwrap() as i64)).collect::<Vec<_>>())
                .with_precision_and_scale(*p, *s)
                .unwrap(),
        ),
        Decimal128(p, s) => Arc::new(
            Decimal128Array::from(vals.iter().map(|v| v.map(|v| v.to_i128().unwrap())).collect::<Vec<_>>())
                .with_precision_and_scale(*p, *s)
                .unwrap(),
        ),
        Decimal256(p, s) => Arc::new(Decimal256Array::from(vals.to_vec()).with_precision_and_scale(*p, *s).unwrap()),
        _ => unreachable!("make_array {dt:?}"),
    }
}

fn scalar(dt: &DataType, v: i256) -> ScalarValue {
    use DataType::*;
    let w = v.to_i128();
    match dt {
        Int8 => ScalarValue::Int8(Some(w.unwrap() as i8)),
        Int16 => ScalarValue::Int16(Some(w.unwrap() as i16)),
        Int32 => ScalarValue::Int32(Some(w.unwrap() as i32)),
        Int64 => ScalarValue::Int64(Some(w.unwrap() as i64)),
        UInt8 => ScalarValue::UInt8(Some(w.unwrap() as u8)),
        UInt16 => ScalarValue::UInt16(Some(w.unwrap() as u16)),
        UInt32 => ScalarValue::UInt32(Some(w.unwrap() as u32)),
        UInt64 => ScalarValue::UInt64(Some(w.unwrap() as u64)),
        Decimal32(p, s) => ScalarValue::Decimal32(Some(w.unwrap() as i32), *p, *s),
        Decimal64(p, s) => ScalarValue::Decimal64(Some(w.unwrap() as i64), *p, *s),
        Decimal128(p, s) => ScalarValue::Decimal128(Some(w.unwrap()), *p, *s),
        Decimal256(p, s) => ScalarValue::Decimal256(Some(v), *p, *s),
        _ => unreachable!(),
    }
}

struct Ctx {
    schema: Arc<Schema>,
    df: DFSchema,
    simp: ExprSimplifier,
    props: ExecutionProps,
}

fn ctx(a: &DataType, b: &DataType) -> Ctx {
    let schema = Arc::new(Schema::new(vec![Field::new("l", a.clone(), true), Field::new("r", b.clone(), true)]));
    let df = DFSchema::try_from(schema.as_ref().clone()).unwrap();
    let sc = SimplifyContext::builder().with_schema(Arc::new(df.clone())).build();
    Ctx { schema, df, simp: ExprSimplifier::new(sc), props: ExecutionProps::new() }
}

/// the real planner path for one expression: type coercion (+ optional simplifier) + physical planning
fn plan(c: &Ctx, e: Expr, simplify: bool) -> Result<(Expr, Arc<dyn PhysicalExpr>), String> {
    let e = c.simp.coerce(e, &c.df).map_err(|e| format!("coerce: {e}"))?;
    let e = if simplify { c.simp.simplify(e).map_err(|e| format!("simplify: {e}"))? } else { e };
    let p = create_physical_expr(&e, &c.df, &c.props, &PhysicalPlanningContext::default()).map_err(|e| format!("plan: {e}"))?;
    Ok((e, p))
}

fn eval(p: &Arc<dyn PhysicalExpr>, batch: &RecordBatch) -> Result<Vec<Option<bool>>, String> {
    let v = p.evaluate(batch).map_err(|e| format!("{e}"))?;
    let arr = v.into_array(batch.num_rows()).map_err(|e| format!("{e}"))?;
    let b = arr.as_any().downcast_ref::<BooleanArray>().ok_or_else(|| format!("not boolean: {:?}", arr.data_type()))?;
    Ok((0..b.len()).map(|i| if b.is_null(i) { None } else { Some(b.value(i)) }).collect())
}

fn jb(v: Option<bool>) -> &'static str {
    match v {
        Some(true) => "true",
        Some(false) => "false",
        None => "null",
    }
}

fn jv(v: &Option<i256>) -> String {
    match v {
        Some(v) => v.to_string(),
        None => "null".into(),
    }
}

fn truth(op: usize, x: i128, y: i128) -> bool {
    match op {
        0 => x == y,
        1 => x != y,
        2 => x < y,
        3 => x <= y,
        4 => x > y,
        _ => x >= y,
    }
}

/// operand types of the coerced comparison (what both sides were cast to)
fn coerced_types(c: &Ctx, e: &Expr) -> String {
    match e {
        Expr::BinaryExpr(b) => {
            let l = b.left.get_type(&c.df).map(|t| tag(&t)).unwrap_or_else(|e| format!("E:{e}"));
            let r = b.right.get_type(&c.df).map(|t| tag(&t)).unwrap_or_else(|e| format!("E:{e}"));
            if l == r { l } else { format!("{l}|{r}") }
        }
        _ => "?".into(),
    }
}

/// column-vs-column comparison of every (x, y) row; rows may contain NULL
fn run_cmp(a: &DataType, b: &DataType, rows: &[(Option<i256>, Option<i256>)], ints: bool, batch_mode: bool) {
    let (ta, tb) = (tag(a), tag(b));
    let c = ctx(a, b);
    let planned = catch_unwind(AssertUnwindSafe(|| {
        let mut v = vec![];
        let mut ct = String::new();
        for op in OPS {
            let (e, p) = plan(&c, binary_expr(col("l"), op, col("r")), false)?;
            ct = coerced_types(&c, &e);
            v.push(p);
        }
        Ok::<_, String>((v, ct))
    }));
    let (ps, ct) = match planned {
        Ok(Ok(x)) => x,
        Ok(Err(e)) => {
            println!("{{\"k\":\"cmp\",\"a\":\"{ta}\",\"b\":\"{tb}\",\"plan_err\":{},\"rows\":{}}}", json_str(&e), rows.len());
            return;
        }
        Err(_) => {
            println!("{{\"k\":\"cmp\",\"a\":\"{ta}\",\"b\":\"{tb}\",\"plan_panic\":true,\"rows\":{}}}", rows.len());
            return;
        }
    };
    let mk = |rs: &[(Option<i256>, Option<i256>)]| {
        let xs: Vec<_> = rs.iter().map(|r| r.0).collect();
        let ys: Vec<_> = rs.iter().map(|r| r.1).collect();
        RecordBatch::try_new(c.schema.clone(), vec![make_array(a, &xs), make_array(b, &ys)]).unwrap()
    };
    // whole batch first (the way the engine runs); row by row when a row makes the batch fail
    let mut results: Vec<Result<[Option<bool>; 6], String>> = vec![];
    let mut whole_ok = false;
    if batch_mode {
        let batch = mk(rows);
        let r = catch_unwind(AssertUnwindSafe(|| ps.iter().map(|p| eval(p, &batch)).collect::<Result<Vec<_>, _>>()));
        if let Ok(Ok(cols)) = r {
            whole_ok = true;
            for i in 0..rows.len() {
                let mut o = [None; 6];
                for k in 0..6 {
                    o[k] = cols[k][i];
                }
                results.push(Ok(o));
            }
        }
    }
    if !whole_ok {
        for row in rows {
            let batch = mk(std::slice::from_ref(row));
            let r = catch_unwind(AssertUnwindSafe(|| ps.iter().map(|p| eval(p, &batch)).collect::<Result<Vec<_>, _>>()));
            results.push(match r {
                Ok(Ok(cols)) => {
                    let mut o = [None; 6];
                    for k in 0..6 {
                        o[k] = cols[k][0];
                    }
                    Ok(o)
                }
                Ok(Err(e)) => Err(e),
                Err(_) => Err("PANIC".into()),
            });
        }
    }
    for (row, res) in rows.iter().zip(results) {
        let head = format!("{{\"k\":\"cmp\",\"a\":\"{ta}\",\"b\":\"{tb}\",\"x\":{},\"y\":{},\"ct\":\"{ct}\"", jv(&row.0), jv(&row.1));
        match res {
            Ok(o) => {
                let rs: Vec<&str> = o.iter().map(|v| jb(*v)).collect();
                let okf = if ints {
                    let ok = match (row.0, row.1) {
                        (Some(x), Some(y)) => (0..6).all(|k| o[k] == Some(truth(k, x.to_i128().unwrap(), y.to_i128().unwrap()))),
                        _ => o.iter().all(|v| v.is_none()),
                    };
                    format!(",\"ok\":{ok}")
                } else {
                    String::new()
                };
                println!("{head},\"res\":[{}]{okf}}}", rs.join(","));
            }
            Err(e) => {
                let okf = if ints { ",\"ok\":false" } else { "" };
                let pn = if e.as_str() == "PANIC" { ",\"panic\":true" } else { "" };
                println!("{head},\"err\":{}{pn}{okf}}}", json_str(&e));
            }
        }
    }
}

/// column-vs-literal through coercion + the simplifier (cast unwrapping) + physical planning
fn run_lit(a: &DataType, b: &DataType, xs: &[i256], ys: &[i256], lit_left: bool) {
    // lit_left = false:  l(a) op lit(y:b), rows x in xs      lit_left = true:  lit(x:a) op r(b), rows y in ys
    let (ta, tb) = (tag(a), tag(b));
    let c = ctx(a, b);
    let (lits, colvals) = if lit_left { (xs, ys) } else { (ys, xs) };
    let cv: Vec<Option<i256>> = colvals.iter().map(|v| Some(*v)).collect();
    let dummy: Vec<Option<i256>> = colvals.iter().map(|_| None).collect();
    let batch = if lit_left {
        RecordBatch::try_new(c.schema.clone(), vec![make_array(a, &dummy), make_array(b, &cv)]).unwrap()
    } else {
        RecordBatch::try_new(c.schema.clone(), vec![make_array(a, &cv), make_array(b, &dummy)]).unwrap()
    };
    for lv in lits {
        for (k, op) in OPS.iter().enumerate() {
            let e = if lit_left {
                binary_expr(lit(scalar(a, *lv)), *op, col("r"))
            } else {
                binary_expr(col("l"), *op, lit(scalar(b, *lv)))
            };
            let r = catch_unwind(AssertUnwindSafe(|| {
                let (e, p) = plan(&c, e, true)?;
                let out = eval(&p, &batch)?;
                Ok::<_, String>((format!("{e}"), out))
            }));
            let head = format!(
                "{{\"k\":\"lit\",\"a\":\"{ta}\",\"b\":\"{tb}\",\"lit_left\":{lit_left},\"lit\":{lv},\"op\":{k},\"vals\":[{}]",
                colvals.iter().map(|v| v.to_string()).collect::<Vec<_>>().join(",")
            );
            match r {
                Ok(Ok((sx, out))) => {
                    let li = lv.to_i128().unwrap();
                    let ok = colvals.iter().zip(out.iter()).all(|(v, o)| {
                        let v = v.to_i128().unwrap();
                        let (x, y) = if lit_left { (li, v) } else { (v, li) };
                        *o == Some(truth(k, x, y))
                    });
                    println!("{head},\"sx\":{},\"res\":[{}],\"ok\":{ok}}}", json_str(&sx), out.iter().map(|v| jb(*v)).collect::<Vec<_>>().join(","));
                }
                Ok(Err(e)) => println!("{head},\"err\":{},\"ok\":false}}", json_str(&e)),
                Err(_) => println!("{head},\"err\":\"PANIC\",\"panic\":true,\"ok\":false}}"),
            }
        }
    }
}

/// l(a) IN (lit y1 : b, ..) must equal "exists i, x = y_i"
fn run_inlist(a: &DataType, b: &DataType, xs: &[i256], ys: &[i256]) {
    let (ta, tb) = (tag(a), tag(b));
    let c = ctx(a, b);
    let cv: Vec<Option<i256>> = xs.iter().map(|v| Some(*v)).collect();
    let dummy: Vec<Option<i256>> = xs.iter().map(|_| None).collect();
    let batch = RecordBatch::try_new(c.schema.clone(), vec![make_array(a, &cv), make_array(b, &dummy)]).unwrap();
    for negated in [false, true] {
        let e = col("l").in_list(ys.iter().map(|y| lit(scalar(b, *y))).collect(), negated);
        let r = catch_unwind(AssertUnwindSafe(|| {
            let (_, p) = plan(&c, e, false)?;
            eval(&p, &batch)
        }));
        let head = format!(
            "{{\"k\":\"inl\",\"a\":\"{ta}\",\"b\":\"{tb}\",\"neg\":{negated},\"xs\":[{}],\"list\":[{}]",
            xs.iter().map(|v| v.to_string()).collect::<Vec<_>>().join(","),
            ys.iter().map(|v| v.to_string()).collect::<Vec<_>>().join(",")
        );
        match r {
            Ok(Ok(out)) => {
                let ok = xs.iter().zip(out.iter()).all(|(x, o)| *o == Some(ys.iter().any(|y| y == x) != negated));
                println!("{head},\"res\":[{}],\"ok\":{ok}}}", out.iter().map(|v| jb(*v)).collect::<Vec<_>>().join(","));
            }
            Ok(Err(e)) => println!("{head},\"err\":{},\"ok\":false}}", json_str(&e)),
            Err(_) => println!("{head},\"err\":\"PANIC\",\"panic\":true,\"ok\":false}}"),
        }
    }
}

fn int_base(dt: &DataType) -> Vec<i128> {
    let (lo, hi) = int_range(dt);
    let mut v = vec![lo, lo + 1, -1, 0, 1, hi - 1, hi];
    v.retain(|x| *x >= lo && *x <= hi);
    v
}

fn int_vals(a: &DataType, b: &DataType, extra: &[i128]) -> Vec<i256> {
    let (lo, hi) = int_range(a);
    let (blo, bhi) = int_range(b);
    let mut v = int_base(a);
    v.extend(int_base(b));
    v.extend([blo - 1, bhi + 1, (1i128 << 53) - 1, 1i128 << 53, (1i128 << 53) + 1, -(1i128 << 53) - 1]);
    v.extend(extra.iter().copied());
    v.retain(|x| *x >= lo && *x <= hi);
    v.sort();
    v.dedup();
    v.into_iter().map(i256::from_i128).collect()
}

fn dec_vals(dt: &DataType, other: &DataType, rng_extra: &[i256]) -> Vec<i256> {
    // unscaled values of a decimal type (|v| <= 10^p - 1) or values of an integer type
    if let Some((_, p, s)) = dec_parts(dt) {
        let max = pow10(p as u32).wrapping_sub(i256::ONE);
        let one = pow10(s.max(0) as u32);
        let mut v = vec![i256::ZERO, i256::ONE, i256::MINUS_ONE, max, max.wrapping_neg(), one, one.wrapping_add(i256::ONE)];
        if s >= 1 {
            let tenth = pow10(s as u32 - 1);
            v.push(tenth.wrapping_mul(i256::from_i128(15)));
            v.push(tenth.wrapping_mul(i256::from_i128(-15)));
            v.push(tenth.wrapping_mul(i256::from_i128(5)));
            v.push(tenth.wrapping_mul(i256::from_i128(19)));
        }
        v.push(one.wrapping_mul(i256::from_i128(2)));
        // the other side's integer boundaries expressed in this type (x.0) and next to them
        if other.is_integer() {
            let (lo, hi) = int_range(other);
            for b in [lo, hi, hi - 1] {
                let w = i256::from_i128(b).wrapping_mul(one);
                v.push(w);
                v.push(w.wrapping_add(i256::ONE));
            }
        }
        v.extend(rng_extra.iter().map(|r| r.wrapping_rem(max.wrapping_add(i256::ONE))));
        v.retain(|x| *x <= max && *x >= max.wrapping_neg());
        v.sort();
        v.dedup();
        v
    } else {
        let mut v = int_vals(dt, dt, &[]);
        v.extend([2i128, 10, 100, -2, -10].iter().map(|x| i256::from_i128(*x)));
        let (lo, hi) = int_range(dt);
        v.retain(|x| x.to_i128().map(|x| x >= lo && x <= hi).unwrap_or(false));
        v.sort();
        v.dedup();
        v
    }
}

fn main() {
    std::panic::set_hook(Box::new(|_| {}));
    let args: Vec<String> = std::env::args().collect();
    let args = &args[1..];
    let seed: u64 = arg(args, "--seed", "1").parse().unwrap();
    let n: usize = arg(args, "--n", "2000").parse().unwrap();
    let mut rng = Rng::new(seed);
    use DataType::*;

    // ---------------------------------------------------------------- (0) --mode wrap
    // Only meaningful when this bin is built WITHOUT overflow-checks (cargo profile `nochk`, i.e. the
    // arithmetic of a --release build): Decimal256 pairs whose coercion / cast arithmetic overflows i8.
    if arg(args, "--mode", "all") == "wrap" {
        let a = Decimal256(76, 0);
        let big: Vec<i256> = [6i128, -6, 1, 7, 58, -58]
            .iter()
            .map(|v| i256::from_i128(*v))
            .chain([pow10(24), pow10(25), pow10(30), pow10(30).wrapping_neg(), pow10(75)])
            .collect();
        for b in [Decimal256(76, 51), Decimal256(76, 52), Decimal256(76, 60), Decimal256(76, 76), Decimal256(60, 55)] {
            for (l, r) in [(a.clone(), b.clone()), (Decimal256(70, 2), b.clone()), (Decimal256(40, 0), b.clone())] {
                let mut xs = dec_vals(&l, &r, &[]);
                xs.extend(big.iter().copied());
                let (_, p, _) = dec_parts(&l).unwrap();
                let max = pow10(p as u32).wrapping_sub(i256::ONE);
                xs.retain(|x| *x <= max && *x >= max.wrapping_neg());
                let ys = dec_vals(&r, &l, &[]);
                let mut rows = vec![];
                let mut rows_rev = vec![];
                for x in &xs {
                    for y in &ys {
                        rows.push((Some(*x), Some(*y)));
                        rows_rev.push((Some(*y), Some(*x)));
                    }
                }
                run_cmp(&l, &r, &rows, false, false);
                run_cmp(&r, &l, &rows_rev, false, false);
            }
        }
        return;
    }

    // ---------------------------------------------------------------- (1) coerced type, all ordered pairs
    let mut uni: Vec<DataType> = vec![Null];
    uni.extend(int_types());
    uni.extend([Float16, Float32, Float64]);
    uni.extend(dec_grid());
    // odd (p, s): negative scale, scale > precision, out-of-range precision (DataType does not validate)
    uni.extend([
        Decimal128(38, -5), Decimal128(5, 10), Decimal256(76, -100), Decimal32(9, -128), Decimal64(0, 0),
        Decimal256(255, 127), Decimal128(200, -128), Decimal32(12, 3),
    ]);
    for _ in 0..(n / 100).max(6) {
        let var = rng.below(4);
        let maxp = [9u64, 18, 38, 76][var as usize];
        let p = if rng.chance(1, 8) { rng.below(256) as u8 } else { 1 + rng.below(maxp) as u8 };
        let s = if rng.chance(1, 8) { rng.range(-128, 127) as i8 } else { rng.below(p as u64 + 1).min(127) as i8 };
        uni.push(match var {
            0 => Decimal32(p, s),
            1 => Decimal64(p, s),
            2 => Decimal128(p, s),
            _ => Decimal256(p, s),
        });
    }
    // types outside the Coq model: only the implementation-side symmetry oracle applies
    uni.extend([
        Utf8, LargeUtf8, Utf8View, Boolean, Binary, Date32, Date64,
        Timestamp(TimeUnit::Nanosecond, None), Timestamp(TimeUnit::Millisecond, Some("UTC".into())),
        Timestamp(TimeUnit::Second, Some("+01:00".into())), Time32(TimeUnit::Second), Time64(TimeUnit::Nanosecond),
        Duration(TimeUnit::Millisecond), Interval(IntervalUnit::MonthDayNano),
        Dictionary(Box::new(Int32), Box::new(Utf8)), Dictionary(Box::new(Int8), Box::new(Int64)),
        Dictionary(Box::new(Int16), Box::new(UInt64)), Dictionary(Box::new(Int32), Box::new(Decimal128(10, 2))),
        List(Arc::new(Field::new("item", Int32, true))), List(Arc::new(Field::new("item", Int64, true))),
    ]);
    {
        let mut seen = std::collections::HashSet::new();
        uni.retain(|t| seen.insert(tag(t)));
    }
    let co = |a: &DataType, b: &DataType| catch_unwind(|| comparison_coercion(a, b));
    for a in &uni {
        for b in &uni {
            let ab = co(a, b);
            let ba = co(b, a);
            let show = |r: &std::thread::Result<Option<DataType>>| match r {
                Ok(Some(t)) => format!("\"{}\"", tag(t).replace('\\', "\\\\").replace('"', "\\\"")),
                Ok(None) => "null".to_string(),
                Err(_) => "\"PANIC\"".to_string(),
            };
            let same = match (&ab, &ba) {
                (Ok(x), Ok(y)) => x == y,
                (Err(_), Err(_)) => true,
                _ => false,
            };
            println!(
                "{{\"k\":\"ty\",\"a\":{},\"b\":{},\"r\":{},\"rev\":{},\"ok\":{same}}}",
                json_str(&tag(a)), json_str(&tag(b)), show(&ab), show(&ba)
            );
        }
    }

    // ---------------------------------------------------------------- (2) integer x integer, all 64 ordered pairs
    let ints = int_types();
    // seeded extra values per type (drawn once so that (a,b) and (b,a) use mirrored rows)
    let extras: Vec<Vec<i128>> = ints
        .iter()
        .map(|t| {
            let (lo, hi) = int_range(t);
            (0..(n / 500).max(2))
                .map(|_| {
                    let bits = 1 + rng.below(64) as u32;
                    let m = (rng.next() >> (64 - bits)) as i128;
                    let v = if lo < 0 && rng.chance(1, 2) { -m } else { m };
                    v.clamp(lo, hi)
                })
                .collect()
        })
        .collect();
    for (ia, a) in ints.iter().enumerate() {
        for (ib, b) in ints.iter().enumerate() {
            let mut ex = extras[ia].clone();
            ex.extend(extras[ib].iter().copied());
            let xs = int_vals(a, b, &ex);
            let ys = int_vals(b, a, &ex);
            let mut rows: Vec<(Option<i256>, Option<i256>)> = vec![];
            for x in &xs {
                for y in &ys {
                    rows.push((Some(*x), Some(*y)));
                }
            }
            rows.push((None, Some(ys[0])));
            rows.push((Some(xs[0]), None));
            rows.push((None, None));
            run_cmp(a, b, &rows, true, true);
            // literal on either side: boundary literals only
            let lits_y: Vec<i256> = int_vals(b, a, &[]);
            let lits_x: Vec<i256> = int_vals(a, b, &[]);
            run_lit(a, b, &xs, &lits_y, false);
            run_lit(a, b, &lits_x, &ys, true);
            run_inlist(a, b, &xs, &lits_y);
        }
    }

    // ---------------------------------------------------------------- (3) decimal x {decimal, integer}
    let grid = dec_grid();
    let mut pairs: Vec<(DataType, DataType)> = vec![];
    // fixed pairs that exercise every arm: same variant, cross variant, decimal x int (decimal result),
    // decimal x int falling through to numerical_coercion (integer result), precision cap, i8 overflow
    for (a, b) in [
        (Decimal32(5, 2), Int32), (Decimal32(5, 2), Int64), (Decimal32(9, 4), UInt32), (Decimal32(5, 2), UInt64),
        (Decimal64(10, 2), Int64), (Decimal64(18, 6), UInt64), (Decimal32(5, 2), Int16), (Decimal32(5, 2), Int8),
        (Decimal64(10, 2), Int32), (Decimal64(10, 2), UInt16), (Decimal128(10, 2), Int64), (Decimal128(10, 2), UInt64),
        (Decimal128(38, 20), Int64), (Decimal128(38, 38), Int8), (Decimal128(38, 10), Decimal128(38, 20)),
        (Decimal128(10, 2), Decimal128(38, 38)), (Decimal32(5, 2), Decimal64(18, 6)), (Decimal32(9, 9), Decimal64(18, 0)),
        (Decimal64(18, 18), Decimal128(20, 0)), (Decimal128(38, 0), Decimal256(76, 38)), (Decimal128(38, 38), Decimal256(76, 0)),
        (Decimal256(76, 0), Decimal256(76, 51)), (Decimal256(76, 0), Decimal256(76, 52)), (Decimal256(76, 0), Decimal256(76, 76)),
        (Decimal256(40, 0), Decimal256(76, 76)), (Decimal256(20, 0), Int64), (Decimal256(76, 38), UInt64),
        (Decimal32(1, 0), Decimal32(9, 9)), (Decimal64(3, 0), Decimal64(18, 18)), (Decimal128(19, 0), Int64),
    ] {
        pairs.push((a, b));
    }
    let mut all_t: Vec<DataType> = grid.clone();
    all_t.extend(int_types());
    for _ in 0..(n / 50).max(20) {
        let a = rng.pick(&grid).clone();
        let b = rng.pick(&all_t).clone();
        pairs.push((a, b));
    }
    {
        let mut seen = std::collections::HashSet::new();
        pairs.retain(|(a, b)| a != b && seen.insert((tag(a), tag(b))) && !seen.contains(&(tag(b), tag(a))));
    }
    let r1 = i256::from_parts(rng.next() as u128 | ((rng.next() as u128) << 64), (rng.next() >> 2) as i128);
    let r2 = i256::from_i128(rng.next() as i128).wrapping_neg();
    for (a, b) in pairs {
        let xs = dec_vals(&a, &b, &[r1, r2]);
        let ys = dec_vals(&b, &a, &[r1, r2]);
        let mut rows = vec![];
        let mut rows_rev = vec![];
        for x in &xs {
            for y in &ys {
                rows.push((Some(*x), Some(*y)));
                rows_rev.push((Some(*y), Some(*x)));
            }
        }
        run_cmp(&a, &b, &rows, false, false);
        run_cmp(&b, &a, &rows_rev, false, false);
    }
}
