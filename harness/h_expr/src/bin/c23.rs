use datafusion_expr_common::interval_arithmetic::{apply_operator, satisfy_greater, Interval};
use datafusion_expr_common::operator::Operator;
use datafusion_physical_expr::intervals::cp_solver::propagate_arithmetic;

fn iv(l: Option<i64>, u: Option<i64>) -> Interval { Interval::make(l, u).unwrap() }
fn iv8(l: Option<i8>, u: Option<i8>) -> Interval { Interval::make(l, u).unwrap() }

fn main() {
    println!("mul {:?}", iv(Some(i64::MIN), Some(1)).mul(iv(Some(-1), Some(2))));
    println!("mul8 {:?}", iv8(Some(-128), Some(1)).mul(iv8(Some(-1), Some(2))));
    println!("div {:?}", iv(Some(-5), Some(0)).div(iv(Some(2), Some(3))));
    println!("div {:?}", iv(Some(10), Some(20)).div(iv(Some(-3), Some(0))));
    println!("div {:?}", iv(Some(-5), Some(1)).div(iv(Some(2), Some(3))));
    println!("div {:?}", iv(Some(7), Some(7)).div(iv(None, Some(-1))));
    println!("div {:?}", iv(Some(7), Some(7)).div(iv(Some(2), None)));
    println!("prop div {:?}", propagate_arithmetic(&Operator::Divide, &iv(Some(3), Some(3)), &iv(Some(7), Some(7)), &iv(Some(2), Some(2))));
    println!("sg {:?}", satisfy_greater(&iv(None, None), &iv(Some(i64::MAX), Some(i64::MAX)), true));
    println!("add {:?}", apply_operator(&Operator::Plus, &iv(Some(i64::MAX), Some(i64::MAX)), &iv(Some(1), Some(5))));
    println!("add8 {:?}", apply_operator(&Operator::Plus, &iv8(Some(127), Some(127)), &iv8(Some(1), Some(5))));
}
