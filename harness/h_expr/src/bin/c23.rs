//! C23: interval arithmetic and constraint propagation are sound.
//!
//! Runs the REAL implementation (datafusion_expr_common::interval_arithmetic, physical-expr cp_solver)
//! on generated signed-integer (Int8/Int32/Int64) and Boolean intervals and prints one JSON object per
//! line: the inputs, the observed result and `"ok"` = the direct soundness oracle evaluated on the
//! implementation's own result with exact i128 arithmetic over sampled member values (all members when
//! the interval is small; endpoints, neighbours, overflow-directed values and random ones otherwise).
//!   k = "arith"  apply_operator(Plus|Minus|Multiply|Divide)            (model-compared + oracle)
//!   k = "cmp"    apply_operator(Eq|NotEq|Gt|GtEq|Lt|LtEq)              (model-compared + oracle)
//!   k = "bool"   and / or / not on boolean intervals                   (model-compared + oracle)
//!   k = "set"    intersect / union / contains / contains_value / cardinality
//!   k = "satgt"  satisfy_greater
//!   k = "parith" cp_solver::propagate_arithmetic
//!   k = "pcmp"   cp_solver::propagate_comparison
//!   k = "cp"     ExprIntervalGraph::{evaluate_bounds, update_ranges} on random expression trees (oracle only)
//!   k = "float"  Float64 add/sub/mul/div containment (oracle only; floats are never compared with the model)
use std::panic::{catch_unwind, AssertUnwindSafe};
use std::sync::Arc;

use arrow::datatypes::{DataType, Field, Schema};
use datafusion_common::ScalarValue;
use datafusion_expr_common::interval_arithmetic::{apply_operator, satisfy_greater, Interval};
use datafusion_expr_common::operator::Operator;
use datafusion_physical_expr::expressions::{BinaryExpr, Column, Literal};
use datafusion_physical_expr::intervals::cp_solver::{
    propagate_arithmetic, propagate_comparison, ExprIntervalGraph, PropagationResult,
};
use datafusion_physical_expr::PhysicalExpr;
use h_util::{arg, json_str, Rng};

type B = Option<i64>;
type I = (B, B);
type BI = (bool, bool);

const AOPS: [Operator; 4] = [Operator::Plus, Operator::Minus, Operator::Multiply, Operator::Divide];
const ANAMES: [&str; 4] = ["add", "sub", "mul", "div"];
const COPS: [Operator; 6] = [Operator::Eq, Operator::Gt, Operator::GtEq, Operator::Lt, Operator::LtEq, Operator::NotEq];
const CNAMES: [&str; 6] = ["eq", "gt", "gteq", "lt", "lteq", "noteq"];
const BFALSE: BI = (false, false);
const BTRUE: BI = (true, true);
const BUNC: BI = (false, true);

fn tmin(bits: u32) -> i64 {
    if bits == 64 { i64::MIN } else { -(1i64 << (bits - 1)) }
}
fn tmax(bits: u32) -> i64 {
    if bits == 64 { i64::MAX } else { (1i64 << (bits - 1)) - 1 }
}

fn sv(bits: u32, v: B) -> ScalarValue {
    match bits {
        8 => ScalarValue::Int8(v.map(|x| x as i8)),
        16 => ScalarValue::Int16(v.map(|x| x as i16)),
        32 => ScalarValue::Int32(v.map(|x| x as i32)),
        _ => ScalarValue::Int64(v),
    }
}
fn mk(bits: u32, i: I) -> Interval {
    Interval::try_new(sv(bits, i.0), sv(bits, i.1)).expect("generated interval is valid")
}
fn sv_get(s: &ScalarValue) -> B {
    match s {
        ScalarValue::Int8(o) => o.map(|x| x as i64),
        ScalarValue::Int16(o) => o.map(|x| x as i64),
        ScalarValue::Int32(o) => o.map(|x| x as i64),
        ScalarValue::Int64(o) => *o,
        other => panic!("unexpected endpoint {other:?}"),
    }
}
fn get(i: &Interval) -> I {
    (sv_get(i.lower()), sv_get(i.upper()))
}
fn bmk(b: BI) -> Interval {
    Interval::try_new(ScalarValue::Boolean(Some(b.0)), ScalarValue::Boolean(Some(b.1))).expect("boolean interval")
}
fn bget(i: &Interval) -> BI {
    match (i.lower(), i.upper()) {
        (ScalarValue::Boolean(Some(l)), ScalarValue::Boolean(Some(u))) => (*l, *u),
        _ => panic!("unexpected boolean interval {i:?}"),
    }
}

fn jb(b: B) -> String {
    match b { Some(v) => v.to_string(), None => "null".into() }
}
fn ji(i: I) -> String {
    format!("[{},{}]", jb(i.0), jb(i.1))
}
fn jbi(b: BI) -> String {
    format!("[{},{}]", b.0, b.1)
}
fn joi(o: &Option<I>) -> String {
    match o { Some(i) => ji(*i), None => "null".into() }
}
fn joii(o: &Option<(I, I)>) -> String {
    match o { Some((a, b)) => format!("[{},{}]", ji(*a), ji(*b)), None => "null".into() }
}

/// run a call of the real implementation; errors and panics are data
fn call<T>(f: impl FnOnce() -> datafusion_common::Result<T>) -> Result<T, String> {
    match catch_unwind(AssertUnwindSafe(f)) {
        Ok(Ok(v)) => Ok(v),
        Ok(Err(e)) => Err(format!("err:{}", e.to_string().lines().next().unwrap_or(""))),
        Err(p) => {
            let m = if let Some(s) = p.downcast_ref::<&str>() { s.to_string() }
                    else if let Some(s) = p.downcast_ref::<String>() { s.clone() } else { "?".into() };
            Err(format!("panic:{}", m.lines().next().unwrap_or("")))
        }
    }
}

/// the oracle's verdict: a result must pass the containment check, an Err answer cannot be unsound, a panic fails
fn ok_of<T>(res: &Result<T, String>, oracle: bool) -> bool {
    match res { Ok(_) => oracle, Err(e) => !e.starts_with("panic:") }
}

fn rand_in(r: &mut Rng, lo: i64, hi: i64) -> i64 {
    let span = (hi as i128 - lo as i128 + 1) as u128;
    (lo as i128 + ((r.next() as u128) % span) as i128) as i64
}

fn gen_bound(r: &mut Rng, bits: u32) -> B {
    let (mn, mx) = (tmin(bits), tmax(bits));
    let clip = |v: i64| v.max(mn).min(mx);
    match r.below(16) {
        0 | 1 => None,
        2..=7 => Some(r.range(-6, 6)),
        8 | 9 => Some(*r.pick(&[mn, mn + 1, mn + 2, mx, mx - 1, mx - 2])),
        10 | 11 => {
            let h = 1i64 << (bits / 2);
            Some(clip(*r.pick(&[mn / 2, mn / 2 + 1, mn / 2 - 1, mx / 2, mx / 2 + 1, mx / 2 - 1, h, -h, h + 1, h - 1,
                                -h - 1, -h + 1, mx / 3, mn / 3])))
        }
        12 | 13 => Some(clip(r.range(-130, 130))),
        _ => Some(rand_in(r, mn, mx)),
    }
}

fn gen_interval(r: &mut Rng, bits: u32) -> I {
    let mut l = gen_bound(r, bits);
    let mut u = gen_bound(r, bits);
    if r.chance(1, 8) && l.is_some() {
        u = l;
    }
    if let (Some(a), Some(b)) = (l, u) {
        if a > b {
            l = Some(b);
            u = Some(a);
        }
    }
    (l, u)
}

/// a small interval around zero-ish values (for propagation / expression cases)
fn gen_small(r: &mut Rng, bits: u32) -> I {
    let (mn, mx) = (tmin(bits), tmax(bits));
    match r.below(12) {
        0 => (None, Some(r.range(-8, 8))),
        1 => (Some(r.range(-8, 8)), None),
        2 => (None, None),
        3 => { let l = mx - r.range(0, 6); (Some(l), Some(rand_in(r, l, mx))) }
        4 => { let u = mn + r.range(0, 6); (Some(rand_in(r, mn, u)), Some(u)) }
        _ => { let l = r.range(-12, 12); (Some(l), Some(l + r.range(0, 8))) }
    }
}

fn in_iv(i: I, v: i128) -> bool {
    i.0.map_or(true, |l| l as i128 <= v) && i.1.map_or(true, |u| v <= u as i128)
}

/// member values of an interval: all of them when there are at most `all` members, otherwise endpoints,
/// their neighbours, values around zero, halves of the type range, the given directed extras and random ones
fn members(r: &mut Rng, i: I, bits: u32, extra: &[i128], all: i128, nrand: usize) -> Vec<i64> {
    let lo = i.0.unwrap_or(tmin(bits));
    let hi = i.1.unwrap_or(tmax(bits));
    if lo > hi {
        return vec![];
    }
    let cnt = hi as i128 - lo as i128 + 1;
    if cnt <= all {
        return (lo..=hi).collect();
    }
    let (mn, mx) = (tmin(bits) as i128, tmax(bits) as i128);
    let mut cand: Vec<i128> = vec![lo as i128, lo as i128 + 1, lo as i128 + 2, hi as i128, hi as i128 - 1, hi as i128 - 2,
                                   -2, -1, 0, 1, 2, (lo as i128 + hi as i128) / 2, mn / 2, mn / 2 + 1, mn / 2 - 1,
                                   mx / 2, mx / 2 + 1, mx / 2 - 1];
    cand.extend_from_slice(extra);
    for _ in 0..nrand {
        cand.push(rand_in(r, lo, hi) as i128);
    }
    let mut v: Vec<i64> = cand.into_iter().filter(|x| *x >= lo as i128 && *x <= hi as i128).map(|x| x as i64).collect();
    v.sort();
    v.dedup();
    v
}

/// values that bring a product / quotient with a member of `other` to the edge of the type range
fn directed(other: &[i64], bits: u32) -> Vec<i128> {
    let (mn, mx) = (tmin(bits) as i128, tmax(bits) as i128);
    let mut v = vec![];
    for &y in other.iter().take(40) {
        if y != 0 {
            for t in [mn / y as i128, mx / y as i128] {
                v.push(t);
                v.push(t + 1);
                v.push(t - 1);
            }
        }
    }
    v
}

fn op_eval(op: usize, x: i64, y: i64) -> Option<i128> {
    let (x, y) = (x as i128, y as i128);
    match op {
        0 => Some(x + y),
        1 => Some(x - y),
        2 => Some(x * y),
        _ => if y == 0 { None } else { Some(x / y) },
    }
}
fn representable(v: i128, bits: u32) -> bool {
    v >= tmin(bits) as i128 && v <= tmax(bits) as i128
}
fn cmp_eval(op: usize, x: i64, y: i64) -> bool {
    match op { 0 => x == y, 1 => x > y, 2 => x >= y, 3 => x < y, 4 => x <= y, _ => x != y }
}
fn in_b(b: BI, t: bool) -> bool {
    (!b.0 || t) && (b.1 || !t)
}
fn pick_bits(r: &mut Rng) -> u32 {
    match r.below(10) { 0..=3 => 8, 4 | 5 => 32, _ => 64 }
}

// ------------------------------------------------------------------ arith
fn case_arith(r: &mut Rng) {
    let bits = pick_bits(r);
    let op = r.below(4) as usize;
    let mut a = gen_interval(r, bits);
    let mut b = gen_interval(r, bits);
    if r.chance(1, 6) {
        // both operands straddle zero with large magnitudes (endpoint products overflow)
        let (mn, mx) = (tmin(bits), tmax(bits));
        a = (Some(*r.pick(&[mn, mn + 1, mn / 2, mn / 3, -3, -1])), Some(*r.pick(&[1, 2, 3, mx / 2, mx])));
        b = (Some(*r.pick(&[mn, mn / 2, -2, -1, -1, -5])), Some(*r.pick(&[1, 2, 2, 7, mx / 3, mx])));
        if r.chance(1, 2) { std::mem::swap(&mut a, &mut b); }
    }
    run_arith(r, bits, op, a, b);
}

fn run_arith(r: &mut Rng, bits: u32, op: usize, a: I, b: I) {
    let (ia, ib) = (mk(bits, a), mk(bits, b));
    let res = call(|| apply_operator(&AOPS[op], &ia, &ib).map(|i| get(&i)));
    let ys0 = members(r, b, bits, &[], 24, 4);
    let xs = members(r, a, bits, &directed(&ys0, bits), 24, 6);
    let ys = members(r, b, bits, &directed(&xs, bits), 24, 6);
    let mut cex: Option<(i64, i64)> = None;
    let mut checked = 0u64;
    if let Ok(ri) = &res {
        'o: for &x in &xs {
            for &y in &ys {
                if let Some(v) = op_eval(op, x, y) {
                    if representable(v, bits) {
                        checked += 1;
                        if !in_iv(*ri, v) { cex = Some((x, y)); break 'o; }
                    }
                }
            }
        }
    }
    let (rs, es) = match &res { Ok(i) => (ji(*i), "null".to_string()), Err(e) => ("null".to_string(), json_str(e)) };
    println!("{{\"k\":\"arith\",\"bits\":{bits},\"op\":\"{}\",\"a\":{},\"b\":{},\"res\":{rs},\"error\":{es},\"checked\":{checked},\"ok\":{},\"cex\":{}}}",
             ANAMES[op], ji(a), ji(b), ok_of(&res, cex.is_none()),
             cex.map_or("null".to_string(), |(x, y)| format!("[{x},{y}]")));
}

// ------------------------------------------------------------------ cmp
fn case_cmp(r: &mut Rng) {
    let bits = pick_bits(r);
    let op = r.below(6) as usize;
    let a = gen_interval(r, bits);
    let b = if r.chance(1, 5) { a } else { gen_interval(r, bits) };
    let (ia, ib) = (mk(bits, a), mk(bits, b));
    let res = call(|| apply_operator(&COPS[op], &ia, &ib).map(|i| bget(&i)));
    let xs = members(r, a, bits, &[], 24, 4);
    let mut ext: Vec<i128> = vec![];
    for &x in &xs { ext.push(x as i128); ext.push(x as i128 + 1); ext.push(x as i128 - 1); }
    let ys = members(r, b, bits, &ext, 24, 4);
    let mut cex = None;
    if let Ok(rb) = &res {
        'o: for &x in &xs { for &y in &ys { if !in_b(*rb, cmp_eval(op, x, y)) { cex = Some((x, y)); break 'o; } } }
    }
    let (rs, es) = match &res { Ok(i) => (jbi(*i), "null".to_string()), Err(e) => ("null".to_string(), json_str(e)) };
    println!("{{\"k\":\"cmp\",\"bits\":{bits},\"op\":\"{}\",\"a\":{},\"b\":{},\"res\":{rs},\"error\":{es},\"ok\":{},\"cex\":{}}}",
             CNAMES[op], ji(a), ji(b), ok_of(&res, cex.is_none()), cex.map_or("null".to_string(), |(x, y)| format!("[{x},{y}]")));
}

// ------------------------------------------------------------------ bool
fn case_bool(r: &mut Rng) {
    let op = r.below(3) as usize;
    let a = *r.pick(&[BFALSE, BTRUE, BUNC]);
    let b = *r.pick(&[BFALSE, BTRUE, BUNC]);
    let (ia, ib) = (bmk(a), bmk(b));
    let res = call(|| match op {
        0 => apply_operator(&Operator::And, &ia, &ib),
        1 => apply_operator(&Operator::Or, &ia, &ib),
        _ => ia.not(),
    }.map(|i| bget(&i)));
    let mut ok = ok_of(&res, true);
    if let Ok(rb) = &res {
        for p in [false, true] { for q in [false, true] {
            if in_b(a, p) && in_b(b, q) {
                let t = match op { 0 => p && q, 1 => p || q, _ => !p };
                if !in_b(*rb, t) { ok = false; }
            }
        } }
    }
    let (rs, es) = match &res { Ok(i) => (jbi(*i), "null".to_string()), Err(e) => ("null".to_string(), json_str(e)) };
    println!("{{\"k\":\"bool\",\"op\":\"{}\",\"a\":{},\"b\":{},\"res\":{rs},\"error\":{es},\"ok\":{ok}}}",
             ["and", "or", "not"][op], jbi(a), jbi(b));
}

// ------------------------------------------------------------------ set operations
fn case_set(r: &mut Rng) {
    let bits = pick_bits(r);
    let op = r.below(5) as usize;
    let a = gen_interval(r, bits);
    let b = match r.below(6) {
        0 => a,
        1 => (a.0.map(|x| x.saturating_add(r.range(0, 3)).min(tmax(bits))), a.1),
        _ => gen_interval(r, bits),
    };
    let b = if let (Some(l), Some(u)) = b { if l > u { (Some(u), Some(l)) } else { b } } else { b };
    let (ia, ib) = (mk(bits, a), mk(bits, b));
    let xa = members(r, a, bits, &[], 24, 4);
    let mut ext: Vec<i128> = vec![];
    for &x in &xa { ext.push(x as i128); }
    for e in [a.0, a.1].into_iter().flatten() { ext.push(e as i128 + 1); ext.push(e as i128 - 1); }
    let xb = members(r, b, bits, &ext, 24, 4);
    let mut all: Vec<i64> = xa.clone();
    all.extend_from_slice(&xb);
    for e in [a.0, a.1, b.0, b.1].into_iter().flatten() {
        if e > tmin(bits) { all.push(e - 1); }
        if e < tmax(bits) { all.push(e + 1); }
    }
    match op {
        0 => {
            let res = call(|| ia.intersect(&ib).map(|o| o.map(|i| get(&i))));
            let mut ok = ok_of(&res, true);
            if let Ok(ri) = &res {
                for &x in &all {
                    let both = in_iv(a, x as i128) && in_iv(b, x as i128);
                    let inres = ri.map_or(false, |i| in_iv(i, x as i128));
                    if both != inres { ok = false; }
                }
            }
            let (rs, es) = match &res { Ok(i) => (joi(i), "null".to_string()), Err(e) => ("null".to_string(), json_str(e)) };
            println!("{{\"k\":\"set\",\"op\":\"intersect\",\"a\":{},\"b\":{},\"res\":{rs},\"error\":{es},\"ok\":{ok}}}", ji(a), ji(b));
        }
        1 => {
            let res = call(|| ia.union(&ib).map(|i| get(&i)));
            let mut ok = ok_of(&res, true);
            if let Ok(ri) = &res {
                for &x in &all {
                    if (in_iv(a, x as i128) || in_iv(b, x as i128)) && !in_iv(*ri, x as i128) { ok = false; }
                }
            }
            let (rs, es) = match &res { Ok(i) => (ji(*i), "null".to_string()), Err(e) => ("null".to_string(), json_str(e)) };
            println!("{{\"k\":\"set\",\"op\":\"union\",\"a\":{},\"b\":{},\"res\":{rs},\"error\":{es},\"ok\":{ok}}}", ji(a), ji(b));
        }
        2 => {
            let res = call(|| ia.contains(&ib).map(|i| bget(&i)));
            let mut ok = ok_of(&res, true);
            if let Ok(rb) = &res {
                for &x in &all {
                    let (ina, inb) = (in_iv(a, x as i128), in_iv(b, x as i128));
                    if *rb == BTRUE && inb && !ina { ok = false; }
                    if *rb == BFALSE && inb && ina { ok = false; }
                }
                if *rb != BTRUE && *rb != BFALSE && *rb != BUNC { ok = false; }
            }
            let (rs, es) = match &res { Ok(i) => (jbi(*i), "null".to_string()), Err(e) => ("null".to_string(), json_str(e)) };
            println!("{{\"k\":\"set\",\"op\":\"contains\",\"a\":{},\"b\":{},\"res\":{rs},\"error\":{es},\"ok\":{ok}}}", ji(a), ji(b));
        }
        3 => {
            let v = if all.is_empty() || r.chance(1, 4) { rand_in(r, tmin(bits), tmax(bits)) } else { *r.pick(&all) };
            let res = call(|| ia.contains_value(sv(bits, Some(v))));
            let ok = match &res { Ok(t) => *t == in_iv(a, v as i128), Err(e) => !e.starts_with("panic:") };
            let (rs, es) = match &res { Ok(t) => (t.to_string(), "null".to_string()), Err(e) => ("null".to_string(), json_str(e)) };
            println!("{{\"k\":\"set\",\"op\":\"contains_value\",\"a\":{},\"v\":{v},\"res\":{rs},\"error\":{es},\"ok\":{ok}}}", ji(a));
        }
        _ => {
            let res = call(|| Ok(ia.cardinality()));
            let expect: Option<u64> = match a {
                (Some(l), Some(u)) => { let c = u as i128 - l as i128 + 1; if c < (1i128 << 64) { Some(c as u64) } else { None } }
                _ => None,
            };
            let ok = match &res { Ok(c) => *c == expect, Err(e) => !e.starts_with("panic:") };
            let (rs, es) = match &res {
                Ok(c) => (c.map_or("null".to_string(), |x| x.to_string()), "null".to_string()),
                Err(e) => ("null".to_string(), json_str(e)),
            };
            println!("{{\"k\":\"set\",\"op\":\"card\",\"a\":{},\"res\":{rs},\"error\":{es},\"ok\":{ok}}}", ji(a));
        }
    }
}

// ------------------------------------------------------------------ satisfy_greater
fn pair_check(res: &Option<(I, I)>, x: i64, y: i64) -> bool {
    match res { Some((l, rr)) => in_iv(*l, x as i128) && in_iv(*rr, y as i128), None => false }
}

fn case_satgt(r: &mut Rng) {
    let bits = pick_bits(r);
    let l = gen_interval(r, bits);
    let rr = match r.below(4) { 0 => l, 1 => gen_small(r, bits), _ => gen_interval(r, bits) };
    let strict = r.chance(1, 2);
    let (il, ir) = (mk(bits, l), mk(bits, rr));
    let res = call(|| satisfy_greater(&il, &ir, strict).map(|o| o.map(|(a, b)| (get(&a), get(&b)))));
    let xs = members(r, l, bits, &[], 24, 4);
    let mut ext: Vec<i128> = vec![];
    for &x in &xs { ext.push(x as i128); ext.push(x as i128 - 1); ext.push(x as i128 + 1); }
    let ys = members(r, rr, bits, &ext, 24, 4);
    let mut cex = None;
    let mut feasible = 0u64;
    if let Ok(ro) = &res {
        'o: for &x in &xs { for &y in &ys {
            if (strict && x > y) || (!strict && x >= y) {
                feasible += 1;
                if !pair_check(ro, x, y) { cex = Some((x, y)); break 'o; }
            }
        } }
    }
    let (rs, es) = match &res { Ok(o) => (joii(o), "null".to_string()), Err(e) => ("null".to_string(), json_str(e)) };
    println!("{{\"k\":\"satgt\",\"bits\":{bits},\"l\":{},\"r\":{},\"strict\":{strict},\"res\":{rs},\"error\":{es},\"feasible\":{feasible},\"ok\":{},\"cex\":{}}}",
             ji(l), ji(rr), ok_of(&res, cex.is_none()), cex.map_or("null".to_string(), |(x, y)| format!("[{x},{y}]")));
}

// ------------------------------------------------------------------ propagate_arithmetic
fn case_parith(r: &mut Rng) {
    let bits = pick_bits(r);
    let op = if r.chance(2, 3) { r.below(2) as usize } else { 2 + r.below(2) as usize };
    let l = if r.chance(3, 4) { gen_small(r, bits) } else { gen_interval(r, bits) };
    let rr = if r.chance(3, 4) { gen_small(r, bits) } else { gen_interval(r, bits) };
    let xs0 = members(r, l, bits, &[], 24, 4);
    let ys0 = members(r, rr, bits, &[], 24, 4);
    // the parent: an interval around a feasible value, or an arbitrary one
    let mut parent = gen_interval(r, bits);
    if !xs0.is_empty() && !ys0.is_empty() && r.chance(3, 4) {
        let (x, y) = (*r.pick(&xs0), *r.pick(&ys0));
        if let Some(p) = op_eval(op, x, y) {
            if representable(p, bits) {
                let p = p as i64;
                let lo = p.saturating_sub(r.range(0, 4)).max(tmin(bits));
                let hi = p.saturating_add(r.range(0, 4)).min(tmax(bits));
                parent = match r.below(6) { 0 => (None, Some(hi)), 1 => (Some(lo), None), _ => (Some(lo), Some(hi)) };
            }
        }
    }
    run_parith(r, bits, op, parent, l, rr);
}

fn run_parith(r: &mut Rng, bits: u32, op: usize, parent: I, l: I, rr: I) {
    let ys0 = members(r, rr, bits, &[], 24, 4);
    let (ip, il, ir) = (mk(bits, parent), mk(bits, l), mk(bits, rr));
    let res = call(|| propagate_arithmetic(&AOPS[op], &ip, &il, &ir).map(|o| o.map(|(a, b)| (get(&a), get(&b)))));
    let xs = members(r, l, bits, &directed(&ys0, bits), 24, 6);
    let ys = members(r, rr, bits, &directed(&xs, bits), 24, 6);
    let mut cex = None;
    let mut feasible = 0u64;
    if let Ok(ro) = &res {
        'o: for &x in &xs { for &y in &ys {
            if let Some(p) = op_eval(op, x, y) {
                if representable(p, bits) && in_iv(parent, p) {
                    feasible += 1;
                    if !pair_check(ro, x, y) { cex = Some((x, y)); break 'o; }
                }
            }
        } }
    }
    let (rs, es) = match &res { Ok(o) => (joii(o), "null".to_string()), Err(e) => ("null".to_string(), json_str(e)) };
    println!("{{\"k\":\"parith\",\"bits\":{bits},\"op\":\"{}\",\"parent\":{},\"l\":{},\"r\":{},\"res\":{rs},\"error\":{es},\"feasible\":{feasible},\"ok\":{},\"cex\":{}}}",
             ANAMES[op], ji(parent), ji(l), ji(rr), ok_of(&res, cex.is_none()),
             cex.map_or("null".to_string(), |(x, y)| format!("[{x},{y}]")));
}

// ------------------------------------------------------------------ propagate_comparison
fn case_pcmp(r: &mut Rng) {
    let bits = pick_bits(r);
    let op = r.below(5) as usize; // eq gt gteq lt lteq
    let parent = match r.below(10) { 0..=5 => BTRUE, 6..=8 => BFALSE, _ => BUNC };
    let l = if r.chance(1, 2) { gen_small(r, bits) } else { gen_interval(r, bits) };
    let rr = match r.below(4) { 0 => l, 1 => gen_small(r, bits), _ => gen_interval(r, bits) };
    run_pcmp(r, bits, op, parent, l, rr);
}

fn run_pcmp(r: &mut Rng, bits: u32, op: usize, parent: BI, l: I, rr: I) {
    let (ip, il, ir) = (bmk(parent), mk(bits, l), mk(bits, rr));
    let res = call(|| propagate_comparison(&COPS[op], &ip, &il, &ir).map(|o| o.map(|(a, b)| (get(&a), get(&b)))));
    let xs = members(r, l, bits, &[], 24, 4);
    let mut ext: Vec<i128> = vec![];
    for &x in &xs { ext.push(x as i128); ext.push(x as i128 - 1); ext.push(x as i128 + 1); }
    let ys = members(r, rr, bits, &ext, 24, 4);
    let mut cex = None;
    let mut feasible = 0u64;
    if let Ok(ro) = &res {
        'o: for &x in &xs { for &y in &ys {
            if in_b(parent, cmp_eval(op, x, y)) {
                feasible += 1;
                if !pair_check(ro, x, y) { cex = Some((x, y)); break 'o; }
            }
        } }
    }
    let (rs, es) = match &res { Ok(o) => (joii(o), "null".to_string()), Err(e) => ("null".to_string(), json_str(e)) };
    println!("{{\"k\":\"pcmp\",\"bits\":{bits},\"op\":\"{}\",\"parent\":{},\"l\":{},\"r\":{},\"res\":{rs},\"error\":{es},\"feasible\":{feasible},\"ok\":{},\"cex\":{}}}",
             CNAMES[op], jbi(parent), ji(l), ji(rr), ok_of(&res, cex.is_none()),
             cex.map_or("null".to_string(), |(x, y)| format!("[{x},{y}]")));
}

// ------------------------------------------------------------------ ExprIntervalGraph
#[derive(Clone, Debug)]
enum E { Col(usize), Lit(i64), Bin(Box<E>, usize, Box<E>) }
#[derive(Clone, Debug)]
enum P { Cmp(E, usize, E), And(Box<P>, Box<P>) }
const NAMES: [&str; 3] = ["a", "b", "c"];

fn gen_e(r: &mut Rng, depth: u32, muldiv: bool) -> E {
    if depth == 0 || r.chance(1, 3) {
        if r.chance(3, 4) { E::Col(r.below(3) as usize) }
        else if r.chance(1, 8) { E::Lit(*r.pick(&[i64::MAX, i64::MIN, i64::MAX - 1, 1 << 40])) }
        else { E::Lit(r.range(-5, 5)) }
    } else {
        let op = if muldiv && r.chance(1, 2) { 2 + r.below(2) as usize } else { r.below(2) as usize };
        E::Bin(Box::new(gen_e(r, depth - 1, muldiv)), op, Box::new(gen_e(r, depth - 1, muldiv)))
    }
}
fn gen_p(r: &mut Rng, depth: u32, muldiv: bool) -> P {
    if depth > 0 && r.chance(1, 4) {
        P::And(Box::new(gen_p(r, depth - 1, muldiv)), Box::new(gen_p(r, depth - 1, muldiv)))
    } else {
        let d = 1 + r.below(2) as u32;
        let d2 = d.saturating_sub(r.below(2) as u32);
        let l = gen_e(r, d, muldiv);
        let op = r.below(5) as usize;
        P::Cmp(l, op, gen_e(r, d2, muldiv))
    }
}
fn e_has_muldiv(e: &E) -> bool {
    match e { E::Bin(a, op, b) => *op >= 2 || e_has_muldiv(a) || e_has_muldiv(b), _ => false }
}
fn p_has_muldiv(p: &P) -> bool {
    match p { P::Cmp(a, _, b) => e_has_muldiv(a) || e_has_muldiv(b), P::And(a, b) => p_has_muldiv(a) || p_has_muldiv(b) }
}
fn e_cols(e: &E, out: &mut Vec<usize>) {
    match e { E::Col(c) => if !out.contains(c) { out.push(*c) }, E::Lit(_) => {}, E::Bin(a, _, b) => { e_cols(a, out); e_cols(b, out) } }
}
fn p_cols(p: &P, out: &mut Vec<usize>) {
    match p { P::Cmp(a, _, b) => { e_cols(a, out); e_cols(b, out) }, P::And(a, b) => { p_cols(a, out); p_cols(b, out) } }
}
fn e_str(e: &E) -> String {
    match e {
        E::Col(c) => NAMES[*c].to_string(),
        E::Lit(v) => v.to_string(),
        E::Bin(a, op, b) => format!("({} {} {})", e_str(a), ["+", "-", "*", "/"][*op], e_str(b)),
    }
}
fn p_str(p: &P) -> String {
    match p {
        P::Cmp(a, op, b) => format!("{} {} {}", e_str(a), ["=", ">", ">=", "<", "<="][*op], e_str(b)),
        P::And(a, b) => format!("({}) AND ({})", p_str(a), p_str(b)),
    }
}
fn e_phys(e: &E) -> Arc<dyn PhysicalExpr> {
    match e {
        E::Col(c) => Arc::new(Column::new(NAMES[*c], *c)),
        E::Lit(v) => Arc::new(Literal::new(ScalarValue::Int64(Some(*v)))),
        E::Bin(a, op, b) => Arc::new(BinaryExpr::new(e_phys(a), AOPS[*op], e_phys(b))),
    }
}
fn p_phys(p: &P) -> Arc<dyn PhysicalExpr> {
    match p {
        P::Cmp(a, op, b) => Arc::new(BinaryExpr::new(e_phys(a), COPS[*op], e_phys(b))),
        P::And(a, b) => Arc::new(BinaryExpr::new(p_phys(a), Operator::And, p_phys(b))),
    }
}
/// value of the expression on a row; None when the row makes the expression error (overflow, division by zero)
fn e_eval(e: &E, vals: &[i64; 3]) -> Option<i64> {
    match e {
        E::Col(c) => Some(vals[*c]),
        E::Lit(v) => Some(*v),
        E::Bin(a, op, b) => {
            let (x, y) = (e_eval(a, vals)?, e_eval(b, vals)?);
            match op { 0 => x.checked_add(y), 1 => x.checked_sub(y), 2 => x.checked_mul(y), _ => x.checked_div(y) }
        }
    }
}
fn p_eval(p: &P, vals: &[i64; 3]) -> Option<bool> {
    match p {
        P::Cmp(a, op, b) => Some(cmp_eval(*op, e_eval(a, vals)?, e_eval(b, vals)?)),
        P::And(a, b) => { let (x, y) = (p_eval(a, vals)?, p_eval(b, vals)?); Some(x && y) }
    }
}
fn first_cmp(p: &P) -> (&E, &E) {
    match p { P::Cmp(a, _, b) => (a, b), P::And(a, _) => first_cmp(a) }
}

fn bounds_of(expr: Arc<dyn PhysicalExpr>, schema: &Schema, used: &[usize], ranges: &[I; 3]) -> datafusion_common::Result<Interval> {
    let mut g = ExprIntervalGraph::try_new(expr, schema)?;
    let col_exprs: Vec<Arc<dyn PhysicalExpr>> = used.iter().map(|&c| Arc::new(Column::new(NAMES[c], c)) as Arc<dyn PhysicalExpr>).collect();
    let idx = g.gather_node_indices(&col_exprs);
    let leaf: Vec<(usize, Interval)> = idx.iter().zip(used.iter()).map(|((_, i), &c)| (*i, mk(64, ranges[c]))).collect();
    g.assign_intervals(&leaf);
    Ok(g.evaluate_bounds()?.clone())
}

fn case_cp(r: &mut Rng) {
    let muldiv = r.chance(1, 5);
    let p = gen_p(r, 1, muldiv);
    let given = !r.chance(1, 8);
    let ranges: [I; 3] = [gen_small(r, 64), gen_small(r, 64), gen_small(r, 64)];
    let mut used = vec![];
    p_cols(&p, &mut used);
    let schema = Schema::new(vec![
        Field::new("a", DataType::Int64, true),
        Field::new("b", DataType::Int64, true),
        Field::new("c", DataType::Int64, true),
    ]);
    let (sa, sb) = first_cmp(&p);
    let (mut ua, mut ub) = (vec![], vec![]);
    e_cols(sa, &mut ua);
    e_cols(sb, &mut ub);
    let side_a = call(|| bounds_of(e_phys(sa), &schema, &ua, &ranges).map(|i| get(&i)));
    let side_b = call(|| bounds_of(e_phys(sb), &schema, &ub, &ranges).map(|i| get(&i)));
    let root = call(|| bounds_of(p_phys(&p), &schema, &used, &ranges).map(|i| bget(&i)));
    let upd = call(|| {
        let mut g = ExprIntervalGraph::try_new(p_phys(&p), &schema)?;
        let col_exprs: Vec<Arc<dyn PhysicalExpr>> = used.iter().map(|&c| Arc::new(Column::new(NAMES[c], c)) as Arc<dyn PhysicalExpr>).collect();
        let idx = g.gather_node_indices(&col_exprs);
        let mut leaf: Vec<(usize, Interval)> = idx.iter().zip(used.iter()).map(|((_, i), &c)| (*i, mk(64, ranges[c]))).collect();
        let pr = g.update_ranges(&mut leaf, bmk(if given { BTRUE } else { BFALSE }))?;
        let tag = match pr { PropagationResult::CannotPropagate => "CannotPropagate", PropagationResult::Infeasible => "Infeasible", PropagationResult::Success => "Success" };
        Ok((tag, leaf.iter().map(|(_, i)| get(i)).collect::<Vec<I>>()))
    });
    // sampled assignments
    let mut ms: Vec<Vec<i64>> = vec![vec![0], vec![0], vec![0]];
    for &c in &used { ms[c] = members(r, ranges[c], 64, &[], 9, 2); if ms[c].len() > 12 { let k = ms[c].len(); let mut t = ms[c][..6].to_vec(); t.extend_from_slice(&ms[c][k - 6..]); ms[c] = t; } }
    let (mut samples, mut feasible) = (0u64, 0u64);
    let mut why: Option<String> = None;
    let mut cex: Option<[i64; 3]> = None;
    'o: for &a in &ms[0] { for &b in &ms[1] { for &c in &ms[2] {
        let vals = [a, b, c];
        samples += 1;
        if let (Ok(ia), Some(v)) = (&side_a, e_eval(sa, &vals)) {
            if !in_iv(*ia, v as i128) { why = Some(format!("evaluate_bounds of {} = {} does not contain its value {v}", e_str(sa), ji(*ia))); cex = Some(vals); break 'o; }
        }
        if let (Ok(ib), Some(v)) = (&side_b, e_eval(sb, &vals)) {
            if !in_iv(*ib, v as i128) { why = Some(format!("evaluate_bounds of {} = {} does not contain its value {v}", e_str(sb), ji(*ib))); cex = Some(vals); break 'o; }
        }
        if let Some(t) = p_eval(&p, &vals) {
            if let Ok(rb) = &root {
                if !in_b(*rb, t) { why = Some(format!("evaluate_bounds of the predicate = {} does not contain its truth value {t}", jbi(*rb))); cex = Some(vals); break 'o; }
            }
            if t == given {
                feasible += 1;
                if let Ok((tag, new)) = &upd {
                    if *tag == "Infeasible" { why = Some("update_ranges answered Infeasible although a sampled assignment satisfies the constraint".into()); cex = Some(vals); break 'o; }
                    if *tag == "Success" {
                        for (k, &col) in used.iter().enumerate() {
                            if !in_iv(new[k], vals[col] as i128) {
                                why = Some(format!("update_ranges shrank {} to {} and removed the value of a satisfying assignment", NAMES[col], ji(new[k])));
                                cex = Some(vals); break 'o;
                            }
                        }
                    }
                }
            }
        }
    } } }
    let errs: Vec<String> = [side_a.as_ref().err(), side_b.as_ref().err(), root.as_ref().err().map(|e| e), upd.as_ref().err()]
        .into_iter().flatten().cloned().collect();
    let panicked = errs.iter().any(|e| e.starts_with("panic:"));
    if panicked && why.is_none() { why = Some(format!("panic: {}", errs.iter().find(|e| e.starts_with("panic:")).unwrap())); }
    let (tag, new) = match &upd { Ok((t, n)) => (t.to_string(), n.clone()), Err(e) => (e.clone(), vec![]) };
    println!("{{\"k\":\"cp\",\"expr\":{},\"given\":{given},\"muldiv\":{},\"cols\":[{}],\"ranges\":[{}],\"root\":{},\"result\":{},\"new\":[{}],\"errors\":[{}],\"samples\":{samples},\"feasible\":{feasible},\"ok\":{},\"why\":{},\"cex\":{}}}",
             json_str(&p_str(&p)), p_has_muldiv(&p),
             used.iter().map(|c| json_str(NAMES[*c])).collect::<Vec<_>>().join(","),
             used.iter().map(|c| ji(ranges[*c])).collect::<Vec<_>>().join(","),
             root.as_ref().map_or("null".to_string(), |b| jbi(*b)), json_str(&tag),
             new.iter().map(|i| ji(*i)).collect::<Vec<_>>().join(","),
             errs.iter().map(|e| json_str(e)).collect::<Vec<_>>().join(","),
             why.is_none(), why.as_ref().map_or("null".to_string(), |w| json_str(w)),
             cex.map_or("null".to_string(), |v| format!("{{\"a\":{},\"b\":{},\"c\":{}}}", v[0], v[1], v[2])));
}

// ------------------------------------------------------------------ floats (oracle only)
fn gen_fbound(r: &mut Rng) -> Option<f64> {
    match r.below(12) {
        0 => None,
        1..=4 => Some(r.range(-6, 6) as f64),
        5 => Some(*r.pick(&[0.1, -0.1, 0.3, 1e-3, 2.5, -7.75, 1.0 / 3.0])),
        6 => Some(*r.pick(&[1e300, -1e300, f64::MAX, f64::MIN, 1e154, -1e154, 1.5e308])),
        7 => Some(*r.pick(&[5e-324, -5e-324, 1e-320, -1e-310, 2.2250738585072014e-308, 1e-160])),
        _ => {
            let m = (r.next() >> 11) as f64 / (1u64 << 53) as f64;
            let e = r.range(-40, 40) as i32;
            let s = if r.chance(1, 2) { 1.0 } else { -1.0 };
            Some(s * (1.0 + m) * 2f64.powi(e))
        }
    }
}
fn fmembers(r: &mut Rng, i: (Option<f64>, Option<f64>)) -> Vec<f64> {
    let lo = i.0.unwrap_or(f64::MIN);
    let hi = i.1.unwrap_or(f64::MAX);
    let mut v = vec![lo, hi];
    let mid = lo / 2.0 + hi / 2.0; // may underflow to (-)0 for subnormal endpoints: keep it only if it is a member
    if lo <= mid && mid <= hi { v.push(mid); }
    for c in [0.0, 1.0, -1.0, 1e-300, -1e-300, 3.0, -3.0, 0.1] { if lo <= c && c <= hi { v.push(c); } }
    for _ in 0..4 {
        let t = (r.next() >> 11) as f64 / (1u64 << 53) as f64;
        let x = lo * (1.0 - t) + hi * t;
        if x.is_finite() && lo <= x && x <= hi { v.push(x); }
    }
    v
}
fn jf(x: Option<f64>) -> String {
    match x { Some(v) => format!("\"{:e}\"", v), None => "null".into() }
}
fn case_float(r: &mut Rng) {
    let op = r.below(4) as usize;
    let gi = |r: &mut Rng| {
        let (mut l, mut u) = (gen_fbound(r), gen_fbound(r));
        if let (Some(a), Some(b)) = (l, u) { if a > b { l = Some(b); u = Some(a); } }
        (l, u)
    };
    let a = gi(r);
    let b = gi(r);
    let res = call(|| {
        let ia = Interval::make(a.0, a.1)?;
        let ib = Interval::make(b.0, b.1)?;
        let o = apply_operator(&AOPS[op], &ia, &ib)?;
        match (o.lower(), o.upper()) {
            (ScalarValue::Float64(l), ScalarValue::Float64(u)) => Ok((*l, *u)),
            _ => panic!("unexpected float interval {o:?}"),
        }
    });
    let mut cex = None;
    if let Ok((rl, ru)) = &res {
        'o: for &x in &fmembers(r, a) { for &y in &fmembers(r, b) {
            let v = match op { 0 => x + y, 1 => x - y, 2 => x * y, _ => if y == 0.0 { f64::NAN } else { x / y } };
            if v.is_finite() && !(rl.map_or(true, |l| l <= v) && ru.map_or(true, |u| v <= u)) { cex = Some((x, y)); break 'o; }
        } }
    }
    let (rs, es) = match &res { Ok((l, u)) => (format!("[{},{}]", jf(*l), jf(*u)), "null".to_string()), Err(e) => ("null".to_string(), json_str(e)) };
    println!("{{\"k\":\"float\",\"op\":\"{}\",\"a\":[{},{}],\"b\":[{},{}],\"res\":{rs},\"error\":{es},\"ok\":{},\"cex\":{}}}",
             ANAMES[op], jf(a.0), jf(a.1), jf(b.0), jf(b.1), ok_of(&res, cex.is_none()),
             cex.map_or("null".to_string(), |(x, y)| format!("[\"{:e}\",\"{:e}\"]", x, y)));
}

// float satisfy_greater (oracle only): a strict comparison is turned into a closed bound with next_up / next_down,
// which must not step over any float (subnormals next to +-0.0 included)
fn fneigh(x: f64) -> Vec<f64> {
    let b = x.to_bits();
    let mut v = vec![x];
    if x.is_finite() {
        for d in [1u64, 2, 1000] {
            v.push(f64::from_bits(b.wrapping_add(d)));
            v.push(f64::from_bits(b.wrapping_sub(d)));
        }
    }
    v
}
fn case_fsatgt(r: &mut Rng) {
    let zeroish = |r: &mut Rng| -> Option<f64> { if r.chance(1, 2) { Some(*r.pick(&[0.0, -0.0, 5e-324, -5e-324, 1e-310, 2.2250738585072014e-308, -2.2250738585072014e-308, 1.0, -1.0])) } else { gen_fbound(r) } };
    let gi = |r: &mut Rng| {
        let (mut l, mut u) = (zeroish(r), zeroish(r));
        if let (Some(a), Some(b)) = (l, u) { if a > b { l = Some(b); u = Some(a); } }
        (l, u)
    };
    let a = gi(r);
    let b = gi(r);
    let strict = r.chance(2, 3);
    let res = call(|| {
        let ia = Interval::make(a.0, a.1)?;
        let ib = Interval::make(b.0, b.1)?;
        let o = satisfy_greater(&ia, &ib, strict)?;
        Ok(o.map(|(x, y)| {
            let f = |i: &Interval| match (i.lower(), i.upper()) { (ScalarValue::Float64(l), ScalarValue::Float64(u)) => (*l, *u), _ => panic!("unexpected float interval") };
            (f(&x), f(&y))
        }))
    });
    let inside = |i: (Option<f64>, Option<f64>), v: f64| i.0.map_or(true, |l| l <= v) && i.1.map_or(true, |u| v <= u);
    let mut xs: Vec<f64> = vec![];
    for m in fmembers(r, a) { xs.extend(fneigh(m)); }
    for m in fmembers(r, b) { xs.extend(fneigh(m)); }
    for c in [0.0, -0.0, 5e-324, -5e-324, 1e-310, -1e-310, 2.2250738585072014e-308] { xs.extend(fneigh(c)); }
    let xs: Vec<f64> = xs.into_iter().filter(|v| v.is_finite()).collect();
    let mut cex = None;
    if let Ok(ro) = &res {
        'o: for &x in &xs { if !inside(a, x) { continue; } for &y in &xs { if !inside(b, y) { continue; }
            if (strict && x > y) || (!strict && x >= y) {
                let okp = match ro { None => false, Some((ra, rb)) => inside(*ra, x) && inside(*rb, y) };
                if !okp { cex = Some((x, y)); break 'o; }
            }
        } }
    }
    let (rs, es) = match &res {
        Ok(Some((x, y))) => (format!("[[{},{}],[{},{}]]", jf(x.0), jf(x.1), jf(y.0), jf(y.1)), "null".to_string()),
        Ok(None) => ("\"infeasible\"".to_string(), "null".to_string()),
        Err(e) => ("null".to_string(), json_str(e)) };
    println!("{{\"k\":\"float\",\"op\":\"satisfy_greater strict={strict}\",\"a\":[{},{}],\"b\":[{},{}],\"res\":{rs},\"error\":{es},\"ok\":{},\"cex\":{}}}",
             jf(a.0), jf(a.1), jf(b.0), jf(b.1), ok_of(&res, cex.is_none()),
             cex.map_or("null".to_string(), |(x, y)| format!("[\"{:e}\",\"{:e}\"]", x, y)));
}

fn main() {
    let args: Vec<String> = std::env::args().collect();
    let seed: u64 = arg(&args, "--seed", "1").parse().unwrap();
    let n: u64 = arg(&args, "--n", "3000").parse().unwrap();
    std::panic::set_hook(Box::new(|_| {}));
    let mut r = Rng::new(seed);
    // the refutation witnesses of Props/C23.v replayed on the real code (lines 1..8 of the output)
    run_arith(&mut r, 8, 2, (Some(-128), Some(1)), (Some(-1), Some(2)));
    run_arith(&mut r, 64, 3, (Some(-5), Some(0)), (Some(2), Some(3)));
    run_arith(&mut r, 64, 3, (Some(10), Some(20)), (Some(-3), Some(0)));
    run_parith(&mut r, 64, 3, (Some(3), Some(3)), (Some(7), Some(7)), (Some(2), Some(2)));
    run_parith(&mut r, 64, 2, (Some(0), Some(10)), (Some(-5), Some(5)), (Some(0), Some(5)));
    run_pcmp(&mut r, 64, 1, BFALSE, (Some(0), Some(10)), (Some(100), Some(200)));
    run_pcmp(&mut r, 64, 1, BUNC, (Some(0), Some(10)), (Some(0), Some(10)));
    run_pcmp(&mut r, 64, 0, BFALSE, (Some(0), Some(10)), (Some(0), Some(10)));
    for _ in 0..n {
        match r.below(100) {
            0..=29 => case_arith(&mut r),
            30..=39 => case_cmp(&mut r),
            40..=42 => case_bool(&mut r),
            43..=54 => case_set(&mut r),
            55..=62 => case_satgt(&mut r),
            63..=74 => case_parith(&mut r),
            75..=82 => case_pcmp(&mut r),
            83..=94 => case_cp(&mut r),
            95..=97 => case_float(&mut r),
            _ => case_fsatgt(&mut r),
        }
    }
}
