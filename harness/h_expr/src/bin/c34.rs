//! C34: scalar values, arrays and casts are mutually consistent.
//!
//! Runs the REAL `ScalarValue` API (datafusion-common) and the row helpers of `datafusion_common::utils` on random
//! values of every cheaply constructible type and prints one JSON object per line ("ok" = the direct oracle):
//!   rt      scalar -> to_array_of_size(n) -> try_from_array(i) gives back the scalar (value, type, nullness), n in 0,1,3,17
//!   iter    iter_to_array of mixed NULL / non-NULL scalars read back element by element
//!   cmp     partial_cmp vs arrow's `lt` / `eq` kernels and vs `sort_to_indices` (ascending, NULLS FIRST), antisymmetry,
//!           Equal <=> ==, for primitive / string / binary / temporal / decimal types (NaN, -0.0 included)
//!   eqhash  a == b  =>  hash(a) == hash(b)  (b built by another route: array round trip, other time zone, clone, ...)
//!   cast    cast_to(t) vs ColumnarValue::Array(..).cast_to(t) (the engine's array cast) and vs arrow::compute::cast
//!   arith   add / add_checked / sub / sub_checked vs the arrow numeric kernels on 1-row arrays; new_zero / new_one /
//!           new_negative_one identities; distance
//!   display Display -> try_from_string round trip (ints, floats, bool, strings, Date32, Decimal128)
//!   rows    compare_rows on typed rows; search: bisect / linear_search (left, right) on tables sorted by arrow's
//!           lexsort under every combination of sort options vs a naive count; the sorted table is ordered under
//!           compare_rows
//! Records of the modelled families carry "m": {...} = the Coq case (Model/ScalarModel.v).
use std::collections::hash_map::DefaultHasher;
use std::hash::{Hash, Hasher};
use std::panic::{catch_unwind, AssertUnwindSafe};
use std::sync::Arc;

use arrow::array::*;
use arrow::compute::{lexsort_to_indices, sort_to_indices, take, SortColumn, SortOptions};
use arrow::datatypes::*;
use datafusion_common::utils::{bisect, compare_rows, get_row_at_idx, linear_search};
use datafusion_common::ScalarValue;
use datafusion_expr_common::columnar_value::ColumnarValue;
use h_util::{arg, json_str, Rng};

type F16 = <Float16Type as ArrowPrimitiveType>::Native;

fn gi(r: &mut Rng, lo: i128, hi: i128) -> i128 {
    // boundary-heavy integer in [lo, hi]
    match r.below(10) {
        0 => lo,
        1 => hi,
        2 => 0.clamp(lo, hi),
        3 => (lo + 1).min(hi),
        4 => (hi - 1).max(lo),
        5 | 6 => (r.range(-3, 3) as i128).clamp(lo, hi),
        _ => {
            let span = (hi - lo) as u128 + 1;
            let x = ((r.next() as u128) << 64 | r.next() as u128) % span.max(1);
            lo + x as i128
        }
    }
}
const STRS: [&str; 8] = ["", "a", "b", "ab", "abc", "B", "\u{e9}t\u{e9}", "zz"];
const F64S: [f64; 12] = [0.0, -0.0, 1.0, -1.0, 1.5, f64::NAN, f64::INFINITY, f64::NEG_INFINITY, f64::MIN_POSITIVE, 1e300, -2.25, 3.0];

const KINDS: [&str; 44] = [
    "null", "bool", "i8", "i16", "i32", "i64", "u8", "u16", "u32", "u64", "f16", "f32", "f64", "d32", "d64", "d128", "d256", "utf8", "lutf8", "utf8v", "bin", "lbin",
    "binv", "fsb", "date32", "date64", "t32s", "t32ms", "t64us", "t64ns", "ts_s", "ts_ms", "ts_us", "ts_ns", "iym", "idt", "imdn", "dur_s", "dur_ns", "list", "llist",
    "fsl", "struct", "dict",
];
/// families whose ordering the property statement covers
fn ordered_family(k: &str) -> bool {
    !matches!(k, "null" | "list" | "llist" | "fsl" | "struct" | "dict" | "iym" | "idt" | "imdn")
}

/// a random scalar of the given kind; `param` fixes type parameters (time zone, precision/scale) so that two calls give one type
fn gen(r: &mut Rng, k: &str, nullp: u64, param: u64) -> ScalarValue {
    let null = r.chance(nullp, 100);
    macro_rules! o {
        ($e:expr) => {
            if null {
                None
            } else {
                Some($e)
            }
        };
    }
    let tzp: Option<Arc<str>> = match param % 3 {
        0 => None,
        1 => Some(Arc::from("UTC")),
        _ => Some(Arc::from("+05:30")),
    };
    match k {
        "null" => ScalarValue::Null,
        "bool" => ScalarValue::Boolean(o!(r.chance(1, 2))),
        "i8" => ScalarValue::Int8(o!(gi(r, i8::MIN as i128, i8::MAX as i128) as i8)),
        "i16" => ScalarValue::Int16(o!(gi(r, i16::MIN as i128, i16::MAX as i128) as i16)),
        "i32" => ScalarValue::Int32(o!(gi(r, i32::MIN as i128, i32::MAX as i128) as i32)),
        "i64" => ScalarValue::Int64(o!(gi(r, i64::MIN as i128, i64::MAX as i128) as i64)),
        "u8" => ScalarValue::UInt8(o!(gi(r, 0, u8::MAX as i128) as u8)),
        "u16" => ScalarValue::UInt16(o!(gi(r, 0, u16::MAX as i128) as u16)),
        "u32" => ScalarValue::UInt32(o!(gi(r, 0, u32::MAX as i128) as u32)),
        "u64" => ScalarValue::UInt64(o!(gi(r, 0, u64::MAX as i128) as u64)),
        "f16" => ScalarValue::Float16(o!(F16::from_f64(*r.pick(&F64S)))),
        "f32" => ScalarValue::Float32(o!(*r.pick(&F64S) as f32)),
        "f64" => ScalarValue::Float64(o!(if r.chance(1, 4) { r.range(-1000, 1000) as f64 / 8.0 } else { *r.pick(&F64S) })),
        "d32" => ScalarValue::Decimal32(o!(gi(r, -99999, 99999) as i32), 5 + (param % 3) as u8, (param % 4) as i8),
        "d64" => ScalarValue::Decimal64(o!(gi(r, -999_999_999_999, 999_999_999_999) as i64), 12 + (param % 3) as u8, (param % 5) as i8),
        "d128" => ScalarValue::Decimal128(o!(gi(r, -(10i128.pow(20) - 1), 10i128.pow(20) - 1)), 20 + (param % 5) as u8, (param % 6) as i8),
        "d256" => ScalarValue::Decimal256(o!(i256::from_i128(gi(r, -(10i128.pow(30) - 1), 10i128.pow(30) - 1))), 40 + (param % 5) as u8, (param % 6) as i8),
        "utf8" => ScalarValue::Utf8(o!(r.pick(&STRS).to_string())),
        "lutf8" => ScalarValue::LargeUtf8(o!(r.pick(&STRS).to_string())),
        "utf8v" => ScalarValue::Utf8View(o!(if r.chance(1, 4) { "a string longer than twelve bytes".to_string() } else { r.pick(&STRS).to_string() })),
        "bin" => ScalarValue::Binary(o!(r.pick(&STRS).as_bytes().to_vec())),
        "lbin" => ScalarValue::LargeBinary(o!(r.pick(&STRS).as_bytes().to_vec())),
        "binv" => ScalarValue::BinaryView(o!(r.pick(&STRS).as_bytes().to_vec())),
        "fsb" => ScalarValue::FixedSizeBinary(3, o!(vec![r.below(3) as u8, r.below(256) as u8, r.below(2) as u8])),
        "date32" => ScalarValue::Date32(o!(gi(r, -100_000, 100_000) as i32)),
        "date64" => ScalarValue::Date64(o!(gi(r, -100_000, 100_000) as i64 * 86_400_000)),
        "t32s" => ScalarValue::Time32Second(o!(gi(r, 0, 86_399) as i32)),
        "t32ms" => ScalarValue::Time32Millisecond(o!(gi(r, 0, 86_399_999) as i32)),
        "t64us" => ScalarValue::Time64Microsecond(o!(gi(r, 0, 86_399_999_999) as i64)),
        "t64ns" => ScalarValue::Time64Nanosecond(o!(gi(r, 0, 86_399_999_999_999) as i64)),
        "ts_s" => ScalarValue::TimestampSecond(o!(gi(r, -4_000_000_000, 4_000_000_000) as i64), tzp),
        "ts_ms" => ScalarValue::TimestampMillisecond(o!(gi(r, -4_000_000_000_000, 4_000_000_000_000) as i64), tzp),
        "ts_us" => ScalarValue::TimestampMicrosecond(o!(gi(r, -4_000_000_000_000_000, 4_000_000_000_000_000) as i64), tzp),
        "ts_ns" => ScalarValue::TimestampNanosecond(o!(gi(r, i64::MIN as i128, i64::MAX as i128) as i64), tzp),
        "iym" => ScalarValue::IntervalYearMonth(o!(gi(r, -1000, 1000) as i32)),
        "idt" => ScalarValue::IntervalDayTime(o!(IntervalDayTime::new(gi(r, -100, 100) as i32, gi(r, -5000, 5000) as i32))),
        "imdn" => ScalarValue::IntervalMonthDayNano(o!(IntervalMonthDayNano::new(gi(r, -20, 20) as i32, gi(r, -40, 40) as i32, gi(r, -1_000_000, 1_000_000) as i64))),
        "dur_s" => ScalarValue::DurationSecond(o!(gi(r, -1_000_000, 1_000_000) as i64)),
        "dur_ns" => ScalarValue::DurationNanosecond(o!(gi(r, i64::MIN as i128, i64::MAX as i128) as i64)),
        "list" | "llist" | "fsl" => {
            let n = if k == "fsl" { 2 } else { r.below(4) as usize };
            let vals: Vec<ScalarValue> = (0..n).map(|_| gen(r, "i32", 25, 0)).collect();
            let field = Arc::new(Field::new_list_field(DataType::Int32, true));
            let dt = match k {
                "list" => DataType::List(field),
                "llist" => DataType::LargeList(field),
                _ => DataType::FixedSizeList(field, 2),
            };
            if null {
                ScalarValue::try_new_null(&dt).unwrap()
            } else {
                let l = ScalarValue::new_list(&vals, &DataType::Int32, true);
                let s = ScalarValue::List(l);
                if k == "list" {
                    s
                } else {
                    s.cast_to(&dt).unwrap()
                }
            }
        }
        "struct" => {
            let a = gen(r, "i32", 25, 0);
            let b = gen(r, "utf8", 25, 0);
            let fields = Fields::from(vec![Field::new("a", DataType::Int32, true), Field::new("b", DataType::Utf8, true)]);
            let arr = StructArray::new(fields, vec![a.to_array().unwrap(), b.to_array().unwrap()], if null { Some(arrow::buffer::NullBuffer::new_null(1)) } else { None });
            ScalarValue::Struct(Arc::new(arr))
        }
        "dict" => ScalarValue::Dictionary(Box::new(DataType::Int32), Box::new(gen(r, "utf8", nullp, 0))),
        _ => unreachable!("{k}"),
    }
}

// ------------------------------------------------------------------ model rendering (modelled families only)
fn ity(s: &ScalarValue) -> Option<(&'static str, Option<i128>)> {
    Some(match s {
        ScalarValue::Int8(v) => ("I8", v.map(|x| x as i128)),
        ScalarValue::Int16(v) => ("I16", v.map(|x| x as i128)),
        ScalarValue::Int32(v) => ("I32", v.map(|x| x as i128)),
        ScalarValue::Int64(v) => ("I64", v.map(|x| x as i128)),
        ScalarValue::UInt8(v) => ("U8", v.map(|x| x as i128)),
        ScalarValue::UInt16(v) => ("U16", v.map(|x| x as i128)),
        ScalarValue::UInt32(v) => ("U32", v.map(|x| x as i128)),
        ScalarValue::UInt64(v) => ("U64", v.map(|x| x as i128)),
        _ => return None,
    })
}
fn jopt<T: std::fmt::Display>(v: &Option<T>) -> String {
    v.as_ref().map(|x| x.to_string()).unwrap_or("null".into())
}
fn jstr_opt(v: &Option<String>) -> String {
    v.as_ref().map(|x| json_str(x)).unwrap_or("null".into())
}
/// JSON of a scalar of a modelled family
fn msv(s: &ScalarValue) -> Option<String> {
    if let Some((t, v)) = ity(s) {
        return Some(format!("{{\"t\":\"int\",\"w\":\"{t}\",\"v\":{}}}", jopt(&v)));
    }
    Some(match s {
        ScalarValue::Null => "{\"t\":\"null\"}".into(),
        ScalarValue::Boolean(v) => format!("{{\"t\":\"bool\",\"v\":{}}}", jopt(v)),
        ScalarValue::Utf8(v) => format!("{{\"t\":\"str\",\"k\":\"KUtf8\",\"v\":{}}}", jstr_opt(v)),
        ScalarValue::LargeUtf8(v) => format!("{{\"t\":\"str\",\"k\":\"KLargeUtf8\",\"v\":{}}}", jstr_opt(v)),
        ScalarValue::Utf8View(v) => format!("{{\"t\":\"str\",\"k\":\"KUtf8View\",\"v\":{}}}", jstr_opt(v)),
        ScalarValue::TimestampSecond(v, z) => format!("{{\"t\":\"ts\",\"u\":\"USecond\",\"v\":{},\"tz\":{}}}", jopt(v), jstr_opt(&z.as_ref().map(|s| s.to_string()))),
        ScalarValue::TimestampMillisecond(v, z) => format!("{{\"t\":\"ts\",\"u\":\"UMilli\",\"v\":{},\"tz\":{}}}", jopt(v), jstr_opt(&z.as_ref().map(|s| s.to_string()))),
        ScalarValue::TimestampMicrosecond(v, z) => format!("{{\"t\":\"ts\",\"u\":\"UMicro\",\"v\":{},\"tz\":{}}}", jopt(v), jstr_opt(&z.as_ref().map(|s| s.to_string()))),
        ScalarValue::TimestampNanosecond(v, z) => format!("{{\"t\":\"ts\",\"u\":\"UNano\",\"v\":{},\"tz\":{}}}", jopt(v), jstr_opt(&z.as_ref().map(|s| s.to_string()))),
        ScalarValue::Decimal128(v, p, sc) => format!("{{\"t\":\"dec\",\"v\":{},\"p\":{p},\"s\":{sc}}}", jopt(v)),
        _ => return None,
    })
}
fn ord_code(o: Option<std::cmp::Ordering>) -> i32 {
    match o {
        None => 2,
        Some(std::cmp::Ordering::Less) => -1,
        Some(std::cmp::Ordering::Equal) => 0,
        Some(std::cmp::Ordering::Greater) => 1,
    }
}
fn hash_of(s: &ScalarValue) -> u64 {
    let mut h = DefaultHasher::new();
    s.hash(&mut h);
    h.finish()
}
fn display_panics(s: &ScalarValue) -> bool {
    catch_unwind(AssertUnwindSafe(|| s.to_string())).is_err()
}
fn dbg(s: &ScalarValue) -> String {
    json_str(&format!("{s:?}").chars().take(200).collect::<String>())
}
/// equality that also requires the same data type and nullness (== ignores e.g. the time zone)
fn same(a: &ScalarValue, b: &ScalarValue) -> bool {
    a == b && a.data_type() == b.data_type() && a.is_null() == b.is_null()
}
fn emit(k: &str, id: u64, ok: bool, why: &str, body: String) {
    println!("{{\"id\":{id},\"k\":\"{k}\",\"ok\":{ok},\"why\":{}{}{body}}}", json_str(why), if body.is_empty() { "" } else { "," });
}
fn guard<F: FnOnce() -> (bool, String, String)>(k: &str, id: u64, f: F) {
    match catch_unwind(AssertUnwindSafe(f)) {
        Ok((ok, why, body)) => emit(k, id, ok, &why, body),
        Err(p) => emit(k, id, false, &format!("PANIC: {}", p.downcast_ref::<String>().cloned().or(p.downcast_ref::<&str>().map(|s| s.to_string())).unwrap_or_default()), String::new()),
    }
}

// ------------------------------------------------------------------ streams
fn s_rt(r: &mut Rng, id: u64) {
    let k = *r.pick(&KINDS);
    let p = r.below(6);
    let s = gen(r, k, 20, p);
    guard("rt", id, || {
        let mut why = String::new();
        for n in [0usize, 1, 3, 17] {
            match s.to_array_of_size(n) {
                Err(e) => why = format!("to_array_of_size({n}) failed: {e}"),
                Ok(a) => {
                    if a.len() != n {
                        why = format!("to_array_of_size({n}) has {} rows", a.len());
                    }
                    if *a.data_type() != s.data_type() {
                        why = format!("array type {:?} but scalar type {:?}", a.data_type(), s.data_type());
                    }
                    for i in 0..n {
                        match ScalarValue::try_from_array(&a, i) {
                            Ok(b) => {
                                if !same(&b, &s) {
                                    why = format!("try_from_array(to_array_of_size({n}), {i}) = {b:?}");
                                }
                                if hash_of(&b) != hash_of(&s) {
                                    why = format!("round-tripped scalar hashes differently (n={n}, i={i})");
                                }
                            }
                            Err(e) => why = format!("try_from_array failed: {e}"),
                        }
                    }
                }
            }
        }
        (why.is_empty(), why, format!("\"kind\":\"{k}\",\"scalar\":{}", dbg(&s)))
    });
}

fn s_iter(r: &mut Rng, id: u64) {
    let k = *r.pick(&KINDS);
    let p = r.below(6);
    let n = r.range(1, 9) as usize;
    let nullp = *r.pick(&[0u64, 30, 100]);
    let xs: Vec<ScalarValue> = (0..n).map(|_| gen(r, k, nullp, p)).collect();
    guard("iter", id, || {
        let mut why = String::new();
        match ScalarValue::iter_to_array(xs.iter().cloned()) {
            Err(e) => why = format!("iter_to_array failed: {e}"),
            Ok(a) => {
                if a.len() != n {
                    why = format!("iter_to_array of {n} scalars has {} rows", a.len());
                } else {
                    for (i, x) in xs.iter().enumerate() {
                        match ScalarValue::try_from_array(&a, i) {
                            Ok(b) => {
                                if !same(&b, x) {
                                    why = format!("element {i}: {x:?} read back as {b:?}");
                                }
                            }
                            Err(e) => why = format!("try_from_array failed: {e}"),
                        }
                    }
                }
            }
        }
        (why.is_empty(), why, format!("\"kind\":\"{k}\",\"scalars\":{}", json_str(&format!("{xs:?}").chars().take(300).collect::<String>())))
    });
}

fn s_cmp(r: &mut Rng, id: u64) {
    let fam: Vec<&str> = KINDS.iter().copied().filter(|k| ordered_family(k)).collect();
    let k = *r.pick(&fam);
    let p = r.below(6);
    let n = r.range(2, 7) as usize;
    let xs: Vec<ScalarValue> = (0..n).map(|_| gen(r, k, 20, p)).collect();
    // one cross-type / cross-parameter partner for the model tie
    let other = if r.chance(1, 3) {
        let ok = *r.pick(&["i8", "i16", "u64", "utf8", "lutf8", "ts_s", "ts_ns", "d128", "bool", "null"]);
        let op = r.below(6);
        gen(r, ok, 20, op)
    } else {
        gen(r, k, 20, p)
    };
    guard("cmp", id, || {
        let mut why = String::new();
        let mut models = Vec::new();
        for a in &xs {
            for b in xs.iter().chain(std::iter::once(&other)) {
                let c = a.partial_cmp(b);
                if let (Some(ma), Some(mb)) = (msv(a), msv(b)) {
                    models.push(format!("{{\"c\":\"cmp\",\"a\":{ma},\"b\":{mb},\"obs\":{}}}", ord_code(c)));
                }
                if a.data_type() != b.data_type() {
                    continue;
                }
                let rc = b.partial_cmp(a);
                if c.map(|x| x.reverse()) != rc {
                    why = format!("partial_cmp not antisymmetric on {a:?}, {b:?}: {c:?} / {rc:?}");
                }
                if c.is_none() {
                    why = format!("partial_cmp undefined within one type: {a:?}, {b:?}");
                }
                if (c == Some(std::cmp::Ordering::Equal)) != (a == b) {
                    why = format!("partial_cmp {c:?} but == is {} on {a:?}, {b:?}", a == b);
                }
                if a.is_null() && !b.is_null() && c != Some(std::cmp::Ordering::Less) {
                    why = format!("NULL is not the smallest: {a:?} vs {b:?} = {c:?}");
                }
                if !a.is_null() && !b.is_null() && !matches!(k, "dict") {
                    let (sa, sb) = (a.to_scalar().unwrap(), b.to_scalar().unwrap());
                    match (arrow::compute::kernels::cmp::lt(&sa, &sb), arrow::compute::kernels::cmp::eq(&sa, &sb)) {
                        (Ok(l), Ok(e)) => {
                            let (l, e) = (l.value(0), e.value(0));
                            if l != (c == Some(std::cmp::Ordering::Less)) || e != (c == Some(std::cmp::Ordering::Equal)) {
                                why = format!("partial_cmp({a:?},{b:?}) = {c:?} but arrow lt = {l}, eq = {e}");
                            }
                        }
                        (x, _) => why = format!("arrow cmp kernel failed: {:?}", x.err()),
                    }
                }
            }
        }
        // the engine's ascending NULLS FIRST sort is non-decreasing under partial_cmp
        match ScalarValue::iter_to_array(xs.iter().cloned()) {
            Ok(arr) => match sort_to_indices(&arr, Some(SortOptions { descending: false, nulls_first: true }), None) {
                Ok(idx) => {
                    let order: Vec<usize> = idx.values().iter().map(|x| *x as usize).collect();
                    for w in order.windows(2) {
                        if xs[w[0]].partial_cmp(&xs[w[1]]) == Some(std::cmp::Ordering::Greater) || xs[w[0]].partial_cmp(&xs[w[1]]).is_none() {
                            why = format!("arrow sort puts {:?} before {:?} but partial_cmp says {:?}", xs[w[0]], xs[w[1]], xs[w[0]].partial_cmp(&xs[w[1]]));
                        }
                    }
                }
                Err(e) => why = format!("sort_to_indices failed: {e}"),
            },
            Err(e) => why = format!("iter_to_array failed: {e}"),
        }
        (why.is_empty(), why, format!("\"kind\":\"{k}\",\"scalars\":{},\"m\":[{}]", json_str(&format!("{xs:?}").chars().take(300).collect::<String>()), models.join(",")))
    });
}

fn s_eqhash(r: &mut Rng, id: u64) {
    let k = *r.pick(&KINDS);
    let p = r.below(6);
    let a = gen(r, k, 20, p);
    let route = r.below(5);
    let b = match route {
        0 => a.clone(),
        1 => ScalarValue::try_from_array(&a.to_array_of_size(3).unwrap(), 2).unwrap(),
        2 => gen(r, k, 20, p + 1), // same kind, other time zone / precision
        3 => gen(r, k, 20, p),
        _ => {
            // through a sliced array
            let arr = ScalarValue::iter_to_array(vec![gen(r, k, 20, p), a.clone(), gen(r, k, 20, p)]).unwrap();
            ScalarValue::try_from_array(&arr.slice(1, 1), 0).unwrap()
        }
    };
    guard("eqhash", id, || {
        let (e, h) = (a == b, hash_of(&a) == hash_of(&b));
        let why = if e && !h { format!("{a:?} == {b:?} but their hashes differ") } else if (a == b) != (b == a) { "== is not symmetric".to_string() } else { String::new() };
        let m = match (msv(&a), msv(&b)) {
            (Some(ma), Some(mb)) => format!(",\"m\":[{{\"c\":\"eq\",\"a\":{ma},\"b\":{mb},\"eq\":{e},\"heq\":{h}}},{{\"c\":\"null\",\"a\":{ma},\"obs\":{}}}]", a.is_null()),
            _ => String::new(),
        };
        (why.is_empty(), why, format!("\"kind\":\"{k}\",\"route\":{route},\"a\":{},\"b\":{}{m}", dbg(&a), dbg(&b)))
    });
}

fn cast_targets() -> Vec<DataType> {
    vec![
        DataType::Int8,
        DataType::Int16,
        DataType::Int32,
        DataType::Int64,
        DataType::UInt8,
        DataType::UInt16,
        DataType::UInt32,
        DataType::UInt64,
        DataType::Float32,
        DataType::Float64,
        DataType::Boolean,
        DataType::Utf8,
        DataType::LargeUtf8,
        DataType::Utf8View,
        DataType::Decimal128(10, 2),
        DataType::Decimal128(38, 0),
        DataType::Decimal256(50, 3),
        DataType::Date32,
        DataType::Date64,
        DataType::Timestamp(TimeUnit::Second, None),
        DataType::Timestamp(TimeUnit::Nanosecond, None),
        DataType::Timestamp(TimeUnit::Millisecond, Some(Arc::from("UTC"))),
        DataType::Binary,
        DataType::Dictionary(Box::new(DataType::Int32), Box::new(DataType::Utf8)),
    ]
}
fn ity_name(dt: &DataType) -> Option<&'static str> {
    Some(match dt {
        DataType::Int8 => "I8",
        DataType::Int16 => "I16",
        DataType::Int32 => "I32",
        DataType::Int64 => "I64",
        DataType::UInt8 => "U8",
        DataType::UInt16 => "U16",
        DataType::UInt32 => "U32",
        DataType::UInt64 => "U64",
        _ => return None,
    })
}

fn s_cast(r: &mut Rng, id: u64) {
    let k = *r.pick(&["bool", "i8", "i16", "i32", "i64", "u8", "u16", "u32", "u64", "f32", "f64", "d128", "d32", "utf8", "lutf8", "utf8v", "date32", "date64", "ts_s", "ts_ms", "ts_ns", "bin", "i64", "u64", "i32"]);
    let p = r.below(6);
    let s = if k == "utf8" && r.chance(1, 2) { ScalarValue::Utf8(Some(r.pick(&["1", "-7", "300", "1.5", "abc", "", "2020-01-02", "true", " 12", "1e3", "99999999999999999999"]).to_string())) } else { gen(r, k, 15, p) };
    let ts = cast_targets();
    // a third of the cases are integer -> integer (the modelled casts)
    let t = if ity(&s).is_some() && r.chance(1, 2) { ts[r.below(8) as usize].clone() } else { r.pick(&ts).clone() };
    guard("cast", id, || {
        let r1 = s.cast_to(&t);
        let arr = s.to_array_of_size(3).unwrap();
        let r2 = ColumnarValue::Array(arr.clone()).cast_to(&t, None).and_then(|c| match c {
            ColumnarValue::Array(a) => ScalarValue::try_from_array(&a, 1),
            ColumnarValue::Scalar(x) => Ok(x),
        });
        let r3 = arrow::compute::cast_with_options(&arr, &t, &datafusion_common::format::DEFAULT_CAST_OPTIONS).map_err(|e| e.to_string()).and_then(|a| ScalarValue::try_from_array(&a, 1).map_err(|e| e.to_string()));
        // Display / Debug of the result must not panic (formatting below relies on it)
        for x in [r1.as_ref().ok(), r2.as_ref().ok()].into_iter().flatten() {
            if display_panics(x) {
                let raw = match x {
                    ScalarValue::Date64(Some(v)) => v.to_string(),
                    _ => "?".into(),
                };
                return (false, format!("Display panics on the cast result {:?}({raw})", x.data_type()), format!("\"from\":{},\"to\":{},\"display_panic\":{}", json_str(&format!("{:?}", s.data_type())), json_str(&format!("{t:?}")), json_str(&format!("{:?}", x.data_type()))));
            }
        }
        let mut why = String::new();
        match (&r1, &r2) {
            (Ok(a), Ok(b)) => {
                if !same(a, b) {
                    why = format!("scalar cast gives {a:?}, array cast gives {b:?}");
                }
            }
            (Err(_), Err(_)) => {}
            (Ok(a), Err(e)) => why = format!("scalar cast gives {a:?}, array cast fails: {}", e.to_string().chars().take(120).collect::<String>()),
            (Err(e), Ok(b)) => why = format!("scalar cast fails ({}), array cast gives {b:?}", e.to_string().chars().take(120).collect::<String>()),
        }
        let arrow_same = match (&r1, &r3) {
            (Ok(a), Ok(b)) => same(a, b),
            (Err(_), Err(_)) => true,
            _ => false,
        };
        let m = match (ity(&s), ity_name(&t)) {
            (Some((w, v)), Some(to)) => {
                let obs = match &r1 {
                    Ok(x) => format!("{{\"v\":{}}}", jopt(&ity(x).unwrap().1)),
                    Err(_) => "null".into(),
                };
                format!(",\"m\":[{{\"c\":\"cast\",\"w\":\"{w}\",\"v\":{},\"to\":\"{to}\",\"obs\":{obs}}}]", jopt(&v))
            }
            _ => String::new(),
        };
        (why.is_empty(), why, format!("\"from\":{},\"to\":{},\"scalar\":{},\"res\":{},\"arrow_same\":{arrow_same}{m}", json_str(&format!("{:?}", s.data_type())), json_str(&format!("{t:?}")), dbg(&s), json_str(&format!("{:?}", r1.as_ref().map_err(|e| e.to_string().chars().take(80).collect::<String>())).chars().take(200).collect::<String>())))
    });
}

fn s_arith(r: &mut Rng, id: u64) {
    let k = *r.pick(&["i8", "i16", "i32", "i64", "u8", "u16", "u32", "u64", "f32", "f64", "d32", "d64", "d128", "d256", "i8", "u8", "i64", "u64"]);
    let (p, q) = (r.below(6), r.below(6));
    let a = gen(r, k, 12, p);
    let same_param = !k.starts_with('d') || r.chance(1, 2);
    let b = gen(r, k, 12, if same_param { p } else { q });
    guard("arith", id, || {
        use arrow::compute::kernels::numeric;
        let mut why = String::new();
        let (sa, sb) = (a.to_scalar().unwrap(), b.to_scalar().unwrap());
        let via = |x: Result<ArrayRef, arrow::error::ArrowError>| x.map_err(|e| e.to_string()).and_then(|arr| ScalarValue::try_from_array(&arr, 0).map_err(|e| e.to_string()));
        let pairs: Vec<(&str, Result<ScalarValue, String>, Result<ScalarValue, String>)> = vec![
            ("add_checked", a.add_checked(&b).map_err(|e| e.to_string()), via(numeric::add(&sa, &sb))),
            ("add", a.add(&b).map_err(|e| e.to_string()), via(numeric::add_wrapping(&sa, &sb))),
            ("sub_checked", a.sub_checked(&b).map_err(|e| e.to_string()), via(numeric::sub(&sa, &sb))),
            ("sub", a.sub(&b).map_err(|e| e.to_string()), via(numeric::sub_wrapping(&sa, &sb))),
            ("mul_checked", a.mul_checked(&b).map_err(|e| e.to_string()), via(numeric::mul(&sa, &sb))),
        ];
        for (name, x, y) in &pairs {
            match (x, y) {
                (Ok(u), Ok(v)) => {
                    if !same(u, v) {
                        why = format!("{name}: scalar {u:?}, arrow kernel {v:?}");
                    }
                }
                (Err(_), Err(_)) => {}
                (u, v) => why = format!("{name}: scalar {:?}, arrow kernel {:?}", u.as_ref().map_err(|e| e.chars().take(80).collect::<String>()), v.as_ref().map_err(|e| e.chars().take(80).collect::<String>())),
            }
        }
        // identities
        let dt = a.data_type();
        if !a.is_null() {
            if let (Ok(z), Ok(one), neg) = (ScalarValue::new_zero(&dt), ScalarValue::new_one(&dt), ScalarValue::new_negative_one(&dt)) {
                let nan = matches!(&a, ScalarValue::Float32(Some(f)) if f.is_nan()) || matches!(&a, ScalarValue::Float64(Some(f)) if f.is_nan());
                match a.add_checked(&z) {
                    Ok(x) => {
                        // -0.0 + 0.0 = 0.0: compare by partial_cmp Equal-or-bits for floats
                        let same_val = x == a || x.partial_cmp(&a) == Some(std::cmp::Ordering::Equal) || matches!((&x, &a), (ScalarValue::Float64(Some(u)), ScalarValue::Float64(Some(v))) if u == v) || matches!((&x, &a), (ScalarValue::Float32(Some(u)), ScalarValue::Float32(Some(v))) if u == v);
                        if !same_val && !nan {
                            why = format!("x + new_zero = {x:?} for x = {a:?}");
                        }
                    }
                    Err(e) => why = format!("x + new_zero failed: {e}"),
                }
                if one.sub_checked(&one).ok().and_then(|x| x.partial_cmp(&z)) != Some(std::cmp::Ordering::Equal) {
                    why = format!("new_one - new_one <> new_zero for {dt:?}");
                }
                if let Ok(n) = neg {
                    if one.add_checked(&n).ok().and_then(|x| x.partial_cmp(&z)) != Some(std::cmp::Ordering::Equal) {
                        why = format!("new_one + new_negative_one <> new_zero for {dt:?}");
                    }
                }
            }
        }
        // distance
        let d = a.distance(&b);
        let d2 = b.distance(&a);
        if d != d2 {
            why = format!("distance not symmetric: {d:?} / {d2:?}");
        }
        if same(&a, &b) && !a.is_null() && d != Some(0) && !matches!(&a, ScalarValue::Float32(Some(f)) if !f.is_finite()) && !matches!(&a, ScalarValue::Float64(Some(f)) if !f.is_finite()) {
            why = format!("distance(x, x) = {d:?} for {a:?}");
        }
        let m = match (ity(&a), ity(&b)) {
            (Some((w, x)), Some((_, y))) => {
                let chk = match &pairs[0].1 {
                    Ok(s) => format!("{{\"v\":{}}}", jopt(&ity(s).unwrap().1)),
                    Err(_) => "null".into(),
                };
                let wr = pairs[1].1.as_ref().ok().and_then(|s| ity(s).unwrap().1);
                let dist = a.distance_u64(&b);
                format!(",\"m\":[{{\"c\":\"add\",\"w\":\"{w}\",\"a\":{},\"b\":{},\"chk\":{chk},\"wrap\":{}}},{{\"c\":\"dist\",\"a\":{},\"b\":{},\"obs\":{}}}]", jopt(&x), jopt(&y), jopt(&wr), jopt(&x), jopt(&y), jopt(&dist))
            }
            _ => String::new(),
        };
        (why.is_empty(), why, format!("\"kind\":\"{k}\",\"a\":{},\"b\":{}{m}", dbg(&a), dbg(&b)))
    });
}

fn s_display(r: &mut Rng, id: u64) {
    let k = *r.pick(&["bool", "i8", "i16", "i32", "i64", "u8", "u16", "u32", "u64", "f32", "f64", "utf8", "lutf8", "utf8v", "date32", "d128"]);
    let dp = r.below(6);
    let s = gen(r, k, 0, dp);
    guard("display", id, || {
        let text = s.to_string();
        let back = ScalarValue::try_from_string(text.clone(), &s.data_type());
        let nan = matches!(&s, ScalarValue::Float32(Some(f)) if f.is_nan()) || matches!(&s, ScalarValue::Float64(Some(f)) if f.is_nan());
        let why = match &back {
            Ok(b) if same(b, &s) => String::new(),
            Ok(b) if nan && format!("{b}") == text => String::new(),
            Ok(b) => format!("{s:?} displays as {text:?} which parses back to {b:?}"),
            Err(e) => format!("{s:?} displays as {text:?} which does not parse back: {}", e.to_string().chars().take(120).collect::<String>()),
        };
        (why.is_empty(), why, format!("\"kind\":\"{k}\",\"scalar\":{},\"text\":{}", dbg(&s), json_str(&text)))
    });
}

fn s_search(r: &mut Rng, id: u64) {
    let ncols = r.range(1, 3) as usize;
    let kinds: Vec<&str> = (0..ncols).map(|_| *r.pick(&["i32", "i8", "u64", "utf8", "bool", "i64", "ts_s", "d128", "f64", "date32"])).collect();
    let params: Vec<u64> = (0..ncols).map(|_| r.below(6)).collect();
    let sos: Vec<SortOptions> = (0..ncols).map(|_| SortOptions { descending: r.chance(1, 2), nulls_first: r.chance(1, 2) }).collect();
    let n = *r.pick(&[0usize, 1, 2, 3, 5, 8, 13, 21, 40]);
    // small domains so that duplicates and ties on the first column occur
    let small = |r: &mut Rng, k: &str, p: u64| -> ScalarValue {
        if r.chance(1, 5) {
            return gen(r, k, 100, p);
        }
        match k {
            "i32" => ScalarValue::Int32(Some(r.range(-2, 3) as i32)),
            "i8" => ScalarValue::Int8(Some(*r.pick(&[-128i8, -1, 0, 1, 127]))),
            "u64" => ScalarValue::UInt64(Some(*r.pick(&[0u64, 1, 2, u64::MAX, 1 << 63, (1 << 63) - 1]))),
            "i64" => ScalarValue::Int64(Some(*r.pick(&[i64::MIN, -1, 0, 1, i64::MAX]))),
            "utf8" => ScalarValue::Utf8(Some(r.pick(&["", "a", "ab", "b", "B"]).to_string())),
            "f64" => ScalarValue::Float64(Some(*r.pick(&[-1.0, -0.0, 0.0, 1.0, f64::NAN, f64::INFINITY]))),
            _ => gen(r, k, 0, p),
        }
    };
    let cols: Vec<Vec<ScalarValue>> = (0..ncols).map(|c| (0..n).map(|_| small(r, kinds[c], params[c])).collect()).collect();
    let ntargets = 4;
    let targets: Vec<Vec<ScalarValue>> = (0..ntargets).map(|_| if n > 0 && r.chance(1, 2) { let i = r.below(n as u64) as usize; (0..ncols).map(|c| cols[c][i].clone()).collect() } else { (0..ncols).map(|c| small(r, kinds[c], params[c])).collect() }).collect();
    guard("search", id, || {
        let mut why = String::new();
        let mut models = Vec::new();
        // typed empty arrays for n = 0
        let arrays: Vec<ArrayRef> = (0..ncols).map(|c| if n == 0 { new_empty_array(&small(&mut Rng::new(1), kinds[c], params[c]).data_type()) } else { ScalarValue::iter_to_array(cols[c].iter().cloned()).unwrap() }).collect();
        let sorted: Vec<ArrayRef> = if n == 0 {
            arrays.clone()
        } else {
            let sc: Vec<SortColumn> = arrays.iter().zip(&sos).map(|(a, o)| SortColumn { values: a.clone(), options: Some(*o) }).collect();
            let idx = lexsort_to_indices(&sc, None).unwrap();
            arrays.iter().map(|a| take(a.as_ref(), &idx, None).unwrap()).collect()
        };
        let rows: Vec<Vec<ScalarValue>> = (0..n).map(|i| get_row_at_idx(&sorted, i).unwrap()).collect();
        // the engine's sort is ordered under compare_rows
        for w in rows.windows(2) {
            match compare_rows(&w[0], &w[1], &sos) {
                Ok(std::cmp::Ordering::Greater) => why = format!("lexsort puts {:?} before {:?} but compare_rows says Greater", w[0], w[1]),
                Err(e) => why = format!("compare_rows failed: {e}"),
                _ => {}
            }
        }
        let modelled = rows.iter().chain(targets.iter()).all(|row| row.iter().all(|v| msv(v).is_some()));
        let jrow = |row: &Vec<ScalarValue>| format!("[{}]", row.iter().map(|v| msv(v).unwrap()).collect::<Vec<_>>().join(","));
        let jsos = format!("[{}]", sos.iter().map(|o| format!("[{},{}]", o.descending, o.nulls_first)).collect::<Vec<_>>().join(","));
        for t in &targets {
            let naive_l = rows.iter().filter(|x| compare_rows(x, t, &sos).map(|c| c.is_lt()).unwrap_or(false)).count();
            let naive_r = rows.iter().filter(|x| compare_rows(x, t, &sos).map(|c| c.is_le()).unwrap_or(false)).count();
            let code = |x: datafusion_common::Result<usize>| x.map(|v| v as i64).unwrap_or(-1);
            let (bl, br, ll, lr) = (code(bisect::<true>(&sorted, t, &sos)), code(bisect::<false>(&sorted, t, &sos)), code(linear_search::<true>(&sorted, t, &sos)), code(linear_search::<false>(&sorted, t, &sos)));
            if bl != naive_l as i64 || ll != naive_l as i64 || br != naive_r as i64 || lr != naive_r as i64 {
                why = format!("target {t:?}: bisect left/right = {bl}/{br}, linear left/right = {ll}/{lr}, rows before / not after = {naive_l}/{naive_r}");
            }
            if modelled {
                models.push(format!("{{\"c\":\"search\",\"rows\":[{}],\"target\":{},\"sos\":{jsos},\"obs\":[{bl},{br},{ll},{lr}]}}", rows.iter().map(jrow).collect::<Vec<_>>().join(","), jrow(t)));
                if let Some(first) = rows.first() {
                    let c = compare_rows(first, t, &sos).ok();
                    models.push(format!("{{\"c\":\"rows\",\"x\":{},\"y\":{},\"sos\":{jsos},\"obs\":{}}}", jrow(first), jrow(t), ord_code(c)));
                }
            }
        }
        (why.is_empty(), why, format!("\"kinds\":{},\"n\":{n},\"sos\":{jsos},\"m\":[{}]", json_str(&format!("{kinds:?}")), models.join(",")))
    });
}

/// fixed witnesses (run first on every seed)
fn fixed(id: &mut u64) {
    // unsigned ordering above i64::MAX, NULL ordering, cross-type, decimal / time zone equality
    let cases: Vec<(ScalarValue, ScalarValue)> = vec![
        (ScalarValue::UInt64(Some(u64::MAX)), ScalarValue::UInt64(Some(1))),
        (ScalarValue::UInt64(Some(1 << 63)), ScalarValue::UInt64(Some((1 << 63) - 1))),
        (ScalarValue::Int8(None), ScalarValue::Int8(Some(-128))),
        (ScalarValue::Int8(Some(1)), ScalarValue::Int16(Some(1))),
        (ScalarValue::Null, ScalarValue::Int8(None)),
        (ScalarValue::Decimal128(Some(1), 10, 2), ScalarValue::Decimal128(Some(1), 12, 2)),
        (ScalarValue::Decimal128(Some(1), 10, 2), ScalarValue::Decimal128(Some(1), 10, 3)),
        (ScalarValue::TimestampNanosecond(Some(5), None), ScalarValue::TimestampNanosecond(Some(5), Some(Arc::from("UTC")))),
        (ScalarValue::Utf8(Some("a".into())), ScalarValue::LargeUtf8(Some("a".into()))),
        (ScalarValue::Utf8(Some("a".into())), ScalarValue::Utf8(Some("ab".into()))),
    ];
    for (a, b) in cases {
        let (ma, mb) = (msv(&a).unwrap(), msv(&b).unwrap());
        let (e, h) = (a == b, hash_of(&a) == hash_of(&b));
        let ok = !(e && !h);
        emit("fixed", *id, ok, if ok { "" } else { "== but hashes differ" }, format!("\"a\":{},\"b\":{},\"m\":[{{\"c\":\"cmp\",\"a\":{ma},\"b\":{mb},\"obs\":{}}},{{\"c\":\"cmp\",\"a\":{mb},\"b\":{ma},\"obs\":{}}},{{\"c\":\"eq\",\"a\":{ma},\"b\":{mb},\"eq\":{e},\"heq\":{h}}}]", dbg(&a), dbg(&b), ord_code(a.partial_cmp(&b)), ord_code(b.partial_cmp(&a))));
        *id += 1;
    }
    // witness of KF-C34-1: Display of Date64(i64::MIN) panics (Duration::try_milliseconds(v).unwrap())
    {
        let x = ScalarValue::Int64(Some(i64::MIN)).cast_to(&DataType::Date64);
        let bad = matches!(&x, Ok(v) if display_panics(v));
        emit("cast", *id, !bad, if bad { "Display panics on the cast result Date64(-9223372036854775808)" } else { "" }, format!("\"from\":\"Int64\",\"to\":\"Date64\",\"display_panic\":{}", if bad { "\"Date64\"" } else { "null" }));
        *id += 1;
    }
    // descending bisect on a fixed table (the witness of the off-by-one class)
    let col: ArrayRef = Arc::new(Int32Array::from(vec![Some(9), Some(7), Some(7), Some(3), None]));
    let sos = [SortOptions { descending: true, nulls_first: false }];
    for t in [9, 8, 7, 3, 2] {
        let target = vec![ScalarValue::Int32(Some(t))];
        let (bl, br) = (bisect::<true>(&[col.clone()], &target, &sos).unwrap(), bisect::<false>(&[col.clone()], &target, &sos).unwrap());
        let (ll, lr) = (linear_search::<true>(&[col.clone()], &target, &sos).unwrap(), linear_search::<false>(&[col.clone()], &target, &sos).unwrap());
        let vals = [Some(9), Some(7), Some(7), Some(3), None];
        let nl = vals.iter().filter(|v| v.map_or(false, |x| x > t)).count();
        let nr = vals.iter().filter(|v| v.map_or(false, |x| x >= t)).count();
        let ok = bl == nl && ll == nl && br == nr && lr == nr;
        let rows = vals.iter().map(|v| format!("[{{\"t\":\"int\",\"w\":\"I32\",\"v\":{}}}]", jopt(v))).collect::<Vec<_>>().join(",");
        emit("fixed", *id, ok, if ok { "" } else { "bisect / linear_search differ from the count" }, format!("\"target\":{t},\"m\":[{{\"c\":\"search\",\"rows\":[{rows}],\"target\":[{{\"t\":\"int\",\"w\":\"I32\",\"v\":{t}}}],\"sos\":[[true,false]],\"obs\":[{bl},{br},{ll},{lr}]}}]"));
        *id += 1;
    }
}

fn main() {
    let args: Vec<String> = std::env::args().collect();
    let seed: u64 = arg(&args, "--seed", "1").parse().unwrap();
    let n: u64 = arg(&args, "--n", "400").parse().unwrap();
    if std::env::var("C34_TRACE").is_err() { std::panic::set_hook(Box::new(|_| {})); }
    let mut fid = 1_000_000u64;
    fixed(&mut fid);
    let mut r = Rng::new(seed);
    for id in 0..n {
        match id % 10 {
            0 => s_rt(&mut r, id),
            1 => s_iter(&mut r, id),
            2 | 3 => s_cmp(&mut r, id),
            4 => s_eqhash(&mut r, id),
            5 => s_cast(&mut r, id),
            6 => s_arith(&mut r, id),
            7 => s_display(&mut r, id),
            _ => s_search(&mut r, id),
        }
    }
}
