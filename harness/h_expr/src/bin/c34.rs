fn main(){}
