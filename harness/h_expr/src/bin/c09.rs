//! C09 (direct half): window frame ranges of the REAL `WindowFrameContext` (datafusion/expr/src/window_state.rs).
//!
//! For generated sorted nullable Int64 ORDER BY columns (duplicates, NULL run at the end selected by
//! nulls_first, asc/desc, 0..12 rows), every valid pair of frame bounds and ROWS / RANGE / GROUPS units, the bin
//! drives `WindowFrameContext::calculate_range` exactly as the executors do:
//!   * `call`  : calculate_range(&columns[..len], &last_range, len, idx); if `acc` the result becomes `last_range`
//!               and the row index advances (BoundedWindowAggExec re-asks the same row with a longer buffer when the
//!               frame is not complete yet: `acc = false`)
//!   * `prune` : `WindowAggState::prune_state(n)` + the buffered column loses its first n rows (what
//!               BoundedWindowAggExec::prune_partition_batches does), n <= min(last_range.start, rows calculated)
//! and prints one JSON object per case with the observed (start,end) per call.  "ok" = the DECLARATIVE frame
//! definition (computed here independently with i128 arithmetic, as a set of row indices) equals the observed
//! half-open range for every call.
use std::ops::Range;
use std::panic::{catch_unwind, AssertUnwindSafe};
use std::sync::Arc;

use arrow::array::{ArrayRef, Int64Array};
use arrow::compute::SortOptions;
use arrow::datatypes::DataType;
use datafusion_common::ScalarValue;
use datafusion_expr::window_state::{WindowAggState, WindowFrameContext};
use datafusion_expr::{WindowFrame, WindowFrameBound, WindowFrameUnits};
use h_util::{arg, json_opt_list, json_str, Rng};

#[derive(Clone, Copy, Debug, PartialEq)]
enum B {
    UP,
    P(u64),
    CR,
    F(u64),
    UF,
}

#[derive(Clone, Copy, Debug, PartialEq)]
enum U {
    Rows,
    Range,
    Groups,
}

#[derive(Clone, Debug)]
enum Op {
    Call { len: usize, idx: usize, acc: bool }, // absolute positions
    Prune(usize),
}

struct Case {
    units: U,
    sb: B,
    eb: B,
    desc: bool,
    nf: bool,
    keys: Vec<Option<i64>>,
    streaming: bool,
}

fn bound_json(b: B) -> String {
    match b {
        B::UP => "[\"UP\"]".into(),
        B::P(n) => format!("[\"P\",\"{n}\"]"),
        B::CR => "[\"CR\"]".into(),
        B::F(n) => format!("[\"F\",\"{n}\"]"),
        B::UF => "[\"UF\"]".into(),
    }
}

fn units_str(u: U) -> &'static str {
    match u {
        U::Rows => "rows",
        U::Range => "range",
        U::Groups => "groups",
    }
}

/// physical_planner::is_window_frame_bound_valid + the two parse-time rejections
fn valid(sb: B, eb: B) -> bool {
    if sb == B::UF || eb == B::UP {
        return false;
    }
    match (sb, eb) {
        (B::F(_), B::P(_)) | (B::F(_), B::CR) | (B::CR, B::P(_)) => false,
        (B::P(a), B::P(b)) => a >= b,
        (B::UP, B::P(_)) => true,
        (B::F(a), B::F(b)) => a <= b,
        (B::F(_), B::UF) => true,
        _ => true,
    }
}

fn to_bound(b: B, u: U) -> WindowFrameBound {
    let sv = |n: Option<u64>| match u {
        U::Range => ScalarValue::Int64(n.map(|x| x as i64)),
        _ => ScalarValue::UInt64(n),
    };
    // the SQL planner leaves UNBOUNDED as UInt64(None) for ROWS/GROUPS and casts it to the column type for RANGE
    match b {
        B::UP => WindowFrameBound::Preceding(sv(None)),
        B::P(n) => WindowFrameBound::Preceding(sv(Some(n))),
        B::CR => WindowFrameBound::CurrentRow,
        B::F(n) => WindowFrameBound::Following(sv(Some(n))),
        B::UF => WindowFrameBound::Following(sv(None)),
    }
}

// ------------------------------------------------------------------ declarative oracle (independent)
/// position of a key on the sort axis: (class, value) with NULLs at -inf / +inf
fn ord(k: Option<i64>, desc: bool, nf: bool) -> (i8, i128) {
    match k {
        None => (if nf { -1 } else { 1 }, 0),
        Some(v) => (0, if desc { -(v as i128) } else { v as i128 }),
    }
}
fn shift(o: (i8, i128), d: i128) -> (i8, i128) {
    if o.0 == 0 { (0, o.1 + d) } else { o }
}

/// the rows (absolute indices < len) in the frame of row i of the partition keys[0..len]
fn frame_def(c: &Case, len: usize, i: usize) -> Vec<usize> {
    let ks = &c.keys[..len];
    let mut out = vec![];
    match c.units {
        U::Rows => {
            let ii = i as i128;
            let lo = match c.sb { B::UP => i128::MIN, B::P(a) => ii - a as i128, B::CR => ii, B::F(a) => ii + a as i128, B::UF => i128::MAX };
            let hi = match c.eb { B::UP => i128::MIN, B::P(a) => ii - a as i128, B::CR => ii, B::F(a) => ii + a as i128, B::UF => i128::MAX };
            for j in 0..len {
                if lo <= j as i128 && j as i128 <= hi { out.push(j); }
            }
        }
        U::Range => {
            let oi = ord(ks[i], c.desc, c.nf);
            for j in 0..len {
                let oj = ord(ks[j], c.desc, c.nf);
                let lo_ok = match c.sb { B::UP => true, B::P(a) => oj >= shift(oi, -(a as i128)), B::CR => oj >= oi, B::F(a) => oj >= shift(oi, a as i128), B::UF => false };
                let hi_ok = match c.eb { B::UP => false, B::P(a) => oj <= shift(oi, -(a as i128)), B::CR => oj <= oi, B::F(a) => oj <= shift(oi, a as i128), B::UF => true };
                if lo_ok && hi_ok { out.push(j); }
            }
        }
        U::Groups => {
            // group number = number of key changes before the row
            let mut g = vec![0i128; len];
            for j in 1..len { g[j] = g[j - 1] + if ks[j] != ks[j - 1] { 1 } else { 0 }; }
            let gi = g[i];
            let lo = match c.sb { B::UP => i128::MIN, B::P(a) => gi - a as i128, B::CR => gi, B::F(a) => gi + a as i128, B::UF => i128::MAX };
            let hi = match c.eb { B::UP => i128::MIN, B::P(a) => gi - a as i128, B::CR => gi, B::F(a) => gi + a as i128, B::UF => i128::MAX };
            for j in 0..len {
                if lo <= g[j] && g[j] <= hi { out.push(j); }
            }
        }
    }
    out
}

/// does some RANGE target (key -/+ offset) leave the i64 range for a row of the case?
fn range_overflows(c: &Case) -> bool {
    if c.units != U::Range { return false; }
    let mut r = false;
    for k in c.keys.iter().flatten() {
        for (b, _) in [(c.sb, 0), (c.eb, 1)] {
            let d: i128 = match b { B::P(a) => -(a as i128), B::F(a) => a as i128, _ => 0 };
            let d = if c.desc { -d } else { d };
            let t = *k as i128 + d;
            if t < i64::MIN as i128 || t > i64::MAX as i128 { r = true; }
        }
    }
    r
}

// ------------------------------------------------------------------ generators
fn gen_keys(rng: &mut Rng, desc: bool, nf: bool, extreme: bool) -> Vec<Option<i64>> {
    let n = match rng.below(10) { 0 => 0, 1 => 1, 2 => 2, _ => rng.range(3, 12) } as usize;
    let nnull = match rng.below(5) { 0 | 1 => 0, 2 => 1, 3 => rng.range(1, 3) as usize, _ => n }.min(n);
    let mut vals: Vec<i64> = (0..n - nnull)
        .map(|_| {
            if extreme {
                match rng.below(6) {
                    0 => i64::MIN + rng.range(0, 3),
                    1 => i64::MAX - rng.range(0, 3),
                    2 => i64::MIN + rng.range(0, 3),
                    3 => i64::MAX - rng.range(0, 3),
                    _ => rng.range(-3, 3),
                }
            } else {
                let w = *rng.pick(&[2i64, 4, 8, 20]);
                rng.range(-2, w)
            }
        })
        .collect();
    vals.sort();
    if desc { vals.reverse(); }
    let mut ks: Vec<Option<i64>> = vec![];
    if nf { ks.extend(std::iter::repeat(None).take(nnull)); }
    ks.extend(vals.into_iter().map(Some));
    if !nf { ks.extend(std::iter::repeat(None).take(nnull)); }
    ks
}

fn gen_off(rng: &mut Rng, u: U, huge: bool) -> u64 {
    if huge {
        match u {
            U::Range => i64::MAX as u64 - rng.below(3),
            _ => u64::MAX - rng.below(14),
        }
    } else {
        rng.below(5)
    }
}

fn gen_bounds(rng: &mut Rng, u: U, huge: bool) -> (B, B) {
    loop {
        let mk = |rng: &mut Rng, k: u64| match k {
            0 => B::UP,
            1 => { let h = huge && rng.chance(1, 2); B::P(gen_off(rng, u, h)) }
            2 => B::CR,
            3 => { let h = huge && rng.chance(1, 2); B::F(gen_off(rng, u, h)) }
            _ => B::UF,
        };
        let a = rng.below(4);
        let b = 1 + rng.below(4);
        let sb = mk(rng, a);
        let eb = mk(rng, b);
        if valid(sb, eb) { return (sb, eb); }
    }
}

// ------------------------------------------------------------------ running the implementation
enum Obs {
    R(usize, usize),
    Err(String),
    Panic(String),
    Pruned(usize),
}

fn panic_msg(p: Box<dyn std::any::Any + Send>) -> String {
    p.downcast_ref::<String>().cloned().or_else(|| p.downcast_ref::<&str>().map(|s| s.to_string())).unwrap_or_default()
}

/// Drives the real WindowFrameContext with the executors' protocol and records the operations performed.
///   whole partition (WindowAggExec / aggregate_evaluate): len = n, rows 0..n in order, every result accepted;
///   streaming (BoundedWindowAggExec / get_result_column): rows arrive in pieces; for every arrival
///     `while idx < len { r = calculate_range(.., len, idx); if r.end == len && !causal && not_end { break } accept }`
///     (is_end_bound_safe taken as false), then possibly prune_state(n) with n <= min(frame start, rows calculated).
fn run_case(c: &Case, rng: &mut Rng) -> (Vec<Obs>, Vec<Op>, bool, String) {
    let frame = Arc::new(WindowFrame::new_bounds(
        match c.units { U::Rows => WindowFrameUnits::Rows, U::Range => WindowFrameUnits::Range, U::Groups => WindowFrameUnits::Groups },
        to_bound(c.sb, c.units),
        to_bound(c.eb, c.units),
    ));
    let causal = frame.is_causal();
    let so = vec![SortOptions { descending: c.desc, nulls_first: c.nf }];
    let mut st = WindowAggState::new(&DataType::Int64).unwrap();
    st.window_frame_ctx = Some(WindowFrameContext::new(frame, so));
    let n = c.keys.len();
    let mut off = 0usize; // rows pruned so far
    let mut obs = vec![];
    let mut ops = vec![];
    let mut ok = true;
    let mut why = String::new();
    let mut len = if c.streaming { 0 } else { n };
    let mut idx = 0usize;
    'outer: while idx < n {
        if c.streaming {
            len = (len.max(idx) + 1 + rng.below(3) as usize).min(n);
        }
        while idx < len {
            let col: ArrayRef = Arc::new(Int64Array::from(c.keys[off..len].to_vec()));
            let cols = vec![col];
            let last = st.window_frame_range.clone();
            let (rl, ri) = (len - off, idx - off);
            let r = catch_unwind(AssertUnwindSafe(|| st.window_frame_ctx.as_mut().unwrap().calculate_range(&cols, &last, rl, ri)));
            match r {
                Ok(Ok(Range { start, end })) => {
                    obs.push(Obs::R(start, end));
                    let want = frame_def(c, len, idx);
                    let got: Vec<usize> = (start + off..(end + off).max(start + off)).collect();
                    if end > rl || got != want {
                        if ok { why = format!("call len={len} idx={idx}: frame rows {:?}, definition {:?}", (start + off, end + off), want); }
                        ok = false;
                    }
                    let acc = !(end == rl && !causal && len < n);
                    ops.push(Op::Call { len, idx, acc });
                    if !acc { break; }
                    st.window_frame_range = Range { start, end };
                    st.last_calculated_index = ri + 1;
                    idx += 1;
                }
                Ok(Err(e)) => {
                    ops.push(Op::Call { len, idx, acc: true });
                    obs.push(Obs::Err(e.to_string()));
                    if ok { why = format!("call len={len} idx={idx}: error {e}"); }
                    ok = false;
                    break 'outer;
                }
                Err(p) => {
                    let m = panic_msg(p);
                    ops.push(Op::Call { len, idx, acc: true });
                    obs.push(Obs::Panic(m.clone()));
                    if ok { why = format!("call len={len} idx={idx}: panic {m}"); }
                    ok = false;
                    break 'outer;
                }
            }
        }
        if c.streaming && len < n && rng.chance(1, 2) {
            let lim = st.window_frame_range.start.min(st.last_calculated_index);
            if lim == 0 { continue; }
            let k = if rng.chance(2, 3) { lim } else { 1 + rng.below(lim as u64) as usize };
            let r = catch_unwind(AssertUnwindSafe(|| st.prune_state(k)));
            ops.push(Op::Prune(k));
            match r {
                Ok(()) => {
                    off += k;
                    obs.push(Obs::Pruned(k));
                }
                Err(p) => {
                    let m = panic_msg(p);
                    obs.push(Obs::Panic(m.clone()));
                    if ok { why = format!("prune_state({k}): panic {m}"); }
                    ok = false;
                    break 'outer;
                }
            }
        }
    }
    (obs, ops, ok, why)
}

fn emit(id: usize, c: &Case, rng: &mut Rng) {
    let (obs, ops, ok, why) = run_case(c, rng);
    let ops_s: Vec<String> = ops
        .iter()
        .map(|o| match o {
            Op::Call { len, idx, acc } => format!("[\"call\",{len},{idx},{acc}]"),
            Op::Prune(n) => format!("[\"prune\",{n}]"),
        })
        .collect();
    let obs_s: Vec<String> = obs
        .iter()
        .map(|o| match o {
            Obs::R(s, e) => format!("[{s},{e}]"),
            Obs::Err(m) => format!("{{\"err\":{}}}", json_str(m)),
            Obs::Panic(m) => format!("{{\"panic\":{}}}", json_str(m)),
            Obs::Pruned(n) => format!("{{\"pruned\":{n}}}"),
        })
        .collect();
    let cls = if ok {
        "ok"
    } else if obs.iter().any(|o| matches!(o, Obs::Panic(_))) && c.units == U::Rows {
        "rows-offset-overflow"
    } else if range_overflows(c) {
        "range-target-overflow"
    } else if obs.iter().any(|o| matches!(o, Obs::Panic(_))) {
        "panic"
    } else {
        "frame"
    };
    println!(
        "{{\"k\":\"dir\",\"id\":{id},\"streaming\":{},\"units\":\"{}\",\"sb\":{},\"eb\":{},\"desc\":{},\"nf\":{},\"keys\":{},\"ops\":[{}],\"out\":[{}],\"ok\":{ok},\"cls\":\"{cls}\",\"why\":{}}}",
        c.streaming,
        units_str(c.units),
        bound_json(c.sb),
        bound_json(c.eb),
        c.desc,
        c.nf,
        json_opt_list(&c.keys),
        ops_s.join(","),
        obs_s.join(","),
        json_str(&why)
    );
}

fn fixed_cases() -> Vec<Case> {
        vec![
        // witnesses of the known findings (run first on every run)
        // W1: ROWS n FOLLOWING with idx + n + 1 >= 2^64
        Case { units: U::Rows, sb: B::CR, eb: B::F(u64::MAX), desc: false, nf: false, keys: vec![Some(1), Some(2), Some(3)], streaming: false },
        // W2: RANGE target overflow next to the NULL group
        Case { units: U::Range, sb: B::P(5), eb: B::CR, desc: false, nf: true, keys: vec![None, None, Some(i64::MIN + 1), Some(i64::MIN + 3)], streaming: false },
        Case { units: U::Range, sb: B::F(1), eb: B::F(2), desc: false, nf: false, keys: vec![Some(i64::MAX), None], streaming: false },
        // plain
        Case { units: U::Groups, sb: B::P(1), eb: B::F(1), desc: false, nf: false, keys: vec![Some(5), Some(7), Some(8), Some(8), Some(9), Some(10), Some(10), Some(10), Some(11)], streaming: false },
        Case { units: U::Range, sb: B::P(1), eb: B::F(1), desc: true, nf: true, keys: vec![None, Some(9), Some(8), Some(8), Some(6), Some(5)], streaming: false },
    ]
}

fn main() {
    let args: Vec<String> = std::env::args().collect();
    let seed: u64 = arg(&args, "--seed", "1").parse().unwrap();
    let n: usize = arg(&args, "--n", "1000").parse().unwrap();
    std::panic::set_hook(Box::new(|_| {}));
    let mut rng = Rng::new(seed ^ 0xC09);
    let mut id = 0;
    for c in fixed_cases() {
        emit(id, &c, &mut rng);
        id += 1;
    }
    // every units x bound-kind pair x sort option on a fixed column (systematic part)
    let kinds = |u: U| -> Vec<B> { let _ = u; vec![B::UP, B::P(0), B::P(1), B::P(3), B::CR, B::F(0), B::F(1), B::F(3), B::UF] };
    for u in [U::Rows, U::Range, U::Groups] {
        for sb in kinds(u) {
            for eb in kinds(u) {
                if !valid(sb, eb) { continue; }
                for (desc, nf) in [(false, false), (false, true), (true, false), (true, true)] {
                    let mut vals = vec![1i64, 1, 2, 4, 4, 4, 5, 8];
                    if desc { vals.reverse(); }
                    let mut keys: Vec<Option<i64>> = vec![];
                    if nf { keys.extend([None, None]); }
                    keys.extend(vals.into_iter().map(Some));
                    if !nf { keys.extend([None, None]); }
                    let streaming = (id % 2) == 1;
                    emit(id, &Case { units: u, sb, eb, desc, nf, keys, streaming }, &mut rng);
                    id += 1;
                }
            }
        }
    }
    for _ in 0..n {
        let u = *rng.pick(&[U::Rows, U::Range, U::Range, U::Groups, U::Groups]);
        let huge = rng.chance(1, 12);
        let extreme = u == U::Range && rng.chance(1, 12);
        let (sb, eb) = gen_bounds(&mut rng, u, huge);
        let desc = rng.chance(1, 2);
        let nf = rng.chance(1, 2);
        let keys = gen_keys(&mut rng, desc, nf, extreme);
        let streaming = rng.chance(1, 2);
        emit(id, &Case { units: u, sb, eb, desc, nf, keys, streaming }, &mut rng);
        id += 1;
    }
}
