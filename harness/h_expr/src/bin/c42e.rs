//! C42 (second bin): the same contract checks driven through the real `impl TreeNode for Expr`
//! (datafusion/expr/src/tree_node.rs), whose apply_children / map_children go through the Box, Option,
//! Vec, Vec<(Box,Box)>, Vec<Vec<_>> and 2-/3-tuple `TreeNodeContainer` implementations of
//! common/src/tree_node.rs (transform_sibling / visit_sibling chains).
//!
//! A labelled tree is mirrored into an `Expr` whose node-local information encodes the label:
//!   0..99    Literal(Int64(v))                       (leaf)
//!   100..109 Not, IsNotNull, IsNull, IsTrue, IsFalse, IsUnknown, IsNotTrue, IsNotFalse, IsNotUnknown, Negative
//!   200..231 BinaryExpr with the k-th Operator        240..243 Like / SimilarTo (negated bit)
//!   300,301  Between (negated)                        400,401  InList (negated), children = expr :: list
//!   410,411  GroupingSet::Rollup / Cube               420      GroupingSet::GroupingSets (groups of 2)
//!   500..503 Case (bit0: has base expr, bit1: has else), children = expr? ++ (when,then)* ++ else?
//! A callback "relabels" a node by rebuilding the same variant family with other local information
//! (other literal, other operator, negated flipped, ...) over the same children.
//! Shared code (callbacks-as-data, oracle, runners): ../../../h_common/src/c42_shared.rs.
use datafusion_common::ScalarValue;
use datafusion_expr::expr::{Between, BinaryExpr, Case, GroupingSet, InList, Like};
use datafusion_expr::{Expr, Operator};
use h_util::{arg, Rng};

#[path = "../../../h_common/src/c42_shared.rs"]
mod shared;
use shared::*;

const OPS: [Operator; 32] = [
    Operator::Eq,
    Operator::NotEq,
    Operator::Lt,
    Operator::LtEq,
    Operator::Gt,
    Operator::GtEq,
    Operator::Plus,
    Operator::Minus,
    Operator::Multiply,
    Operator::Divide,
    Operator::Modulo,
    Operator::And,
    Operator::Or,
    Operator::IsDistinctFrom,
    Operator::IsNotDistinctFrom,
    Operator::RegexMatch,
    Operator::RegexIMatch,
    Operator::RegexNotMatch,
    Operator::RegexNotIMatch,
    Operator::LikeMatch,
    Operator::ILikeMatch,
    Operator::NotLikeMatch,
    Operator::NotILikeMatch,
    Operator::BitwiseAnd,
    Operator::BitwiseOr,
    Operator::BitwiseXor,
    Operator::BitwiseShiftRight,
    Operator::BitwiseShiftLeft,
    Operator::StringConcat,
    Operator::AtArrow,
    Operator::ArrowAt,
    Operator::Arrow,
];

fn unary(k: i64, e: Box<Expr>) -> Expr {
    match k {
        0 => Expr::Not(e),
        1 => Expr::IsNotNull(e),
        2 => Expr::IsNull(e),
        3 => Expr::IsTrue(e),
        4 => Expr::IsFalse(e),
        5 => Expr::IsUnknown(e),
        6 => Expr::IsNotTrue(e),
        7 => Expr::IsNotFalse(e),
        8 => Expr::IsNotUnknown(e),
        9 => Expr::Negative(e),
        _ => panic!("bad unary label"),
    }
}

fn mk(l: i64, mut cs: Vec<Expr>) -> Expr {
    let a = cs.len();
    match l {
        0..=99 => {
            assert_eq!(a, 0);
            Expr::Literal(ScalarValue::Int64(Some(l)), None)
        }
        100..=109 => {
            assert_eq!(a, 1);
            unary(l - 100, Box::new(cs.pop().unwrap()))
        }
        200..=231 => {
            assert_eq!(a, 2);
            let r = cs.pop().unwrap();
            let le = cs.pop().unwrap();
            Expr::BinaryExpr(BinaryExpr::new(Box::new(le), OPS[(l - 200) as usize], Box::new(r)))
        }
        240..=243 => {
            assert_eq!(a, 2);
            let p = cs.pop().unwrap();
            let e = cs.pop().unwrap();
            let like = Like::new(l & 1 == 1, Box::new(e), Box::new(p), None, false);
            if l >= 242 {
                Expr::SimilarTo(like)
            } else {
                Expr::Like(like)
            }
        }
        300 | 301 => {
            assert_eq!(a, 3);
            let h = cs.pop().unwrap();
            let lo = cs.pop().unwrap();
            let e = cs.pop().unwrap();
            Expr::Between(Between::new(Box::new(e), l == 301, Box::new(lo), Box::new(h)))
        }
        400 | 401 => {
            assert!(a >= 1);
            let e = cs.remove(0);
            Expr::InList(InList::new(Box::new(e), cs, l == 401))
        }
        410 => Expr::GroupingSet(GroupingSet::Rollup(cs)),
        411 => Expr::GroupingSet(GroupingSet::Cube(cs)),
        420 => {
            let mut groups: Vec<Vec<Expr>> = vec![];
            for (i, c) in cs.into_iter().enumerate() {
                if i % 2 == 0 {
                    groups.push(vec![]);
                }
                groups.last_mut().unwrap().push(c);
            }
            Expr::GroupingSet(GroupingSet::GroupingSets(groups))
        }
        500..=503 => {
            let he = (l - 500) & 1 == 1;
            let hl = (l - 500) & 2 == 2;
            let mut it = cs.into_iter();
            let base = if he { Some(Box::new(it.next().unwrap())) } else { None };
            let k = (a - he as usize - hl as usize) / 2;
            assert!(k >= 1 && he as usize + hl as usize + 2 * k == a);
            let mut wt = vec![];
            for _ in 0..k {
                let w = it.next().unwrap();
                let t = it.next().unwrap();
                wt.push((Box::new(w), Box::new(t)));
            }
            let el = if hl { Some(Box::new(it.next().unwrap())) } else { None };
            Expr::Case(Case::new(base, wt, el))
        }
        _ => panic!("bad label {l}"),
    }
}

/// (label, children) of an Expr built by `mk`
fn parts(e: &Expr) -> (i64, Vec<&Expr>) {
    match e {
        Expr::Literal(ScalarValue::Int64(Some(v)), _) => (*v, vec![]),
        Expr::Not(x) => (100, vec![x]),
        Expr::IsNotNull(x) => (101, vec![x]),
        Expr::IsNull(x) => (102, vec![x]),
        Expr::IsTrue(x) => (103, vec![x]),
        Expr::IsFalse(x) => (104, vec![x]),
        Expr::IsUnknown(x) => (105, vec![x]),
        Expr::IsNotTrue(x) => (106, vec![x]),
        Expr::IsNotFalse(x) => (107, vec![x]),
        Expr::IsNotUnknown(x) => (108, vec![x]),
        Expr::Negative(x) => (109, vec![x]),
        Expr::BinaryExpr(b) => (200 + OPS.iter().position(|o| *o == b.op).unwrap() as i64, vec![&b.left, &b.right]),
        Expr::Like(k) => (240 + k.negated as i64, vec![&k.expr, &k.pattern]),
        Expr::SimilarTo(k) => (242 + k.negated as i64, vec![&k.expr, &k.pattern]),
        Expr::Between(b) => (300 + b.negated as i64, vec![&b.expr, &b.low, &b.high]),
        Expr::InList(i) => {
            let mut v: Vec<&Expr> = vec![&i.expr];
            v.extend(i.list.iter());
            (400 + i.negated as i64, v)
        }
        Expr::GroupingSet(GroupingSet::Rollup(v)) => (410, v.iter().collect()),
        Expr::GroupingSet(GroupingSet::Cube(v)) => (411, v.iter().collect()),
        Expr::GroupingSet(GroupingSet::GroupingSets(g)) => (420, g.iter().flatten().collect()),
        Expr::Case(c) => {
            let mut v: Vec<&Expr> = vec![];
            if let Some(b) = &c.expr {
                v.push(b);
            }
            for (w, t) in &c.when_then_expr {
                v.push(w);
                v.push(t);
            }
            if let Some(b) = &c.else_expr {
                v.push(b);
            }
            (500 + c.expr.is_some() as i64 + 2 * c.else_expr.is_some() as i64, v)
        }
        other => panic!("unexpected Expr {other:?}"),
    }
}

impl TT for Expr {
    const IM: &'static str = "expr";
    fn build(s: &S) -> Self {
        mk(s.l, s.cs.iter().map(Expr::build).collect())
    }
    fn label(&self) -> i64 {
        parts(self).0
    }
    fn relabel(self, l: i64) -> Self {
        let cs: Vec<Expr> = parts(&self).1.into_iter().cloned().collect();
        mk(l, cs)
    }
    fn dump(&self) -> S {
        let (l, cs) = parts(self);
        S { l, cs: cs.into_iter().map(|c| c.dump()).collect() }
    }
}

/// labels a callback may turn `l` into (same variant family, same arity)
fn mates(l: i64) -> Vec<i64> {
    match l {
        0..=99 => (0..100).collect(),
        100..=109 => (100..110).collect(),
        200..=231 => (200..232).collect(),
        240..=243 => (240..244).collect(),
        300 | 301 => vec![300, 301],
        400 | 401 => vec![400, 401],
        410 | 411 => vec![410, 411],
        _ => vec![l],
    }
}

/// `tidy`: avoid variants whose last container is empty (InList with an empty list, Case without ELSE)
fn assign(s: &mut S, rng: &mut Rng, small: bool, tidy: bool) {
    let a = s.cs.len();
    let lit = |rng: &mut Rng| if small { rng.below(4) as i64 } else { rng.below(100) as i64 };
    let mut opts: Vec<i64> = match a {
        0 => vec![lit(rng), lit(rng), lit(rng), 410],
        1 => vec![100 + rng.below(10) as i64, 100 + rng.below(10) as i64, 400, 401, 410, 411],
        2 => vec![200 + rng.below(32) as i64, 200 + rng.below(32) as i64, 240 + rng.below(4) as i64, 400, 410, 420, 500],
        3 => vec![300, 301, 400, 401, 411, 420, 501, 502],
        _ => vec![400, 401, 410, 411, 420],
    };
    if a >= 4 {
        if a % 2 == 0 {
            opts.extend([500, 503]);
        } else {
            opts.extend([501, 502]);
        }
    }
    if tidy {
        opts.retain(|l| !(*l == 500 || *l == 501 || ((*l == 400 || *l == 401) && a == 1)));
    }
    s.l = *rng.pick(&opts);
    for c in &mut s.cs {
        assign(c, rng, small, tidy);
    }
}

fn rand_rtab_expr(rng: &mut Rng, labels: &[i64], honest: bool) -> RTab {
    let style = rng.below(5);
    let change = rng.below(3);
    let mut t = RTab::new();
    let mut keys: Vec<i64> = labels.to_vec();
    // also decide for some labels a callback may produce (seen by f_up after f_down relabelled)
    for l in labels {
        let m = mates(*l);
        for _ in 0..2 {
            keys.push(*rng.pick(&m));
        }
    }
    keys.sort();
    keys.dedup();
    for l in keys {
        let d = rand_dir(rng, style);
        let ch = match change {
            0 => false,
            1 => rng.chance(1, 2),
            _ => true,
        };
        let m = mates(l);
        let nl = if ch { *rng.pick(&m) } else { l };
        let fl = if honest { nl != l || rng.chance(1, 6) } else { rng.chance(1, 2) };
        t.insert(l, (nl, fl, d));
    }
    t
}

const METHODS: [&str; 6] = ["down", "up", "up_syn", "down_up", "rewrite", "map_children"];

fn main() {
    std::panic::set_hook(Box::new(|_| {}));
    let args: Vec<String> = std::env::args().collect();
    let args = &args[1..];
    let seed: u64 = arg(args, "--seed", "1").parse().unwrap();
    let n: usize = arg(args, "--n", "300").parse().unwrap();
    let mut rng = Rng::new(seed ^ 0x42e);

    // ---- (1) every tree shape with <= 4 nodes, one random variant assignment each, every directive vector
    //      for apply; for 2..3 nodes every (f_down, f_up) directive pair for visit and rewrite
    let dirs = [Continue, Jump, Stop];
    for size in 1..=4usize {
        for mut s in trees(size) {
            let tidy = rng.chance(1, 2);
            assign(&mut s, &mut rng, false, tidy);
            // make labels distinct where the family allows, so that the vector is per node
            let mut pre = vec![];
            s.preorder(&mut pre);
            let mut labels = pre.clone();
            labels.sort();
            labels.dedup();
            for code in 0..3usize.pow(labels.len() as u32) {
                let mut t = VTab::new();
                let mut c = code;
                for l in &labels {
                    t.insert(*l, dirs[c % 3]);
                    c /= 3;
                }
                case_apply::<Expr>(&s, &t);
                case_apply_children::<Expr>(&s, &t);
                if size <= 3 {
                    for code2 in 0..3usize.pow(labels.len() as u32) {
                        let mut u = VTab::new();
                        let mut c = code2;
                        for l in &labels {
                            u.insert(*l, dirs[c % 3]);
                            c /= 3;
                        }
                        case_visit::<Expr>(&s, &t, &u);
                        let dt: RTab = t.iter().map(|(l, d)| (*l, (*l, code2 % 2 == 0, *d))).collect();
                        let ut: RTab = u.iter().map(|(l, d)| (*l, (*l, code % 2 == 0, *d))).collect();
                        case_trans::<Expr>(if (code + code2) % 2 == 0 { "rewrite" } else { "down_up" }, &s, &dt, &ut);
                    }
                }
            }
        }
    }

    // ---- (2) random Expr trees x random tables
    for i in 0..n {
        let size = 1 + rng.below(12) as usize;
        let mut s = random_tree(&mut rng, size);
        let small = rng.chance(1, 3);
        let tidy = rng.chance(1, 2);
        assign(&mut s, &mut rng, small, tidy);
        let mut labels = vec![];
        s.preorder(&mut labels);
        labels.sort();
        labels.dedup();
        let dt = rand_vtab(&mut rng, &labels);
        let ut = rand_vtab(&mut rng, &labels);
        case_apply::<Expr>(&s, &dt);
        case_visit::<Expr>(&s, &dt, &ut);
        case_apply_children::<Expr>(&s, &dt);
        let hits: Vec<i64> = if rng.chance(1, 4) { vec![] } else { (0..1 + rng.below(2)).map(|_| *rng.pick(&labels)).collect() };
        case_exists::<Expr>(&s, &hits);
        let is_honest = !rng.chance(1, 5);
        let rd = rand_rtab_expr(&mut rng, &labels, is_honest);
        let ru = rand_rtab_expr(&mut rng, &labels, is_honest);
        case_trans::<Expr>(METHODS[i % METHODS.len()], &s, &rd, &ru);
        case_trans::<Expr>(METHODS[(i + 3) % METHODS.len()], &s, &rd, &ru);
        case_trans::<Expr>("rewrite", &s, &rd, &ru);
    }
}
