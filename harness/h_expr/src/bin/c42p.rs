//! C42 (plan level): the *_with_subqueries traversals of LogicalPlan must all see the same nodes
//! (inspecting and transforming traversals agree), for every kind of subquery expression.
use std::sync::Arc;

use datafusion_common::tree_node::{Transformed, TreeNode, TreeNodeRecursion, TreeNodeRewriter, TreeNodeVisitor};
use datafusion_common::{Result, Spans};
use datafusion_expr::expr::{Exists, InSubquery, SetComparison, SetQuantifier};
use datafusion_expr::{lit, Expr, LogicalPlan, LogicalPlanBuilder, Operator, Subquery};
use h_util::{arg, json_str, Rng};

fn leaf(tag: i64) -> LogicalPlan {
    LogicalPlanBuilder::empty(true).project(vec![lit(tag).alias("c")]).unwrap().build().unwrap()
}
fn subq(p: LogicalPlan) -> Subquery {
    Subquery { subquery: Arc::new(p), outer_ref_columns: vec![], spans: Spans::new() }
}
fn pred(kind: u64, p: LogicalPlan) -> Expr {
    match kind {
        0 => Expr::ScalarSubquery(subq(p)).eq(lit(1i64)),
        1 => Expr::Exists(Exists { subquery: subq(p), negated: false }),
        2 => Expr::InSubquery(InSubquery { expr: Box::new(lit(1i64)), subquery: subq(p), negated: false }),
        _ => Expr::SetComparison(SetComparison::new(Box::new(lit(1i64)), subq(p), Operator::Gt, SetQuantifier::All)),
    }
}
fn gen(rng: &mut Rng, depth: u32, tag: &mut i64, kinds: &mut Vec<u64>) -> LogicalPlan {
    *tag += 1;
    let base = leaf(*tag);
    if depth == 0 { return base; }
    let n = 1 + rng.below(2);
    let mut e: Option<Expr> = None;
    for _ in 0..n {
        let k = rng.below(4);
        kinds.push(k);
        let sub = gen(rng, depth - 1, tag, kinds);
        let p = pred(k, sub);
        e = Some(match e { None => p, Some(x) => x.and(p) });
    }
    LogicalPlanBuilder::from(base).filter(e.unwrap()).unwrap().build().unwrap()
}
fn name(p: &LogicalPlan) -> String { format!("{}", p.display()) }

struct V(Vec<String>);
impl<'n> TreeNodeVisitor<'n> for V {
    type Node = LogicalPlan;
    fn f_down(&mut self, n: &'n LogicalPlan) -> Result<TreeNodeRecursion> { self.0.push(name(n)); Ok(TreeNodeRecursion::Continue) }
}
struct R(Vec<String>);
impl TreeNodeRewriter for R {
    type Node = LogicalPlan;
    fn f_down(&mut self, n: LogicalPlan) -> Result<Transformed<LogicalPlan>> { self.0.push(name(&n)); Ok(Transformed::no(n)) }
}

fn main() {
    std::panic::set_hook(Box::new(|_| {}));
    let args: Vec<String> = std::env::args().collect();
    let seed: u64 = arg(&args, "--seed", "1").parse().unwrap();
    let n: u64 = arg(&args, "--n", "200").parse().unwrap();
    let mut rng = Rng::new(seed);
    for case in 0..n {
        let mut tag = 0;
        let mut kinds = vec![];
        // the first cases use a single subquery of each kind, then random nestings
        let plan = if case < 4 {
            kinds.push(case);
            LogicalPlanBuilder::from(leaf(100)).filter(pred(case, leaf(200))).unwrap().build().unwrap()
        } else {
            let d = 1 + rng.below(3) as u32;
            gen(&mut rng, d, &mut tag, &mut kinds)
        };
        let mut a: Vec<String> = vec![];
        plan.apply_with_subqueries(|p| { a.push(name(p)); Ok(TreeNodeRecursion::Continue) }).unwrap();
        let mut d: Vec<String> = vec![];
        let td = plan.clone().transform_down_with_subqueries(|p| { d.push(name(&p)); Ok(Transformed::no(p)) }).unwrap();
        let mut u: Vec<String> = vec![];
        let _ = plan.clone().transform_up_with_subqueries(|p| { u.push(name(&p)); Ok(Transformed::no(p)) }).unwrap();
        let mut v = V(vec![]);
        plan.visit_with_subqueries(&mut v).unwrap();
        let mut r = R(vec![]);
        let _ = plan.clone().rewrite_with_subqueries(&mut r).unwrap();
        // a real rewrite: mark every Projection as changed
        let mut projections = 0;
        let tr = plan.clone().transform_down_with_subqueries(|p| {
            if matches!(p, LogicalPlan::Projection(_)) { projections += 1; Ok(Transformed::yes(p)) } else { Ok(Transformed::no(p)) }
        }).unwrap();
        let sorted = |mut x: Vec<String>| { x.sort(); x };
        let (sa, sd, su, sv, sr) = (sorted(a.clone()), sorted(d.clone()), sorted(u), sorted(v.0), sorted(r.0));
        let expected_projections = sa.iter().filter(|s| s.starts_with("Projection")).count();
        let mut why = String::new();
        if sa != sd { why = format!("apply_with_subqueries saw {} nodes, transform_down_with_subqueries {}", sa.len(), sd.len()); }
        else if sa != su { why = format!("apply_with_subqueries saw {} nodes, transform_up_with_subqueries {}", sa.len(), su.len()); }
        else if sa != sv { why = format!("apply_with_subqueries saw {} nodes, visit_with_subqueries {}", sa.len(), sv.len()); }
        else if sa != sr { why = format!("apply_with_subqueries saw {} nodes, rewrite_with_subqueries {}", sa.len(), sr.len()); }
        else if a != d { why = "apply and transform_down visit the nodes in different orders".into(); }
        else if td.transformed { why = "identity transform reported a change".into(); }
        else if projections != expected_projections || tr.transformed != (expected_projections > 0) {
            why = format!("rewrite reached {projections} of {expected_projections} projections, transformed flag {}", tr.transformed);
        }
        let ok = why.is_empty();
        println!("{{\"k\":\"plan_subq\",\"case\":{case},\"kinds\":{},\"nodes\":{},\"plan\":{},\"ok\":{ok},\"why\":{}}}",
                 h_util::json_list(&kinds), sa.len(), json_str(&format!("{}", plan.display_indent())), json_str(&why));
    }
}
