//! C07: aggregate function state can be split, merged and retracted exactly.
//!
//! Enumerates `datafusion_functions_aggregate::all_default_aggregate_functions()`; for every function x
//! configured argument types builds the REAL `Accumulator` (`AggregateUDF::accumulator`), the sliding accumulator
//! (`create_sliding_accumulator`) and the `GroupsAccumulator` (native when `groups_accumulator_supported`,
//! otherwise the real `GroupsAccumulatorAdapter`) and replays random histories.  One JSON object per line:
//!   k = "scalar"   rows, a batch split of all rows, partitions (each split into batches), merge order, merge call shape;
//!                  observed: whole, split, per-partition results, merged result, whole over the permuted rows
//!                  oracle: split == whole; merged == whole(rows of the partitions in merge order);
//!                  order-insensitive functions: whole(permuted) == whole
//!   k = "retract"  sliding windows over the rows with update_batch / retract_batch as the window executor does;
//!                  oracle: evaluate() on every non-empty frame == fresh accumulator over the frame
//!   k = "groups"   history of update_batch(values, group_indices, filter, total) / evaluate(All|First n) /
//!                  state(All|First n) / merge_batch / convert_to_state on the GroupsAccumulator;
//!                  oracle: every emitted group == scalar accumulator over the rows that reached that group
//!                  (emitted state rows are judged by merging them into a fresh scalar accumulator)
//!   k = "fn"       one line per function configuration: what could be built (coverage)
//! "ok" is the direct property oracle on the implementation alone.  Errors / panics of calls are data ("err:..").
//! Float results are compared bit-exactly first; a mismatch within 1e-9 relative is reported as "approx":true
//! (a test statistic, not a failure); sketch quantiles (t-digest) are reported but never fail.
use std::panic::{catch_unwind, AssertUnwindSafe};
use std::sync::Arc;

use arrow::array::{
    Array, ArrayRef, BooleanArray, Decimal128Array, Float64Array, Int64Array, Int8Array, StringArray, UInt64Array,
};
use arrow::compute::concat;
use arrow::datatypes::{DataType, Field, FieldRef, Schema};
use datafusion_common::ScalarValue;
use datafusion_expr::{Accumulator, AggregateUDF, EmitTo, GroupsAccumulator};
use datafusion_functions_aggregate_common::accumulator::AccumulatorArgs;
use datafusion_functions_aggregate_common::aggregate::groups_accumulator::GroupsAccumulatorAdapter;
use datafusion_physical_expr::expressions::{Column, Literal};
use datafusion_physical_expr_common::physical_expr::PhysicalExpr;
use datafusion_physical_expr_common::sort_expr::PhysicalSortExpr;
use h_util::{arg, json_str, Rng};

type R<T> = Result<T, String>;

#[derive(Clone, Copy, PartialEq, Debug)]
enum Ty {
    I64,
    I8,
    U64,
    F64,
    Bool,
    Utf8,
    Dec,
}
impl Ty {
    fn dt(self) -> DataType {
        match self {
            Ty::I64 => DataType::Int64,
            Ty::I8 => DataType::Int8,
            Ty::U64 => DataType::UInt64,
            Ty::F64 => DataType::Float64,
            Ty::Bool => DataType::Boolean,
            Ty::Utf8 => DataType::Utf8,
            Ty::Dec => DataType::Decimal128(10, 2),
        }
    }
    fn name(self) -> &'static str {
        match self {
            Ty::I64 => "i64",
            Ty::I8 => "i8",
            Ty::U64 => "u64",
            Ty::F64 => "f64",
            Ty::Bool => "bool",
            Ty::Utf8 => "utf8",
            Ty::Dec => "dec",
        }
    }
}

#[derive(Clone, Debug, PartialEq)]
enum Val {
    I(i64),
    U(u64),
    F(f64),
    B(bool),
    S(String),
}
type Row = Vec<Option<Val>>;

fn val_json(v: &Option<Val>) -> String {
    match v {
        None => "null".into(),
        Some(Val::I(x)) => x.to_string(),
        Some(Val::U(x)) => x.to_string(),
        Some(Val::F(x)) => format!("{:?}", x),
        Some(Val::B(x)) => x.to_string(),
        Some(Val::S(x)) => json_str(x),
    }
}
fn row_json(r: &Row) -> String {
    format!("[{}]", r.iter().map(val_json).collect::<Vec<_>>().join(","))
}
fn rows_json(rs: &[Row]) -> String {
    format!("[{}]", rs.iter().map(row_json).collect::<Vec<_>>().join(","))
}

fn mk_array(ty: Ty, vals: &[Option<Val>]) -> ArrayRef {
    macro_rules! col {
        ($arr:ident, $pat:ident, $conv:expr) => {
            Arc::new(
                vals.iter()
                    .map(|v| match v {
                        Some(Val::$pat(x)) => Some($conv(x)),
                        None => None,
                        _ => unreachable!("value of the wrong type"),
                    })
                    .collect::<$arr>(),
            ) as ArrayRef
        };
    }
    match ty {
        Ty::I64 => col!(Int64Array, I, |x: &i64| *x),
        Ty::I8 => col!(Int8Array, I, |x: &i64| *x as i8),
        Ty::U64 => col!(UInt64Array, U, |x: &u64| *x),
        Ty::F64 => col!(Float64Array, F, |x: &f64| *x),
        Ty::Bool => col!(BooleanArray, B, |x: &bool| *x),
        Ty::Utf8 => col!(StringArray, S, |x: &String| x.clone()),
        Ty::Dec => Arc::new(
            vals.iter()
                .map(|v| match v {
                    Some(Val::I(x)) => Some(*x as i128),
                    None => None,
                    _ => unreachable!(),
                })
                .collect::<Decimal128Array>()
                .with_precision_and_scale(10, 2)
                .unwrap(),
        ) as ArrayRef,
    }
}

/// run a call of the real implementation; errors and panics are data
fn call<T>(f: impl FnOnce() -> datafusion_common::Result<T>) -> R<T> {
    match catch_unwind(AssertUnwindSafe(f)) {
        Ok(Ok(v)) => Ok(v),
        Ok(Err(e)) => Err(format!("err:{}", e.to_string().lines().next().unwrap_or(""))),
        Err(p) => {
            let m = if let Some(s) = p.downcast_ref::<&str>() {
                s.to_string()
            } else if let Some(s) = p.downcast_ref::<String>() {
                s.clone()
            } else {
                "?".into()
            };
            Err(format!("panic:{}", m.lines().next().unwrap_or("")))
        }
    }
}

// ------------------------------------------------------------------ configurations
#[derive(Clone)]
struct Cfg {
    tag: String,
    fname: &'static str,
    tys: Vec<Ty>,
    lits: Vec<ScalarValue>,
    distinct: bool,
    order_by: bool,
    ignore_nulls: bool,
    /// the result depends on the order of the rows (no ORDER BY given): merge order / permutations are not compared
    order_sensitive: bool,
    /// result is a list whose element order is unspecified: compared as a multiset
    set_valued: bool,
    /// sketch based quantiles: outside the property (reported only)
    sketch: bool,
    /// floating point moment statistics: retraction is numerically unstable (catastrophic cancellation); a
    /// retract-vs-recompute difference is reported as "drift" (a test statistic), never as a failure
    float_stat: bool,
}

fn cfg(fname: &'static str, tys: &[Ty]) -> Cfg {
    let tag = format!("{}({})", fname, tys.iter().map(|t| t.name()).collect::<Vec<_>>().join(","));
    Cfg {
        tag,
        fname,
        tys: tys.to_vec(),
        lits: vec![],
        distinct: false,
        order_by: false,
        ignore_nulls: false,
        order_sensitive: false,
        set_valued: false,
        sketch: false,
        float_stat: matches!(fname, "covar_samp" | "covar_pop" | "corr" | "var" | "var_samp" | "var_pop" | "stddev" | "stddev_pop")
            || fname.starts_with("regr_"),
    }
}
impl Cfg {
    fn lit(mut self, v: ScalarValue) -> Self {
        self.tag = format!("{}[{}]", self.tag, v);
        self.lits.push(v);
        self
    }
    fn distinct(mut self) -> Self {
        self.tag = format!("{} distinct", self.tag);
        self.distinct = true;
        self
    }
    fn ordered(mut self) -> Self {
        self.tag = format!("{} order_by", self.tag);
        self.order_by = true;
        self.order_sensitive = false;
        self
    }
    fn ignore_nulls(mut self) -> Self {
        self.tag = format!("{} ignore_nulls", self.tag);
        self.ignore_nulls = true;
        self
    }
    fn osens(mut self) -> Self {
        self.order_sensitive = true;
        self
    }
    fn setv(mut self) -> Self {
        self.set_valued = true;
        self
    }
    fn sketch(mut self) -> Self {
        self.sketch = true;
        self
    }
}

fn configs(fname: &'static str) -> Vec<Cfg> {
    use Ty::*;
    let f2 = [F64, F64];
    match fname {
        "any_value" => vec![cfg(fname, &[I64]).osens()],
        "array_agg" => vec![
            cfg(fname, &[I64]).osens(),
            cfg(fname, &[I64]).distinct().setv(),
            cfg(fname, &[I64]).ordered(),
            cfg(fname, &[Utf8]).osens(),
        ],
        "first_value" | "last_value" => vec![
            cfg(fname, &[I64]).osens(),
            cfg(fname, &[I64]).ignore_nulls().osens(),
            cfg(fname, &[I64]).ordered(),
            cfg(fname, &[I64]).ignore_nulls().ordered(),
            cfg(fname, &[Utf8]).ordered(),
        ],
        "nth_value" => vec![
            cfg(fname, &[I64]).lit(ScalarValue::Int64(Some(2))).osens(),
            cfg(fname, &[I64]).lit(ScalarValue::Int64(Some(-2))).osens(),
        ],
        "covar_samp" | "covar_pop" | "corr" | "regr_slope" | "regr_intercept" | "regr_count" | "regr_r2"
        | "regr_avgx" | "regr_avgy" | "regr_sxx" | "regr_syy" | "regr_sxy" => vec![cfg(fname, &f2)],
        "sum" => vec![
            cfg(fname, &[I64]),
            cfg(fname, &[U64]),
            cfg(fname, &[F64]),
            cfg(fname, &[Dec]),
            cfg(fname, &[I64]).distinct(),
        ],
        "max" | "min" => vec![cfg(fname, &[I64]), cfg(fname, &[F64]), cfg(fname, &[Utf8]), cfg(fname, &[Bool]), cfg(fname, &[Dec])],
        "median" => vec![cfg(fname, &[F64]), cfg(fname, &[Dec]), cfg(fname, &[F64]).distinct()],
        "count" => vec![
            cfg(fname, &[I64]),
            cfg(fname, &[Utf8]),
            cfg(fname, &[I64]).distinct(),
            cfg(fname, &[I8]).distinct(),
            cfg(fname, &[Bool]).distinct(),
            cfg(fname, &[Utf8]).distinct(),
            cfg(fname, &[F64]).distinct(),
        ],
        "var_samp" | "var" | "var_pop" | "stddev" | "stddev_pop" => vec![cfg(fname, &[F64]), cfg(fname, &[F64]).distinct()],
        "approx_median" => vec![cfg(fname, &[F64]).sketch()],
        "approx_distinct" => vec![cfg(fname, &[I64]), cfg(fname, &[Utf8]), cfg(fname, &[I8])],
        "approx_percentile_cont" => vec![cfg(fname, &[F64]).lit(ScalarValue::Float64(Some(0.25))).sketch()],
        "approx_percentile_cont_with_weight" => {
            vec![cfg(fname, &[F64, F64]).lit(ScalarValue::Float64(Some(0.25))).sketch()]
        }
        "percentile_cont" => vec![
            cfg(fname, &[F64]).lit(ScalarValue::Float64(Some(0.25))),
            cfg(fname, &[F64]).lit(ScalarValue::Float64(Some(1.0))),
        ],
        "string_agg" => vec![
            cfg(fname, &[Utf8]).lit(ScalarValue::Utf8(Some(",".into()))).osens(),
            cfg(fname, &[Utf8]).lit(ScalarValue::Utf8(Some(",".into()))).ordered(),
        ],
        "bit_and" | "bit_or" => vec![cfg(fname, &[I64]), cfg(fname, &[I8]), cfg(fname, &[U64])],
        "bit_xor" => vec![cfg(fname, &[I64]), cfg(fname, &[I8]), cfg(fname, &[I64]).distinct()],
        "bool_and" | "bool_or" => vec![cfg(fname, &[Bool])],
        "avg" => vec![cfg(fname, &[F64]), cfg(fname, &[Dec]), cfg(fname, &[F64]).distinct()],
        "grouping" => vec![cfg(fname, &[I64])],
        _ => vec![cfg(fname, &[F64])],
    }
}

struct Inst {
    udf: Arc<AggregateUDF>,
    cfg: Cfg,
    schema: Schema,
    exprs: Vec<Arc<dyn PhysicalExpr>>,
    expr_fields: Vec<FieldRef>,
    order_bys: Vec<PhysicalSortExpr>,
    return_field: FieldRef,
    /// column types of a row: the value columns, then the ORDER BY key (Int64) if any
    row_tys: Vec<Ty>,
}

impl Inst {
    fn new(udf: Arc<AggregateUDF>, cfg: Cfg) -> R<Inst> {
        let mut fields: Vec<Field> =
            cfg.tys.iter().enumerate().map(|(i, t)| Field::new(format!("c{}", i), t.dt(), true)).collect();
        let mut row_tys = cfg.tys.clone();
        if cfg.order_by {
            fields.push(Field::new("ord", DataType::Int64, true));
            row_tys.push(Ty::I64);
        }
        let schema = Schema::new(fields.clone());
        let mut exprs: Vec<Arc<dyn PhysicalExpr>> = vec![];
        let mut expr_fields: Vec<FieldRef> = vec![];
        for (i, _) in cfg.tys.iter().enumerate() {
            exprs.push(Arc::new(Column::new(&format!("c{}", i), i)));
            expr_fields.push(Arc::new(fields[i].clone()));
        }
        for l in &cfg.lits {
            exprs.push(Arc::new(Literal::new(l.clone())));
            expr_fields.push(Arc::new(Field::new("lit", l.data_type(), false)));
        }
        let order_bys = if cfg.order_by {
            vec![PhysicalSortExpr::new_default(Arc::new(Column::new("ord", cfg.tys.len())))]
        } else {
            vec![]
        };
        let ef = expr_fields.clone();
        let u = Arc::clone(&udf);
        let return_field = call(move || u.return_field(&ef))?;
        Ok(Inst { udf, cfg, schema, exprs, expr_fields, order_bys, return_field, row_tys })
    }
    fn args(&self) -> AccumulatorArgs<'_> {
        AccumulatorArgs {
            return_field: Arc::clone(&self.return_field),
            schema: &self.schema,
            ignore_nulls: self.cfg.ignore_nulls,
            order_bys: &self.order_bys,
            is_reversed: false,
            name: "agg",
            is_distinct: self.cfg.distinct,
            exprs: &self.exprs,
            expr_fields: &self.expr_fields,
        }
    }
    fn acc(&self) -> R<Box<dyn Accumulator>> {
        call(|| self.udf.accumulator(self.args()))
    }
    fn sliding(&self) -> R<Box<dyn Accumulator>> {
        call(|| self.udf.create_sliding_accumulator(self.args()))
    }
    /// arrays handed to update_batch: argument expressions (columns, expanded literals) then ORDER BY keys,
    /// as `aggregate_expressions` in the physical plan does
    fn arrays(&self, rows: &[Row]) -> Vec<ArrayRef> {
        let n = rows.len();
        let nv = self.cfg.tys.len();
        let mut out: Vec<ArrayRef> = vec![];
        for c in 0..nv {
            let col: Vec<Option<Val>> = rows.iter().map(|r| r[c].clone()).collect();
            out.push(mk_array(self.row_tys[c], &col));
        }
        for l in &self.cfg.lits {
            out.push(l.to_array_of_size(n).expect("literal array"));
        }
        if self.cfg.order_by {
            let col: Vec<Option<Val>> = rows.iter().map(|r| r[nv].clone()).collect();
            out.push(mk_array(Ty::I64, &col));
        }
        out
    }
}

// ------------------------------------------------------------------ results
fn sv_json(v: &ScalarValue) -> String {
    if v.is_null() {
        return "null".into();
    }
    match v {
        ScalarValue::Int8(Some(x)) => x.to_string(),
        ScalarValue::Int16(Some(x)) => x.to_string(),
        ScalarValue::Int32(Some(x)) => x.to_string(),
        ScalarValue::Int64(Some(x)) => x.to_string(),
        ScalarValue::UInt8(Some(x)) => x.to_string(),
        ScalarValue::UInt16(Some(x)) => x.to_string(),
        ScalarValue::UInt32(Some(x)) => x.to_string(),
        ScalarValue::UInt64(Some(x)) => x.to_string(),
        ScalarValue::Boolean(Some(x)) => x.to_string(),
        ScalarValue::Float64(Some(x)) => format!("{{\"f\":\"{:016x}\",\"v\":{}}}", x.to_bits(), json_str(&format!("{:?}", x))),
        ScalarValue::Float32(Some(x)) => format!("{{\"f\":\"{:08x}\",\"v\":{}}}", x.to_bits(), json_str(&format!("{:?}", x))),
        ScalarValue::Utf8(Some(s)) | ScalarValue::LargeUtf8(Some(s)) | ScalarValue::Utf8View(Some(s)) => json_str(s),
        ScalarValue::List(a) => list_json(a.as_ref()),
        other => match other {
            ScalarValue::LargeList(a) => list_json(a.as_ref()),
            _ => format!("{{\"s\":{}}}", json_str(&other.to_string())),
        },
    }
}
fn list_json(a: &dyn Array) -> String {
    // a single-row list array: render the elements of row 0
    let a = arrow::array::make_array(a.to_data());
    let inner: Option<ArrayRef> = if let Some(l) = a.as_any().downcast_ref::<arrow::array::ListArray>() {
        if l.len() == 0 || l.is_null(0) { None } else { Some(l.value(0)) }
    } else if let Some(l) = a.as_any().downcast_ref::<arrow::array::LargeListArray>() {
        if l.len() == 0 || l.is_null(0) { None } else { Some(l.value(0)) }
    } else {
        None
    };
    match inner {
        None => "null".into(),
        Some(inner) => {
            let mut parts = vec![];
            for i in 0..inner.len() {
                parts.push(match ScalarValue::try_from_array(&inner, i) {
                    Ok(s) => sv_json(&s),
                    Err(e) => json_str(&format!("?{}", e)),
                });
            }
            format!("[{}]", parts.join(","))
        }
    }
}
fn res_json(r: &R<ScalarValue>) -> String {
    match r {
        Ok(v) => sv_json(v),
        Err(e) => format!("{{\"err\":{}}}", json_str(e)),
    }
}

#[derive(PartialEq, Clone, Copy)]
enum Cmp {
    Same,
    Approx,
    Diff,
}
/// canonical text of a result; `set`: element order of a top-level list is irrelevant
fn canon(r: &R<ScalarValue>, set: bool) -> String {
    match r {
        Err(e) => format!("E:{}", e.split(':').next().unwrap_or("")),
        Ok(v) => {
            let s = sv_json(v);
            if set && s.starts_with('[') {
                // top-level split on commas is enough: set-valued results here are lists of scalars
                let body = &s[1..s.len() - 1];
                let mut parts: Vec<&str> = if body.is_empty() { vec![] } else { body.split(',').collect() };
                parts.sort();
                format!("[{}]", parts.join(","))
            } else {
                s
            }
        }
    }
}
fn as_f64(v: &ScalarValue) -> Option<f64> {
    match v {
        ScalarValue::Float64(Some(x)) => Some(*x),
        ScalarValue::Float32(Some(x)) => Some(*x as f64),
        _ => None,
    }
}
fn cmp_res(a: &R<ScalarValue>, b: &R<ScalarValue>, set: bool) -> Cmp {
    if canon(a, set) == canon(b, set) {
        return Cmp::Same;
    }
    if let (Ok(x), Ok(y)) = (a, b) {
        if let (Some(x), Some(y)) = (as_f64(x), as_f64(y)) {
            let d = (x - y).abs();
            let m = x.abs().max(y.abs());
            if d <= 1e-9 * m.max(1.0) {
                return Cmp::Approx;
            }
        }
    }
    Cmp::Diff
}

// ------------------------------------------------------------------ generators
struct Gen {
    rng: Rng,
    /// ORDER BY keys are unique within one case
    key_base: i64,
}
impl Gen {
    fn val(&mut self, ty: Ty, profile: u64) -> Val {
        let r = &mut self.rng;
        match ty {
            Ty::I64 => Val::I(match profile {
                0 => r.range(-3, 3),
                1 => r.range(-1000, 1000),
                2 => *r.pick(&[i64::MAX, i64::MIN, i64::MAX - 1, i64::MIN + 1, 1, -1, 0, 1 << 62, -(1 << 62), 7]),
                _ => r.range(0, 255),
            }),
            Ty::I8 => Val::I(match profile {
                0 => r.range(-3, 3),
                2 => *r.pick(&[127i64, -128, 126, -127, 0, 1, -1, 85, -86]),
                _ => r.range(-128, 127),
            }),
            Ty::U64 => Val::U(match profile {
                0 => r.below(5),
                2 => *r.pick(&[u64::MAX, u64::MAX - 1, 1 << 63, 0, 1, 3]),
                _ => r.below(2000),
            }),
            // integer-valued (or halves) and small: every sum is exact, so float results do not depend on order
            Ty::F64 => Val::F(match profile {
                0 => r.range(-3, 3) as f64,
                3 => r.range(-40, 40) as f64 / 2.0,
                _ => r.range(-1000, 1000) as f64,
            }),
            Ty::Bool => Val::B(r.chance(1, 2)),
            Ty::Utf8 => Val::S(match profile {
                0 => r.pick(&["a", "b", ""]).to_string(),
                _ => {
                    let n = r.below(4);
                    (0..n).map(|_| *r.pick(&['a', 'b', 'z', 'A', ',', 'é'])).collect()
                }
            }),
            Ty::Dec => Val::I(match profile {
                0 => r.range(-3, 3),
                _ => r.range(-99999, 99999),
            }),
        }
    }
    /// rows for an instance; ORDER BY keys are distinct (a random permutation) so that results are determined
    fn rows(&mut self, inst: &Inst, n: usize) -> Vec<Row> {
        let profile = *self.rng.pick(&[0u64, 0, 1, 1, 2, 3]);
        let null_pct = *self.rng.pick(&[0u64, 0, 20, 20, 60, 100]);
        let nv = inst.cfg.tys.len();
        let mut keys: Vec<i64> = (self.key_base..self.key_base + n as i64).collect();
        self.key_base += n as i64;
        for i in (1..n).rev() {
            let j = self.rng.below(i as u64 + 1) as usize;
            keys.swap(i, j);
        }
        (0..n)
            .map(|i| {
                let mut row: Row = (0..nv)
                    .map(|c| {
                        if self.rng.below(100) < null_pct {
                            None
                        } else {
                            let p = if self.rng.chance(1, 8) { self.rng.below(4) } else { profile };
                            Some(self.val(inst.row_tys[c], p))
                        }
                    })
                    .collect();
                if inst.cfg.order_by {
                    row.push(Some(Val::I(keys[i] * 3 - 7)));
                }
                row
            })
            .collect()
    }
    /// cut 0..n into contiguous pieces (possibly empty ones)
    fn cuts(&mut self, n: usize, max_pieces: usize) -> Vec<(usize, usize)> {
        let k = 1 + self.rng.below(max_pieces as u64) as usize;
        let mut pts: Vec<usize> = (0..k - 1).map(|_| self.rng.below(n as u64 + 1) as usize).collect();
        pts.sort();
        let mut out = vec![];
        let mut a = 0;
        for p in pts {
            out.push((a, p));
            a = p;
        }
        out.push((a, n));
        out
    }
}

// ------------------------------------------------------------------ scalar histories
fn eval_whole(inst: &Inst, rows: &[Row]) -> R<ScalarValue> {
    let mut a = inst.acc()?;
    let arrs = inst.arrays(rows);
    call(|| a.update_batch(&arrs))?;
    call(|| a.evaluate())
}

fn state_arrays(a: &mut Box<dyn Accumulator>) -> R<Vec<ArrayRef>> {
    let st = call(|| a.state())?;
    call(|| st.iter().map(|s| s.to_array()).collect::<datafusion_common::Result<Vec<_>>>())
}

fn concat_cols(states: &[Vec<ArrayRef>]) -> R<Vec<ArrayRef>> {
    let ncol = states[0].len();
    let mut out = vec![];
    for c in 0..ncol {
        let col: Vec<&dyn Array> = states.iter().map(|s| s[c].as_ref()).collect();
        out.push(concat(&col).map_err(|e| format!("err:concat {}", e))?);
    }
    Ok(out)
}

fn scalar_case(inst: &Inst, g: &mut Gen, id: u64) {
    let n = *g.rng.pick(&[0usize, 1, 2, 3, 5, 8, 13, 21, 70]);
    let n = if n == 70 && !g.rng.chance(1, 4) { 6 } else { n };
    let rows = g.rows(inst, n);
    let whole = eval_whole(inst, &rows);
    // split of all rows, evaluate() after every batch (evaluate must not consume)
    let split_cuts = g.cuts(n, 4);
    let split = (|| -> R<ScalarValue> {
        let mut a = inst.acc()?;
        let mut last = call(|| a.evaluate())?;
        for &(s, e) in &split_cuts {
            let arrs = inst.arrays(&rows[s..e]);
            call(|| a.update_batch(&arrs))?;
            last = call(|| a.evaluate())?;
        }
        let again = call(|| a.evaluate())?;
        if canon(&Ok(again), false) != canon(&Ok(last.clone()), false) {
            return Err("err:evaluate twice differs".into());
        }
        Ok(last)
    })();
    // partitions
    let part_cuts = g.cuts(n, 4);
    let np = part_cuts.len();
    let mut order: Vec<usize> = (0..np).collect();
    if g.rng.chance(3, 5) {
        for i in (1..np).rev() {
            let j = g.rng.below(i as u64 + 1) as usize;
            order.swap(i, j);
        }
    }
    let single_call = g.rng.chance(1, 2);
    let mut parts_batches: Vec<Vec<(usize, usize)>> = vec![];
    for &(s, e) in &part_cuts {
        let bc = g.cuts(e - s, 3);
        parts_batches.push(bc.iter().map(|&(a, b)| (s + a, s + b)).collect());
    }
    let mut part_evals: Vec<R<ScalarValue>> = vec![];
    let merged = (|| -> R<ScalarValue> {
        let mut states: Vec<Vec<ArrayRef>> = vec![];
        for bc in &parts_batches {
            let mut a = inst.acc()?;
            for &(s, e) in bc {
                let arrs = inst.arrays(&rows[s..e]);
                call(|| a.update_batch(&arrs))?;
            }
            part_evals.push(call(|| a.evaluate()));
            states.push(state_arrays(&mut a)?);
        }
        let mut fin = inst.acc()?;
        let ordered: Vec<Vec<ArrayRef>> = order.iter().map(|&i| states[i].clone()).collect();
        if single_call {
            let cols = concat_cols(&ordered)?;
            call(|| fin.merge_batch(&cols))?;
        } else {
            for st in &ordered {
                call(|| fin.merge_batch(st))?;
            }
        }
        call(|| fin.evaluate())
    })();
    let perm_rows: Vec<Row> = order.iter().flat_map(|&i| rows[part_cuts[i].0..part_cuts[i].1].to_vec()).collect();
    let whole_perm = eval_whole(inst, &perm_rows);

    let set = inst.cfg.set_valued;
    let c_split = cmp_res(&split, &whole, set);
    let c_merge = cmp_res(&merged, &whole_perm, set);
    let c_perm = if inst.cfg.order_sensitive { Cmp::Same } else { cmp_res(&whole_perm, &whole, set) };
    let mut why = vec![];
    if c_split == Cmp::Diff {
        why.push("split");
    }
    if c_merge == Cmp::Diff {
        why.push("merge");
    }
    if c_perm == Cmp::Diff {
        why.push("perm");
    }
    let approx = [c_split, c_merge, c_perm].contains(&Cmp::Approx);
    let ok = why.is_empty() || inst.cfg.sketch;
    println!(
        "{{\"k\":\"scalar\",\"id\":{},\"fn\":{},\"rows\":{},\"split\":{},\"parts\":{},\"order\":{:?},\"single_call\":{},\"whole\":{},\"split_res\":{},\"part_evals\":[{}],\"merged\":{},\"whole_perm\":{},\"ok\":{},\"approx\":{},\"sketch\":{},\"why\":{}}}",
        id,
        json_str(&inst.cfg.tag),
        rows_json(&rows),
        cuts_json(&split_cuts),
        format!("[{}]", parts_batches.iter().map(|b| cuts_json(b)).collect::<Vec<_>>().join(",")),
        order,
        single_call,
        res_json(&whole),
        res_json(&split),
        part_evals.iter().map(res_json).collect::<Vec<_>>().join(","),
        res_json(&merged),
        res_json(&whole_perm),
        ok,
        approx,
        inst.cfg.sketch,
        json_str(&why.join("+"))
    );
}
fn cuts_json(c: &[(usize, usize)]) -> String {
    format!("[{}]", c.iter().map(|(a, b)| format!("[{},{}]", a, b)).collect::<Vec<_>>().join(","))
}

// ------------------------------------------------------------------ retract histories
fn retract_case(inst: &Inst, g: &mut Gen, id: u64) -> bool {
    let mut sl = match inst.sliding() {
        Ok(a) => a,
        Err(_) => return false,
    };
    if !sl.supports_retract_batch() {
        return false;
    }
    let n = *g.rng.pick(&[1usize, 2, 3, 5, 8, 13]);
    let rows = g.rows(inst, n);
    // monotone frames (start and end never move backwards), as sliding window frames do
    let mut frames: Vec<(usize, usize)> = vec![];
    let (mut s, mut e) = (0usize, 0usize);
    let steps = 1 + g.rng.below(8);
    for _ in 0..steps {
        e = (e + g.rng.below(4) as usize).min(n);
        s = (s + g.rng.below(3) as usize).min(e);
        frames.push((s, e));
    }
    let mut obs: Vec<String> = vec![];
    let mut exp: Vec<String> = vec![];
    let mut why = String::new();
    let mut approx = false;
    let (mut ps, mut pe) = (0usize, 0usize);
    for &(s, e) in &frames {
        // SlidingAggregateWindowExpr::get_aggregate_result_inside_range: an empty frame is answered with the
        // default value without touching the accumulator; otherwise update with the entering rows, then retract
        if s == e {
            obs.push("\"empty\"".into());
            exp.push("\"empty\"".into());
            continue;
        }
        let r = (|| -> R<ScalarValue> {
            if e > pe {
                let arrs = inst.arrays(&rows[pe..e]);
                call(|| sl.update_batch(&arrs))?;
            }
            if s > ps {
                let arrs = inst.arrays(&rows[ps..s]);
                call(|| sl.retract_batch(&arrs))?;
            }
            call(|| sl.evaluate())
        })();
        ps = s;
        pe = e;
        let want = eval_whole(inst, &rows[s..e]);
        match cmp_res(&r, &want, inst.cfg.set_valued) {
            Cmp::Diff => {
                if why.is_empty() {
                    why = format!("frame [{},{})", s, e);
                }
            }
            Cmp::Approx => approx = true,
            Cmp::Same => {}
        }
        obs.push(res_json(&r));
        exp.push(res_json(&want));
    }
    println!(
        "{{\"k\":\"retract\",\"id\":{},\"fn\":{},\"rows\":{},\"frames\":{},\"obs\":[{}],\"recomputed\":[{}],\"ok\":{},\"approx\":{},\"sketch\":{},\"why\":{}}}",
        id,
        json_str(&inst.cfg.tag),
        rows_json(&rows),
        cuts_json(&frames),
        obs.join(","),
        exp.join(","),
        why.is_empty() || inst.cfg.sketch || inst.cfg.float_stat,
        approx || (inst.cfg.float_stat && !why.is_empty()),
        inst.cfg.sketch,
        json_str(&why)
    );
    true
}

// ------------------------------------------------------------------ groups histories
fn make_groups(inst: &Arc<Inst>) -> R<(Box<dyn GroupsAccumulator>, bool)> {
    let native = call(|| Ok(inst.udf.groups_accumulator_supported(inst.args())))?;
    if native {
        Ok((call(|| inst.udf.create_groups_accumulator(inst.args()))?, true))
    } else {
        inst.acc()?; // make sure the factory works at all
        let i2 = Arc::clone(inst);
        Ok((Box::new(GroupsAccumulatorAdapter::new(move || i2.udf.accumulator(i2.args()))), false))
    }
}

fn filter_json(f: &Option<Vec<Option<bool>>>) -> String {
    match f {
        None => "null".into(),
        Some(v) => format!(
            "[{}]",
            v.iter()
                .map(|x| match x {
                    None => "null".to_string(),
                    Some(b) => b.to_string(),
                })
                .collect::<Vec<_>>()
                .join(",")
        ),
    }
}
fn wire_row_json(cols: &[ArrayRef], i: usize) -> String {
    let parts: Vec<String> = cols
        .iter()
        .map(|c| match ScalarValue::try_from_array(c, i) {
            Ok(s) => sv_json(&s),
            Err(e) => json_str(&format!("?{}", e)),
        })
        .collect();
    format!("[{}]", parts.join(","))
}
fn wire_json(cols: &[ArrayRef]) -> String {
    let n = cols.first().map(|c| c.len()).unwrap_or(0);
    format!("[{}]", (0..n).map(|i| wire_row_json(cols, i)).collect::<Vec<_>>().join(","))
}

/// a single-row state is judged by merging it into a fresh GroupsAccumulator of the same kind (the real data
/// flow partial -> final) and evaluating that
fn judge_state(inst: &Arc<Inst>, one: &[ArrayRef]) -> R<ScalarValue> {
    let (mut ga, _) = make_groups(inst)?;
    call(|| ga.merge_batch(one, &[0], 1))?;
    let arr = call(|| ga.evaluate(EmitTo::All))?;
    if arr.len() != 1 {
        return Err(format!("err:evaluate after merging one state row returned {} rows", arr.len()));
    }
    call(|| ScalarValue::try_from_array(&arr, 0))
}

struct Pooled {
    cols: Vec<ArrayRef>, // one row
    rows: Vec<Row>,      // the rows this state stands for
}

fn groups_case(inst: &Arc<Inst>, g: &mut Gen, id: u64) -> bool {
    let (mut ga, native) = match make_groups(inst) {
        Ok(x) => x,
        Err(_) => return false,
    };
    let set = inst.cfg.set_valued;
    let mut refs: Vec<Vec<Row>> = vec![]; // rows that reached each live group, in arrival order
    let mut pool: Vec<Pooled> = vec![];
    let mut ops: Vec<String> = vec![];
    let mut why = String::new();
    let mut approx = false;
    let mut dead = false;
    let nsteps = 2 + g.rng.below(7);
    let profile_big = g.rng.chance(1, 6);
    macro_rules! note {
        ($c:expr, $what:expr) => {
            match $c {
                Cmp::Diff => {
                    if why.is_empty() {
                        why = $what;
                    }
                }
                Cmp::Approx => approx = true,
                Cmp::Same => {}
            }
        };
    }
    // order sensitive functions see the rows of one group in arrival order in both worlds, so they are comparable
    for step in 0..=nsteps {
        if dead {
            break;
        }
        let last = step == nsteps;
        let choice = if last { 90 + g.rng.below(10) } else { g.rng.below(100) };
        if choice < 45 {
            // ---- update_batch
            let n = if profile_big && g.rng.chance(1, 2) { *g.rng.pick(&[64usize, 70, 130]) } else { g.rng.below(10) as usize };
            let rows = g.rows(inst, n);
            let mut live = refs.len();
            let mut gidx: Vec<usize> = vec![];
            for _ in 0..n {
                if live == 0 || g.rng.chance(1, 4) {
                    gidx.push(live);
                    live += 1;
                } else {
                    gidx.push(g.rng.below(live as u64) as usize);
                }
            }
            let filt: Option<Vec<Option<bool>>> = if g.rng.chance(1, 2) {
                None
            } else {
                let p = *g.rng.pick(&[10u64, 50, 90]);
                Some((0..n).map(|_| if g.rng.chance(1, 8) { None } else { Some(g.rng.below(100) < p) }).collect())
            };
            let arrs = inst.arrays(&rows);
            let fa: Option<BooleanArray> = filt.as_ref().map(|f| f.iter().cloned().collect());
            let r = call(|| ga.update_batch(&arrs, &gidx, fa.as_ref(), live));
            refs.resize(live, vec![]);
            for (i, row) in rows.iter().enumerate() {
                let pass = match &filt {
                    None => true,
                    Some(f) => f[i] == Some(true),
                };
                if pass {
                    refs[gidx[i]].push(row.clone());
                }
            }
            let mut o = format!(
                "{{\"op\":\"upd\",\"rows\":{},\"g\":{:?},\"f\":{},\"total\":{}",
                rows_json(&rows),
                gidx,
                filter_json(&filt),
                live
            );
            if let Err(e) = r {
                o.push_str(&format!(",\"err\":{}", json_str(&e)));
                why = format!("update_batch failed: {}", e);
                dead = true;
            }
            o.push('}');
            ops.push(o);
        } else if choice < 60 {
            // ---- convert_to_state on a batch: every row becomes a single-row state in the pool
            let n = 1 + g.rng.below(6) as usize;
            let rows = g.rows(inst, n);
            let filt: Option<Vec<Option<bool>>> = if g.rng.chance(1, 2) {
                None
            } else {
                Some((0..n).map(|_| if g.rng.chance(1, 6) { None } else { Some(g.rng.chance(1, 2)) }).collect())
            };
            let arrs = inst.arrays(&rows);
            let fa: Option<BooleanArray> = filt.as_ref().map(|f| f.iter().cloned().collect());
            match call(|| ga.convert_to_state(&arrs, fa.as_ref())) {
                Ok(cols) => {
                    ops.push(format!(
                        "{{\"op\":\"conv\",\"rows\":{},\"f\":{},\"out\":{}}}",
                        rows_json(&rows),
                        filter_json(&filt),
                        wire_json(&cols)
                    ));
                    let ok_len = cols.iter().all(|c| c.len() == n);
                    if !ok_len {
                        why = "convert_to_state: wrong number of rows".into();
                        dead = true;
                        continue;
                    }
                    for i in 0..n {
                        let pass = filt.as_ref().map(|f| f[i] == Some(true)).unwrap_or(true);
                        let rr: Vec<Row> = if pass { vec![rows[i].clone()] } else { vec![] };
                        let one: Vec<ArrayRef> = cols.iter().map(|c| c.slice(i, 1)).collect();
                        // judged through a fresh scalar accumulator
                        let got = judge_state(inst, &one);
                        let want = eval_whole(inst, &rr);
                        note!(cmp_res(&got, &want, set), format!("convert_to_state row {}: merged into a fresh groups accumulator gives {} but the row alone gives {}", i, res_json(&got), res_json(&want)));
                        pool.push(Pooled { cols: one, rows: rr });
                    }
                }
                Err(e) => {
                    ops.push(format!("{{\"op\":\"conv\",\"rows\":{},\"f\":{},\"err\":{}}}", rows_json(&rows), filter_json(&filt), json_str(&e)));
                    if !e.contains("not implemented") && !e.contains("This feature is not implemented") {
                        why = format!("convert_to_state failed: {}", e);
                    }
                }
            }
        } else if choice < 72 && !pool.is_empty() {
            // ---- merge_batch of pooled state rows
            let k = 1 + g.rng.below(pool.len().min(6) as u64) as usize;
            let mut picked: Vec<Pooled> = vec![];
            for _ in 0..k {
                let j = g.rng.below(pool.len() as u64) as usize;
                picked.push(pool.swap_remove(j));
            }
            let mut live = refs.len();
            let mut gidx: Vec<usize> = vec![];
            for _ in 0..k {
                if live == 0 || g.rng.chance(1, 3) {
                    gidx.push(live);
                    live += 1;
                } else {
                    gidx.push(g.rng.below(live as u64) as usize);
                }
            }
            let states: Vec<Vec<ArrayRef>> = picked.iter().map(|p| p.cols.clone()).collect();
            let cols = match concat_cols(&states) {
                Ok(c) => c,
                Err(e) => {
                    why = e;
                    dead = true;
                    continue;
                }
            };
            let r = call(|| ga.merge_batch(&cols, &gidx, live));
            refs.resize(live, vec![]);
            for (i, p) in picked.iter().enumerate() {
                refs[gidx[i]].extend(p.rows.iter().cloned());
            }
            let mut o = format!("{{\"op\":\"merge\",\"w\":{},\"g\":{:?},\"total\":{}", wire_json(&cols), gidx, live);
            if let Err(e) = r {
                o.push_str(&format!(",\"err\":{}", json_str(&e)));
                why = format!("merge_batch failed: {}", e);
                dead = true;
            }
            o.push('}');
            ops.push(o);
        } else {
            // ---- emit: evaluate or state, All or First n
            let live = refs.len();
            if live == 0 {
                // the engine never emits zero groups
                continue;
            }
            let all = last || g.rng.chance(1, 3);
            let n = if all { live } else { 1 + g.rng.below(live as u64) as usize };
            let emit = if all { EmitTo::All } else { EmitTo::First(n) };
            let use_state = g.rng.chance(2, 5);
            let nj = if all { "null".to_string() } else { n.to_string() };
            if use_state {
                match call(|| ga.state(emit)) {
                    Ok(cols) => {
                        ops.push(format!("{{\"op\":\"state\",\"n\":{},\"out\":{}}}", nj, wire_json(&cols)));
                        if cols.iter().any(|c| c.len() != n) {
                            why = format!("state({}) returned {} rows, expected {}", nj, cols.first().map(|c| c.len()).unwrap_or(0), n);
                            dead = true;
                            continue;
                        }
                        for i in 0..n {
                            let one: Vec<ArrayRef> = cols.iter().map(|c| c.slice(i, 1)).collect();
                            let got = judge_state(inst, &one);
                            let want = eval_whole(inst, &refs[i]);
                            note!(cmp_res(&got, &want, set), format!("state({}) group {}: merged into a fresh groups accumulator gives {} but scalar accumulation of the group's rows gives {}", nj, i, res_json(&got), res_json(&want)));
                            pool.push(Pooled { cols: one, rows: refs[i].clone() });
                        }
                    }
                    Err(e) => {
                        ops.push(format!("{{\"op\":\"state\",\"n\":{},\"err\":{}}}", nj, json_str(&e)));
                        why = format!("state failed: {}", e);
                        dead = true;
                    }
                }
            } else {
                match call(|| ga.evaluate(emit)) {
                    Ok(arr) => {
                        ops.push(format!("{{\"op\":\"eval\",\"n\":{},\"out\":{}}}", nj, {
                            let parts: Vec<String> = (0..arr.len())
                                .map(|i| match ScalarValue::try_from_array(&arr, i) {
                                    Ok(s) => sv_json(&s),
                                    Err(e) => json_str(&format!("?{}", e)),
                                })
                                .collect();
                            format!("[{}]", parts.join(","))
                        }));
                        if arr.len() != n {
                            why = format!("evaluate({}) returned {} rows, expected {}", nj, arr.len(), n);
                            dead = true;
                            continue;
                        }
                        for i in 0..n {
                            let got = call(|| ScalarValue::try_from_array(&arr, i));
                            let want = eval_whole(inst, &refs[i]);
                            note!(cmp_res(&got, &want, set), format!("evaluate({}) group {}: {} but scalar accumulation of the group's rows gives {}", nj, i, res_json(&got), res_json(&want)));
                        }
                    }
                    Err(e) => {
                        // the scalar accumulator may fail in the same way (e.g. overflow): then it is not a disagreement
                        let scalar_fails = (0..n).any(|i| eval_whole(inst, &refs[i]).is_err());
                        ops.push(format!("{{\"op\":\"eval\",\"n\":{},\"err\":{}}}", nj, json_str(&e)));
                        if !scalar_fails {
                            why = format!("evaluate failed: {}", e);
                        }
                        dead = true;
                    }
                }
            }
            refs.drain(0..n);
        }
    }
    println!(
        "{{\"k\":\"groups\",\"id\":{},\"fn\":{},\"native\":{},\"ops\":[{}],\"ok\":{},\"approx\":{},\"sketch\":{},\"why\":{}}}",
        id,
        json_str(&inst.cfg.tag),
        native,
        ops.join(","),
        why.is_empty() || inst.cfg.sketch,
        approx,
        inst.cfg.sketch,
        json_str(&why)
    );
    true
}

// ------------------------------------------------------------------ fixed witnesses (run first on every run)
fn witnesses(insts: &[Arc<Inst>]) {
    // sliding frames whose rows are all NULL after a non-NULL row has left (retract must bring back NULL)
    for inst in insts {
        if inst.cfg.tys.len() != 1 || inst.cfg.order_by {
            continue;
        }
        let ty = inst.cfg.tys[0];
        let mut g = Gen { rng: Rng::new(7), key_base: 0 };
        let v = g.val(ty, 1);
        let rows: Vec<Row> = vec![vec![Some(v)], vec![None]];
        let mut sl = match inst.sliding() {
            Ok(a) => a,
            Err(_) => continue,
        };
        if !sl.supports_retract_batch() {
            continue;
        }
        let frames = [(0usize, 1usize), (1, 2)];
        let mut obs = vec![];
        let mut exp = vec![];
        let mut why = String::new();
        let r0 = (|| -> R<ScalarValue> {
            let a = inst.arrays(&rows[0..1]);
            call(|| sl.update_batch(&a))?;
            call(|| sl.evaluate())
        })();
        let r1 = (|| -> R<ScalarValue> {
            let a = inst.arrays(&rows[1..2]);
            call(|| sl.update_batch(&a))?;
            let b = inst.arrays(&rows[0..1]);
            call(|| sl.retract_batch(&b))?;
            call(|| sl.evaluate())
        })();
        for (r, (s, e)) in [r0, r1].iter().zip(frames.iter()) {
            let want = eval_whole(inst, &rows[*s..*e]);
            if cmp_res(r, &want, inst.cfg.set_valued) == Cmp::Diff && why.is_empty() {
                why = format!("frame [{},{})", s, e);
            }
            obs.push(res_json(r));
            exp.push(res_json(&want));
        }
        println!(
            "{{\"k\":\"retract\",\"id\":-1,\"witness\":true,\"fn\":{},\"rows\":{},\"frames\":[[0,1],[1,2]],\"obs\":[{}],\"recomputed\":[{}],\"ok\":{},\"approx\":false,\"sketch\":{},\"why\":{}}}",
            json_str(&inst.cfg.tag),
            rows_json(&rows),
            obs.join(","),
            exp.join(","),
            why.is_empty() || inst.cfg.sketch,
            inst.cfg.sketch,
            json_str(&why)
        );
    }
}

fn main() {
    let args: Vec<String> = std::env::args().collect();
    let seed: u64 = arg(&args, "--seed", "1").parse().unwrap_or(1);
    let n: u64 = arg(&args, "--n", "40").parse().unwrap_or(40);
    let only = arg(&args, "--only", "");
    std::panic::set_hook(Box::new(|_| {}));
    let mut g = Gen { rng: Rng::new(seed), key_base: 0 };
    let mut insts: Vec<Arc<Inst>> = vec![];
    for udf in datafusion_functions_aggregate::all_default_aggregate_functions() {
        let name: &'static str = Box::leak(udf.name().to_string().into_boxed_str());
        for c in configs(name) {
            if !only.is_empty() && !c.tag.starts_with(&only) {
                continue;
            }
            let tag = c.tag.clone();
            match Inst::new(Arc::clone(&udf), c) {
                Ok(inst) => {
                    let inst = Arc::new(inst);
                    let acc = inst.acc();
                    let sliding = inst.sliding().map(|a| a.supports_retract_batch());
                    let groups = make_groups(&inst).map(|(_, native)| native);
                    println!(
                        "{{\"k\":\"fn\",\"fn\":{},\"ret\":{},\"acc\":{},\"retract\":{},\"groups\":{},\"sketch\":{}}}",
                        json_str(&tag),
                        json_str(&inst.return_field.data_type().to_string()),
                        match &acc {
                            Ok(_) => "true".to_string(),
                            Err(e) => json_str(e),
                        },
                        match &sliding {
                            Ok(b) => b.to_string(),
                            Err(e) => json_str(e),
                        },
                        match &groups {
                            Ok(true) => "\"native\"".to_string(),
                            Ok(false) => "\"adapter\"".to_string(),
                            Err(e) => json_str(e),
                        },
                        inst.cfg.sketch
                    );
                    if acc.is_ok() {
                        insts.push(inst);
                    }
                }
                Err(e) => println!("{{\"k\":\"fn\",\"fn\":{},\"acc\":{}}}", json_str(&tag), json_str(&e)),
            }
        }
    }
    witnesses(&insts);
    // fixed-seed streams for the configurations with listed findings: the same inputs on every run
    {
        let mut wg = Gen { rng: Rng::new(424242), key_base: 0 };
        let mut wid = 1_000_000u64;
        for inst in &insts {
            let t = inst.cfg.tag.as_str();
            if t == "nth_value(i64)[-2]" {
                for _ in 0..300 {
                    wid += 1;
                    wg.key_base = 0;
                    scalar_case(inst, &mut wg, wid);
                }
            }
            if t == "bit_xor(i64) distinct" || t.starts_with("percentile_cont(") {
                for _ in 0..25 {
                    wid += 1;
                    wg.key_base = 0;
                    groups_case(inst, &mut wg, wid);
                }
            }
        }
    }
    let mut id = 0u64;
    for inst in &insts {
        for _ in 0..n {
            id += 1;
            g.key_base = 0;
            scalar_case(inst, &mut g, id);
        }
        for _ in 0..(n / 2).max(1) {
            id += 1;
            g.key_base = 0;
            if !retract_case(inst, &mut g, id) {
                break;
            }
        }
        for _ in 0..n {
            id += 1;
            g.key_base = 0;
            if !groups_case(inst, &mut g, id) {
                break;
            }
        }
    }
}
