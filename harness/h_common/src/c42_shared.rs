//! C42 shared harness code: tree descriptions, callbacks-as-data, the contract oracle, case runners and
//! generators.  Included (via #[path]) by h_common/src/bin/c42.rs and h_expr/src/bin/c42e.rs.
#![allow(dead_code)]
use std::cell::RefCell;
use std::collections::HashMap;
use std::marker::PhantomData;

use datafusion_common::tree_node::{
    Transformed, TreeNode, TreeNodeRecursion, TreeNodeRewriter, TreeNodeVisitor,
};
use datafusion_common::Result;
use h_util::Rng;

pub use TreeNodeRecursion::{Continue, Jump, Stop};
pub type Tnr = TreeNodeRecursion;

// ---------------------------------------------------------------- plain tree description
#[derive(Clone, Debug, PartialEq)]
pub struct S {
    pub l: i64,
    pub cs: Vec<S>,
}
impl S {
    pub fn json(&self) -> String {
        let cs: Vec<String> = self.cs.iter().map(|c| c.json()).collect();
        format!("[{},[{}]]", self.l, cs.join(","))
    }
    pub fn size(&self) -> usize {
        1 + self.cs.iter().map(|c| c.size()).sum::<usize>()
    }
    pub fn preorder(&self, out: &mut Vec<i64>) {
        out.push(self.l);
        for c in &self.cs {
            c.preorder(out);
        }
    }
}

pub trait TT: TreeNode + Sized {
    const IM: &'static str;
    fn build(s: &S) -> Self;
    fn label(&self) -> i64;
    fn relabel(self, l: i64) -> Self;
    fn dump(&self) -> S;
}

// ---------------------------------------------------------------- callbacks as data
pub type VTab = HashMap<i64, Tnr>;
pub type RTab = HashMap<i64, (i64, bool, Tnr)>;
pub type Log = Vec<(char, i64)>;

pub fn vdir(t: &VTab, l: i64) -> Tnr {
    *t.get(&l).unwrap_or(&Continue)
}
pub fn rdec(t: &RTab, l: i64) -> (i64, bool, Tnr) {
    *t.get(&l).unwrap_or(&(l, false, Continue))
}
pub fn rcall<T: TT>(ph: char, tab: &RTab, log: &RefCell<Log>, node: T) -> Result<Transformed<T>> {
    let l = node.label();
    log.borrow_mut().push((ph, l));
    let (nl, fl, d) = rdec(tab, l);
    let node = if nl != l { node.relabel(nl) } else { node };
    Ok(Transformed::new(node, fl, d))
}

pub struct Vis<'a, T> {
    pub dt: &'a VTab,
    pub ut: &'a VTab,
    pub log: Log,
    pub _p: PhantomData<T>,
}
impl<'n, 'a, T: TT + 'n> TreeNodeVisitor<'n> for Vis<'a, T> {
    type Node = T;
    fn f_down(&mut self, node: &'n T) -> Result<Tnr> {
        self.log.push(('d', node.label()));
        Ok(vdir(self.dt, node.label()))
    }
    fn f_up(&mut self, node: &'n T) -> Result<Tnr> {
        self.log.push(('u', node.label()));
        Ok(vdir(self.ut, node.label()))
    }
}
pub struct Rw<'a, T> {
    pub dt: &'a RTab,
    pub ut: &'a RTab,
    pub log: RefCell<Log>,
    pub _p: PhantomData<T>,
}
impl<'a, T: TT> TreeNodeRewriter for Rw<'a, T> {
    type Node = T;
    fn f_down(&mut self, node: T) -> Result<Transformed<T>> {
        rcall('d', self.dt, &self.log, node)
    }
    fn f_up(&mut self, node: T) -> Result<Transformed<T>> {
        rcall('u', self.ut, &self.log, node)
    }
}

// ---------------------------------------------------------------- JSON helpers
pub fn tn(t: Tnr) -> &'static str {
    match t {
        Continue => "C",
        Jump => "J",
        Stop => "S",
    }
}
pub fn log_json(l: &Log) -> String {
    let v: Vec<String> = l.iter().map(|(p, x)| format!("[\"{p}\",{x}]")).collect();
    format!("[{}]", v.join(","))
}
pub fn vtab_json(t: &VTab) -> String {
    let mut k: Vec<_> = t.iter().collect();
    k.sort_by_key(|(a, _)| **a);
    let v: Vec<String> = k.iter().map(|(a, d)| format!("[{},\"{}\"]", a, tn(**d))).collect();
    format!("[{}]", v.join(","))
}
pub fn rtab_json(t: &RTab) -> String {
    let mut k: Vec<_> = t.iter().collect();
    k.sort_by_key(|(a, _)| **a);
    let v: Vec<String> = k.iter().map(|(a, (nl, fl, d))| format!("[{},[{},{},\"{}\"]]", a, nl, fl, tn(*d))).collect();
    format!("[{}]", v.join(","))
}

// ---------------------------------------------------------------- the contract (direct oracle)
/// full f_down / f_up bracket sequence of the tree: (is_down, label)
pub fn brackets(s: &S, out: &mut Vec<(bool, i64)>) {
    out.push((true, s.l));
    for c in &s.cs {
        brackets(c, out);
    }
    out.push((false, s.l));
}
#[derive(Clone, Copy, PartialEq, Debug)]
pub enum Mode {
    Run,
    Skip(usize),
    UpJ,
    Halt,
}
pub struct Expect {
    pub log: Log,
    pub post: Vec<i64>,
    pub flag: bool,
    pub res: Tnr,
}
/// TreeNodeRecursion documentation as a linear scan: Jump in f_down shortcuts the children (f_up of the node
/// still runs); Jump in f_up bypasses f_up of ancestors until the next f_down; Stop ends everything.
pub fn scan(s: &S, fd: &dyn Fn(i64) -> (i64, bool, Tnr), fu: &dyn Fn(i64) -> (i64, bool, Tnr)) -> Expect {
    let mut ev = vec![];
    brackets(s, &mut ev);
    let mut mode = Mode::Run;
    let mut stk: Vec<i64> = vec![];
    let mut e = Expect { log: vec![], post: vec![], flag: false, res: Continue };
    for (down, l) in ev {
        if down {
            match mode {
                Mode::Run | Mode::UpJ => {
                    let (nl, fl, d) = fd(l);
                    e.log.push(('d', l));
                    e.flag |= fl;
                    stk.push(nl);
                    mode = match d {
                        Continue => Mode::Run,
                        Jump => Mode::Skip(0),
                        Stop => Mode::Halt,
                    };
                }
                Mode::Skip(d) => {
                    stk.push(l);
                    mode = Mode::Skip(d + 1);
                }
                Mode::Halt => stk.push(l),
            }
        } else {
            let cur = stk.pop().unwrap();
            match mode {
                Mode::Run | Mode::Skip(0) => {
                    let (nl, fl, d) = fu(cur);
                    e.log.push(('u', cur));
                    e.flag |= fl;
                    e.post.push(nl);
                    mode = match d {
                        Continue => Mode::Run,
                        Jump => Mode::UpJ,
                        Stop => Mode::Halt,
                    };
                }
                Mode::Skip(d) => {
                    e.post.push(cur);
                    mode = Mode::Skip(d - 1);
                }
                Mode::UpJ | Mode::Halt => e.post.push(cur),
            }
        }
    }
    e.res = match mode {
        Mode::Run | Mode::Skip(_) => Continue,
        Mode::UpJ => Jump,
        Mode::Halt => Stop,
    };
    e
}
/// the tree of shape `s` whose labels in post-order are `post`
pub fn with_post(s: &S, post: &mut std::slice::Iter<i64>) -> S {
    let cs: Vec<S> = s.cs.iter().map(|c| with_post(c, post)).collect();
    S { l: *post.next().unwrap(), cs }
}
/// apply: pre-order, subtree below every non-Continue node pruned, cut after the first Stop
pub fn pruned(s: &S, f: &VTab, out: &mut Vec<i64>) {
    out.push(s.l);
    if vdir(f, s.l) == Continue {
        for c in &s.cs {
            pruned(c, f, out);
        }
    }
}

// ---------------------------------------------------------------- case runners
pub fn guarded<F: FnOnce() -> String + std::panic::UnwindSafe>(head: &str, f: F) {
    match std::panic::catch_unwind(f) {
        Ok(line) => println!("{line}"),
        Err(_) => println!("{{{head},\"panic\":true,\"ok\":false}}"),
    }
}

pub fn case_apply<T: TT>(s: &S, tab: &VTab) {
    let head = format!("\"k\":\"apply\",\"im\":\"{}\",\"t\":{},\"tab\":{}", T::IM, s.json(), vtab_json(tab));
    guarded(&head.clone(), move || {
        let t = T::build(s);
        let mut log: Log = vec![];
        let r = t
            .apply(|n| {
                log.push(('d', n.label()));
                Ok(vdir(tab, n.label()))
            })
            .unwrap();
        let mut p = vec![];
        pruned(s, tab, &mut p);
        let mut exp: Log = vec![];
        let mut stopped = false;
        for l in p {
            exp.push(('d', l));
            if vdir(tab, l) == Stop {
                stopped = true;
                break;
            }
        }
        let ok = exp == log && r == if stopped { Stop } else { Continue } && t.dump() == *s;
        format!("{{{head},\"log\":{},\"res\":\"{}\",\"ok\":{ok}}}", log_json(&log), tn(r))
    });
}

pub fn case_apply_children<T: TT>(s: &S, tab: &VTab) {
    let head = format!("\"k\":\"apply_children\",\"im\":\"{}\",\"t\":{},\"tab\":{}", T::IM, s.json(), vtab_json(tab));
    guarded(&head.clone(), move || {
        let t = T::build(s);
        let mut log: Log = vec![];
        let r = t
            .apply_children(|n| {
                log.push(('d', n.label()));
                Ok(vdir(tab, n.label()))
            })
            .unwrap();
        // f on each child, left to right, until one says Stop; result = last directive (Continue if none)
        let mut exp: Log = vec![];
        let mut er = Continue;
        for c in &s.cs {
            exp.push(('d', c.l));
            er = vdir(tab, c.l);
            if er == Stop {
                break;
            }
        }
        let ok = exp == log && r == er;
        format!("{{{head},\"log\":{},\"res\":\"{}\",\"ok\":{ok}}}", log_json(&log), tn(r))
    });
}

pub fn case_exists<T: TT>(s: &S, hits: &[i64]) {
    let hj: Vec<String> = hits.iter().map(|h| h.to_string()).collect();
    let head = format!("\"k\":\"exists\",\"im\":\"{}\",\"t\":{},\"hits\":[{}]", T::IM, s.json(), hj.join(","));
    guarded(&head.clone(), move || {
        let t = T::build(s);
        let mut log: Log = vec![];
        let r = t
            .exists(|n| {
                log.push(('d', n.label()));
                Ok(hits.contains(&n.label()))
            })
            .unwrap();
        let mut p = vec![];
        s.preorder(&mut p);
        let mut exp: Log = vec![];
        let mut found = false;
        for l in p {
            exp.push(('d', l));
            if hits.contains(&l) {
                found = true;
                break;
            }
        }
        let ok = exp == log && r == found;
        format!("{{{head},\"log\":{},\"res\":{r},\"ok\":{ok}}}", log_json(&log))
    });
}

pub fn case_visit<T: TT>(s: &S, dt: &VTab, ut: &VTab) {
    let head = format!(
        "\"k\":\"visit\",\"im\":\"{}\",\"t\":{},\"dtab\":{},\"utab\":{}",
        T::IM,
        s.json(),
        vtab_json(dt),
        vtab_json(ut)
    );
    guarded(&head.clone(), move || {
        let t = T::build(s);
        let mut v = Vis::<T> { dt, ut, log: vec![], _p: PhantomData };
        let r = t.visit(&mut v).unwrap();
        let e = scan(s, &|l| (l, false, vdir(dt, l)), &|l| (l, false, vdir(ut, l)));
        let ok = e.log == v.log && e.res == r && t.dump() == *s;
        format!("{{{head},\"log\":{},\"res\":\"{}\",\"ok\":{ok}}}", log_json(&v.log), tn(r))
    });
}

pub fn honest(t: &RTab) -> bool {
    t.iter().all(|(l, (nl, fl, _))| nl == l || *fl)
}

/// m in down | up | up_syn (fn transform) | down_up | rewrite | map_children
pub fn case_trans<T: TT>(m: &str, s: &S, dt: &RTab, ut: &RTab) {
    let head = format!(
        "\"k\":\"trans\",\"m\":\"{m}\",\"im\":\"{}\",\"t\":{},\"dtab\":{},\"utab\":{}",
        T::IM,
        s.json(),
        rtab_json(dt),
        rtab_json(ut)
    );
    let m = m.to_string();
    guarded(&head.clone(), move || {
        let t = T::build(s);
        let log = RefCell::new(vec![]);
        let id = |l: i64| (l, false, Continue);
        let (res, exp): (Transformed<T>, Expect) = match m.as_str() {
            "down" => {
                let r = t.transform_down(|n| rcall('d', dt, &log, n)).unwrap();
                let mut e = scan(s, &|l| rdec(dt, l), &id);
                e.log.retain(|(p, _)| *p == 'd');
                (r, e)
            }
            "up" => {
                let r = t.transform_up(|n| rcall('u', ut, &log, n)).unwrap();
                let mut e = scan(s, &id, &|l| rdec(ut, l));
                e.log.retain(|(p, _)| *p == 'u');
                (r, e)
            }
            "up_syn" => {
                let r = t.transform(|n| rcall('u', ut, &log, n)).unwrap();
                let mut e = scan(s, &id, &|l| rdec(ut, l));
                e.log.retain(|(p, _)| *p == 'u');
                (r, e)
            }
            "down_up" => {
                let r = t.transform_down_up(|n| rcall('d', dt, &log, n), |n| rcall('u', ut, &log, n)).unwrap();
                (r, scan(s, &|l| rdec(dt, l), &|l| rdec(ut, l)))
            }
            "rewrite" => {
                let mut rw = Rw::<T> { dt, ut, log: RefCell::new(vec![]), _p: PhantomData };
                let r = t.rewrite(&mut rw).unwrap();
                *log.borrow_mut() = rw.log.into_inner();
                (r, scan(s, &|l| rdec(dt, l), &|l| rdec(ut, l)))
            }
            "map_children" => {
                let r = t.map_children(|n| rcall('d', dt, &log, n)).unwrap();
                // f on each child left to right until one says Stop; flag = OR; tnr = last (Continue if none)
                let mut e = Expect { log: vec![], post: vec![], flag: false, res: Continue };
                let mut stopped = false;
                let mut cs = vec![];
                for c in &s.cs {
                    if stopped {
                        cs.push(c.clone());
                        continue;
                    }
                    let (nl, fl, d) = rdec(dt, c.l);
                    e.log.push(('d', c.l));
                    e.flag |= fl;
                    e.res = d;
                    stopped = d == Stop;
                    cs.push(S { l: nl, cs: c.cs.clone() });
                }
                let mut post = vec![];
                fn po(s: &S, o: &mut Vec<i64>) {
                    for c in &s.cs {
                        po(c, o);
                    }
                    o.push(s.l);
                }
                po(&S { l: s.l, cs }, &mut post);
                e.post = post;
                (r, e)
            }
            _ => unreachable!(),
        };
        let log = log.into_inner();
        let out = res.data.dump();
        let want = with_post(s, &mut exp.post.iter());
        // Arc<dyn> map_children keeps the old node when no child *reported* a change, so a callback that
        // changes a label without reporting it is (by design) lost there: the tree is only checked by the
        // oracle for honest callbacks on `dyn` (the Coq model covers the dishonest case exactly).
        let tree_checked = T::IM != "dyn" || (honest(dt) && honest(ut));
        let ok = exp.log == log && exp.flag == res.transformed && exp.res == res.tnr && (!tree_checked || out == want);
        format!(
            "{{{head},\"log\":{},\"out\":{},\"flag\":{},\"res\":\"{}\",\"ok\":{ok}}}",
            log_json(&log),
            out.json(),
            res.transformed,
            tn(res.tnr)
        )
    });
}

// ---------------------------------------------------------------- generators
/// all ordered forests with n nodes (shapes only)
pub fn forests(n: usize) -> Vec<Vec<S>> {
    if n == 0 {
        return vec![vec![]];
    }
    let mut out = vec![];
    for first in 1..=n {
        for t in trees(first) {
            for rest in forests(n - first) {
                let mut f = vec![t.clone()];
                f.extend(rest);
                out.push(f);
            }
        }
    }
    out
}
pub fn trees(n: usize) -> Vec<S> {
    forests(n - 1).into_iter().map(|cs| S { l: 0, cs }).collect()
}
pub fn number(s: &mut S, next: &mut i64) {
    s.l = *next;
    *next += 1;
    for c in &mut s.cs {
        number(c, next);
    }
}
pub fn random_tree(rng: &mut Rng, n: usize) -> S {
    // random recursive tree with a shape bias chosen per tree: 0 uniform parent, 1 deep (last node), 2 wide (root)
    let bias = rng.below(4);
    let mut parent = vec![0usize; n];
    for i in 1..n {
        parent[i] = match bias {
            1 if rng.chance(3, 4) => i - 1,
            2 if rng.chance(3, 4) => 0,
            _ => rng.below(i as u64) as usize,
        };
    }
    fn build(i: usize, parent: &[usize]) -> S {
        let cs = (i + 1..parent.len()).filter(|j| parent[*j] == i).map(|j| build(j, parent)).collect();
        S { l: 0, cs }
    }
    let mut s = build(0, &parent);
    let mut k = 1;
    number(&mut s, &mut k);
    if rng.chance(1, 5) {
        // duplicate labels: callbacks then decide the same for several nodes
        fn dup(s: &mut S, rng: &mut Rng) {
            s.l = 1 + rng.below(3) as i64;
            for c in &mut s.cs {
                dup(c, rng);
            }
        }
        dup(&mut s, rng);
    }
    s
}
pub fn rand_dir(rng: &mut Rng, style: u64) -> Tnr {
    match style {
        0 => Continue,
        1 => *rng.pick(&[Continue, Jump, Stop]),
        2 => *rng.pick(&[Continue, Continue, Continue, Jump]),
        _ => *rng.pick(&[Continue, Continue, Continue, Continue, Continue, Continue, Jump, Jump, Stop]),
    }
}
pub fn rand_vtab(rng: &mut Rng, labels: &[i64]) -> VTab {
    let style = rng.below(5);
    let mut t = VTab::new();
    for l in labels {
        let d = rand_dir(rng, style);
        if d != Continue || rng.chance(1, 4) {
            t.insert(*l, d);
        }
    }
    t
}
/// `honest`: the flag is reported whenever the label changes
pub fn rand_rtab(rng: &mut Rng, labels: &[i64], honest: bool) -> RTab {
    let style = rng.below(5);
    let change = rng.below(3); // 0 never, 1 sometimes, 2 always
    let mut t = RTab::new();
    for l in labels {
        let d = rand_dir(rng, style);
        let ch = match change {
            0 => false,
            1 => rng.chance(1, 2),
            _ => true,
        };
        // new labels are either fresh (l+100) or collide with an existing label (so that f_up is looked up
        // under a label that has its own entry)
        let nl = if ch { if rng.chance(1, 3) { *rng.pick(labels) } else { l + 100 } } else { *l };
        let fl = if honest { nl != *l || rng.chance(1, 6) } else { rng.chance(1, 2) };
        t.insert(*l, (nl, fl, d));
    }
    // decisions for the labels f_down may have produced (seen by f_up)
    for l in labels {
        if rng.chance(1, 2) {
            let d = rand_dir(rng, style);
            let nl = if change > 0 && rng.chance(1, 2) { l + 200 } else { l + 100 };
            t.insert(l + 100, (nl, nl != l + 100, d));
        }
    }
    t
}

