//! C52: qualified names round-trip through their quoted text form.
//! Runs the REAL TableReference::{bare,partial,full} -> to_quoted_string -> parse_str and
//! Column{relation,name} -> quoted_flat_name -> from_qualified_name (datafusion-common built with
//! feature "sql", i.e. the sqlparser tokenizer, as the `datafusion` crate does by default).
//! One JSON object per line; strings are printed as arrays of Unicode code points.
use std::collections::HashMap;
use std::panic::catch_unwind;

use datafusion_common::utils::quote_identifier;
use datafusion_common::{Column, TableReference};
use h_util::{arg, json_str, Rng};

fn cps(s: &str) -> String {
    let mut o = String::from("[");
    for (i, c) in s.chars().enumerate() {
        if i > 0 {
            o.push(',');
        }
        o.push_str(&(c as u32).to_string());
    }
    o.push(']');
    o
}

fn cps_list(xs: &[String]) -> String {
    let mut o = String::from("[");
    for (i, x) in xs.iter().enumerate() {
        if i > 0 {
            o.push(',');
        }
        o.push_str(&cps(x));
    }
    o.push(']');
    o
}

fn mk_ref(parts: &[String]) -> TableReference {
    match parts.len() {
        1 => TableReference::bare(parts[0].as_str()),
        2 => TableReference::partial(parts[0].as_str(), parts[1].as_str()),
        3 => TableReference::full(parts[0].as_str(), parts[1].as_str(), parts[2].as_str()),
        _ => unreachable!(),
    }
}

/// the direct oracle compares the *variant and every field*, not only to_vec()
fn same_ref(a: &TableReference, b: &TableReference) -> bool {
    a == b
}

fn tr_case(parts: &[String]) {
    let p = parts.to_vec();
    let r = catch_unwind(move || {
        let r = mk_ref(&p);
        let text = r.to_quoted_string();
        let disp = r.to_string();
        let back = TableReference::parse_str(&text);
        // `From<&str>` is the path other code uses; must agree with parse_str
        let back2: TableReference = text.as_str().into();
        let ok = same_ref(&back, &r) && same_ref(&back2, &r);
        (text, disp, back.to_vec(), ok)
    });
    match r {
        Ok((text, disp, back, ok)) => println!(
            "{{\"k\":\"tr\",\"parts\":{},\"text\":{},\"text_s\":{},\"disp\":{},\"back\":{},\"ok\":{}}}",
            cps_list(parts),
            cps(&text),
            json_str(&text),
            cps(&disp),
            cps_list(&back),
            ok
        ),
        Err(_) => println!("{{\"k\":\"tr\",\"parts\":{},\"panic\":true,\"ok\":false}}", cps_list(parts)),
    }
}

fn col_case(rel: &[String], name: &str) {
    let rl = rel.to_vec();
    let nm = name.to_string();
    let r = catch_unwind(move || {
        let mut c = Column::new_unqualified(nm.clone());
        c.relation = if rl.is_empty() { None } else { Some(mk_ref(&rl)) };
        let text = c.quoted_flat_name();
        let flat = c.flat_name();
        let back = Column::from_qualified_name(text.clone());
        let back2: Column = text.as_str().into();
        let ok = back == c && back2 == c && back.relation == c.relation && back.name == c.name;
        let brel = back.relation.as_ref().map(|r| r.to_vec()).unwrap_or_default();
        (text, flat, brel, back.name.clone(), ok)
    });
    match r {
        Ok((text, flat, brel, bname, ok)) => println!(
            "{{\"k\":\"col\",\"rel\":{},\"name\":{},\"text\":{},\"text_s\":{},\"flat\":{},\"back_rel\":{},\"back_name\":{},\"ok\":{}}}",
            cps_list(rel),
            cps(name),
            cps(&text),
            json_str(&text),
            cps(&flat),
            cps_list(&brel),
            cps(&bname),
            ok
        ),
        Err(_) => println!(
            "{{\"k\":\"col\",\"rel\":{},\"name\":{},\"panic\":true,\"ok\":false}}",
            cps_list(rel),
            cps(name)
        ),
    }
}

/// arbitrary text through the real parsers (tie only: no direct oracle)
fn parse_case(text: &str, ic: bool) {
    let t = text.to_string();
    let r = catch_unwind(move || {
        let tr = TableReference::parse_str_normalized(&t, ic);
        let c = if ic { Column::from_qualified_name_ignore_case(t.clone()) } else { Column::from_qualified_name(t.clone()) };
        let crel = c.relation.as_ref().map(|r| r.to_vec()).unwrap_or_default();
        (tr.to_vec(), crel, c.name.clone())
    });
    match r {
        Ok((tr, crel, cname)) => println!(
            "{{\"k\":\"parse\",\"text\":{},\"text_s\":{},\"ic\":{},\"tr\":{},\"col_rel\":{},\"col_name\":{},\"ok\":true}}",
            cps(text),
            json_str(text),
            ic,
            cps_list(&tr),
            cps_list(&crel),
            cps(&cname)
        ),
        Err(_) => println!("{{\"k\":\"parse\",\"text\":{},\"ic\":{},\"panic\":true,\"ok\":false}}", cps(text), ic),
    }
}

fn all_strings(alpha: &[char], maxlen: usize) -> Vec<String> {
    let mut out = vec![String::new()];
    let mut layer = vec![String::new()];
    for _ in 0..maxlen {
        let mut next = Vec::new();
        for s in &layer {
            for c in alpha {
                let mut t = s.clone();
                t.push(*c);
                next.push(t);
            }
        }
        out.extend(next.iter().cloned());
        layer = next;
    }
    out
}

const REDUCED: &[char] = &['a', 'A', '1', '_', '.', '"', ' ', 'é', '\n'];
const NASTY: &[char] = &[
    'a', 'b', 'e', 'n', 'q', 'r', 'u', 'x', 'z', 'A', 'B', 'E', 'N', 'Q', 'R', 'U', 'X', 'Z', '0', '1', '9', '_', '_', '.', '.',
    '"', '"', '\'', '`', ' ', '\t', '\n', '\r', '\\', 'é', 'É', 'ß', 'Σ', 'ª', '😀', '\u{a0}', '\u{3000}', '\u{0}', '\u{b}', '-',
    '/', '#', '@', '$', '&', '(', '*', 'İ', '\u{301}', '²', '٣',
];
/// characters whose tokenisation the Coq model covers exactly (everything except - / # @ at token start)
const MODELLED: &[char] = &[
    'a', 'b', 'e', 'n', 'q', 'r', 'u', 'x', 'z', 'A', 'B', 'N', 'Q', 'U', 'X', '0', '1', '9', '_', '.', '.', '.', '"', '"', '\'', '`',
    ' ', '\t', '\n', '\r', '\\', 'é', 'É', 'Σ', 'ª', '😀', '\u{a0}', '\u{3000}', '\u{0}', '\u{b}', '$', '&', '(', '²',
];
const PLAIN: &[char] = &['a', 'b', 'e', 'n', 'q', 'r', 'u', 'x', 'z', '_', '_', '0', '1', '7', 's', 't'];
const WORDS: &[&str] = &[
    "select", "table", "from", "null", "true", "b", "r", "n", "nq", "q", "e", "u", "x", "_", "_1", "__", "e1", "x0", "0x1f", "1e5", "1", "12", "a1",
    "a.b", "a\"b", "\"", "\"\"", "\"a\"", ".", "..", " ", "a b", "A", "Ab", "aB", "é", "É", "my_table", "t1", "MixedCase.Name",
];

fn rand_string(rng: &mut Rng) -> String {
    let style = rng.below(10);
    if style == 0 {
        return (*rng.pick(WORDS)).to_string();
    }
    let len = rng.below(7) as usize;
    let mut s = String::new();
    for _ in 0..len {
        let c = if style <= 3 { *rng.pick(PLAIN) } else if style <= 5 { *rng.pick(REDUCED) } else { *rng.pick(NASTY) };
        s.push(c);
    }
    s
}

fn rand_text(rng: &mut Rng) -> String {
    let len = rng.below(9) as usize;
    let mut s = String::new();
    for _ in 0..len {
        let c = match rng.below(10) {
            0..=3 => *rng.pick(PLAIN),
            4 => '.',
            5 => '"',
            _ => *rng.pick(MODELLED),
        };
        s.push(c);
    }
    s
}

pub fn main() {
    std::panic::set_hook(Box::new(|_| {}));
    let args: Vec<String> = std::env::args().collect();
    let args = &args[1..];
    let seed: u64 = arg(args, "--seed", "1").parse().unwrap();
    let n: usize = arg(args, "--n", "2000").parse().unwrap();
    // length bound of the exhaustive identifier strings / of the exhaustive parse texts
    let exh: usize = arg(args, "--exh", "3").parse().unwrap();
    let plen: usize = arg(args, "--plen", "4").parse().unwrap();
    let mut rng = Rng::new(seed);

    // Unicode facts the model takes as a table (char::is_alphabetic / is_whitespace for non-ASCII)
    {
        let mut seen: Vec<char> = Vec::new();
        for c in NASTY.iter().chain(MODELLED.iter()).chain(REDUCED.iter()) {
            if (*c as u32) >= 128 && !seen.contains(c) {
                seen.push(*c);
            }
        }
        for w in WORDS.iter().copied() {
            for c in w.chars() {
                if (c as u32) >= 128 && !seen.contains(&c) {
                    seen.push(c);
                }
            }
        }
        let rows: Vec<String> = seen.iter().map(|c| format!("[{},{},{}]", *c as u32, c.is_alphabetic(), c.is_whitespace())).collect();
        println!("{{\"k\":\"uni\",\"table\":[{}]}}", rows.join(","));
    }

    let short = all_strings(REDUCED, exh); // 820 strings for exh = 3
    let tiny = all_strings(REDUCED, 1); // 10 strings
    let mut idents: Vec<String> = Vec::new();

    // ---- (1) table references: every short string in every position of 1/2/3-part references
    for s in &short {
        tr_case(&[s.clone()]);
        idents.push(s.clone());
        for pos in 0..2 {
            let mut p = vec![rand_string(&mut rng), rand_string(&mut rng)];
            p[pos] = s.clone();
            tr_case(&p);
        }
        for pos in 0..3 {
            let mut p = vec![rand_string(&mut rng), rand_string(&mut rng), rand_string(&mut rng)];
            p[pos] = s.clone();
            tr_case(&p);
        }
    }
    // full products over the strings of length <= 1
    for a in &tiny {
        for b in &tiny {
            tr_case(&[a.clone(), b.clone()]);
            col_case(&[a.clone()], b);
            for c in &tiny {
                tr_case(&[a.clone(), b.clone(), c.clone()]);
                col_case(&[a.clone(), b.clone()], c);
            }
        }
    }
    for w in WORDS.iter().copied() {
        tr_case(&[w.to_string()]);
        tr_case(&[w.to_string(), w.to_string()]);
        tr_case(&["c".to_string(), w.to_string(), "t".to_string()]);
        col_case(&[], w);
        col_case(&[w.to_string()], w);
        idents.push(w.to_string());
    }
    // ---- (2) columns: every short string as the name and in every relation position
    for s in &short {
        col_case(&[], s);
        for nrel in 1..=3usize {
            // as name
            let rel: Vec<String> = (0..nrel).map(|_| rand_string(&mut rng)).collect();
            col_case(&rel, s);
            // in one relation position (rotating)
            let mut rel: Vec<String> = (0..nrel).map(|_| rand_string(&mut rng)).collect();
            let pos = rng.below(nrel as u64) as usize;
            rel[pos] = s.clone();
            let name = rand_string(&mut rng);
            col_case(&rel, &name);
        }
    }
    // ---- (3) random longer ones over the nasty alphabet
    for _ in 0..n {
        let np = 1 + rng.below(3) as usize;
        let p: Vec<String> = (0..np).map(|_| rand_string(&mut rng)).collect();
        tr_case(&p);
        for s in &p {
            idents.push(s.clone());
        }
        let nrel = rng.below(4) as usize;
        let rel: Vec<String> = (0..nrel).map(|_| rand_string(&mut rng)).collect();
        let name = rand_string(&mut rng);
        col_case(&rel, &name);
    }
    // ---- (4) quote_identifier is injective on everything generated
    {
        let mut seen: HashMap<String, String> = HashMap::new();
        let mut bad: Option<(String, String, String)> = None;
        let mut distinct = 0usize;
        for s in &idents {
            let q = quote_identifier(s).to_string();
            match seen.get(&q) {
                Some(o) if o != s => {
                    if bad.is_none() {
                        bad = Some((o.clone(), s.clone(), q.clone()));
                    }
                }
                Some(_) => {}
                None => {
                    distinct += 1;
                    seen.insert(q, s.clone());
                }
            }
        }
        match bad {
            None => println!("{{\"k\":\"inj\",\"distinct\":{distinct},\"ok\":true}}"),
            Some((a, b, q)) => println!(
                "{{\"k\":\"inj\",\"distinct\":{distinct},\"a\":{},\"b\":{},\"text\":{},\"text_s\":{},\"ok\":false}}",
                cps(&a),
                cps(&b),
                cps(&q),
                json_str(&q)
            ),
        }
    }
    // ---- (5) arbitrary text through the real parsers (model/implementation tie of the tokenizer slice)
    let texts = all_strings(&['a', 'B', '1', '_', '.', '"', ' ', '\''], plen); // 4681 texts for plen = 4
    for t in &texts {
        parse_case(t, false);
    }
    for t in [
        "a . b", "a._b", "a ._b", "._b", "a.1", "a.b.c.d", "a.b.c.d.e", "\"a\"\"b\"", "`a`.b", "`A``b`.C", "a..b", "a.", ".a", "", " ", "a b",
        "b'x'", "B\"x\"", "r'x'", "x'1'", "u&'x'", "u&x", "U&'", "nq'x'", "NQx", "n'x'", "q'x'", "e'x'", "e.x", "\"abc", "a.\r\nb", "a\r.b", "A.B",
        "é.É", "Σ.a", "1a", "a1", "a.b1", "a.1b", "a.1.b", "a.\"\"", "\"\".a", "\"\"", "a.\"b\".C.d", "TABLE()", "a\u{a0}.b", "a\u{3000}. b",
        "a$b.c", "a.b$", "😀", "a.😀", "\"😀\".b", "a\\.b", "a\u{0}", "select.from", "ª.b", "a²", "²", "_._", "_._._", "a._", "\t_\n.\t_",
        "0x1f", "a.0x1", "a.1e5", "1.a", "1..a", "a.e1", "A1.B2.C3", "A1.B2.C3.D4", "\"A\".\"B\".\"C\".\"D\".\"E\"",
    ] {
        parse_case(t, false);
        parse_case(t, true);
    }
    for _ in 0..n {
        let t = rand_text(&mut rng);
        parse_case(&t, rng.chance(1, 4));
    }
}
