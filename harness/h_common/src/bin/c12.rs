//! C12: row hashes depend only on the logical row value.
//!
//! For random logical columns the harness builds many physically different Arrow encodings of the same
//! logical column (described by the `Phys` tree below, which mirrors `phys` of coq/Model/HashLayout.v),
//! runs the REAL `create_hashes`, `with_hashes` and `create_hashes_with_hasher` on them (1..3 key columns,
//! zeroed and dirty hash buffers) and prints one JSON object per group:
//!   * the single-value hash tables that instantiate the model's abstract hash functions
//!     (`h`: one-shot hash of a leaf value = create_hashes on a one-element array; `hv`: same for an inline
//!     string view; `hs`/`hvs`: the seeded re-hash `seeded_state(prev)` + `hash_write`, computed here with the
//!     public `HashState`/`HashValue` traits),
//!   * every run (list of physical columns as Coq terms + JSON, initial buffer, observed hashes),
//!   * `ok` = the direct oracle: all runs of a group that start from the same buffer give identical hash
//!     vectors, `with_hashes` equals `create_hashes` on a zeroed buffer, and equal ScalarValues hash equally.
//! The logical equality of the encodings of one column is cross-checked independently with Arrow's
//! `ArrayFormatter` (row by row text, -0.0 printed as 0.0).
use std::collections::BTreeMap;
use std::hash::{BuildHasher, Hash, Hasher};
use std::panic::{catch_unwind, AssertUnwindSafe};
use std::sync::Arc;

use arrow::array::*;
use arrow::buffer::{BooleanBuffer, Buffer, NullBuffer, OffsetBuffer, ScalarBuffer};
use arrow::datatypes::*;
use arrow::util::display::{ArrayFormatter, FormatOptions};
use datafusion_common::hash_utils::{
    combine_hashes, create_hashes, create_hashes_with_hasher, with_hashes, HashState, HashValue, RandomState,
};
use datafusion_common::ScalarValue;
use h_util::{arg, json_list, json_str, Rng};

// ------------------------------------------------------------------ leaf values <-> codes
// code = tag*1000 + k ; physical alternative spelling of the same logical value: k + 500 (only -0.0)
const T_I32: i64 = 1;
const T_I64: i64 = 2;
const T_F64: i64 = 3;
const T_BOOL: i64 = 4;
const T_UTF8: i64 = 5;
const T_VIEW: i64 = 6;

fn tag(code: i64) -> i64 {
    code / 1000
}
fn kk(code: i64) -> i64 {
    code % 1000 % 500
}
fn canon(code: i64) -> i64 {
    tag(code) * 1000 + kk(code)
}
fn is_alt(code: i64) -> bool {
    code % 1000 >= 500
}
fn p_i32(code: i64) -> i32 {
    ((kk(code) - 5) as i32).wrapping_mul(0x0101_0101)
}
fn p_i64(code: i64) -> i64 {
    match kk(code) {
        7 => i64::MIN,
        8 => i64::MAX,
        k => k - 5,
    }
}
fn p_f64(code: i64) -> f64 {
    match kk(code) {
        0 => {
            if is_alt(code) {
                -0.0
            } else {
                0.0
            }
        }
        1 => f64::NAN,
        2 => f64::INFINITY,
        k => (k as f64 - 6.0) * 0.5,
    }
}
fn p_bool(code: i64) -> bool {
    kk(code) % 2 == 1
}
/// even k: at most 12 bytes (inline string view); odd k: at least 13 bytes
fn p_text(code: i64) -> String {
    match kk(code) {
        0 => String::new(),
        12 => "twelve_bytes".to_string(),
        13 => "thirteen_byte".to_string(),
        k if k % 2 == 1 => format!("long-common-prefix-{:04}", k),
        k => format!("k{}", k),
    }
}

// ------------------------------------------------------------------ logical values and shapes
#[derive(Clone, Debug, PartialEq)]
enum LVal {
    Null,
    V(i64),
    List(Vec<LVal>),
    Struct(Vec<LVal>),
}

#[derive(Clone, Debug, PartialEq)]
enum Shape {
    Leaf(i64),
    Dict(Box<Shape>),
    RunEnd(Box<Shape>),
    List(Box<Shape>),
    Struct(Vec<Shape>),
}

fn shape_name(s: &Shape) -> String {
    match s {
        Shape::Leaf(t) => ["?", "Int32", "Int64", "Float64", "Boolean", "Utf8", "Utf8View"][*t as usize].to_string(),
        Shape::Dict(i) => format!("Dict<{}>", shape_name(i)),
        Shape::RunEnd(i) => format!("RunEnd<{}>", shape_name(i)),
        Shape::List(i) => format!("List<{}>", shape_name(i)),
        Shape::Struct(fs) => format!("Struct<{}>", fs.iter().map(shape_name).collect::<Vec<_>>().join(",")),
    }
}

fn gen_leaf_code(rng: &mut Rng, t: i64) -> i64 {
    let k = match t {
        T_BOOL => rng.below(2) as i64,
        T_UTF8 | T_VIEW => *rng.pick(&[0, 1, 2, 3, 4, 12, 13, 2, 3]),
        T_F64 => *rng.pick(&[0, 0, 1, 2, 3, 7, 8]),
        _ => *rng.pick(&[0, 3, 5, 6, 7, 8, 5]),
    };
    t * 1000 + k
}

fn gen_val(rng: &mut Rng, s: &Shape, null_pct: u64) -> LVal {
    if rng.chance(null_pct, 100) {
        return LVal::Null;
    }
    match s {
        Shape::Leaf(t) => LVal::V(gen_leaf_code(rng, *t)),
        Shape::Dict(i) | Shape::RunEnd(i) => gen_val(rng, i, 0),
        Shape::List(i) => {
            let n = *rng.pick(&[0usize, 0, 1, 2, 3]);
            LVal::List((0..n).map(|_| gen_val(rng, i, 25)).collect())
        }
        Shape::Struct(fs) => LVal::Struct(fs.iter().map(|f| gen_val(rng, f, 25)).collect()),
    }
}

// ------------------------------------------------------------------ physical encodings (mirror of Coq `phys`)
#[derive(Clone, Debug)]
struct Buf {
    vals: Vec<i64>,
    nulls: Option<Vec<bool>>,
    off: usize,
    len: usize,
}

#[derive(Clone, Debug)]
enum Phys {
    Prim(Buf),
    Bytes(Buf),
    /// force_buffers: add an unused data buffer when every string is inline; block: builder block size
    View { force_buffers: bool, block: u32, b: Buf },
    Dict(Buf, Box<Phys>),
    RunEnd(Vec<usize>, Box<Phys>, usize, usize),
    List(Vec<usize>, Option<Vec<bool>>, usize, usize, Box<Phys>),
    Struct(Vec<Phys>, Option<Vec<bool>>, usize),
}

/// random window/validity layout for `rows` (None = NULL): garbage before/after the window, garbage under NULLs,
/// validity buffer omitted or all-true when there is no NULL
fn layout(rng: &mut Rng, rows: &[Option<i64>], garbage: &mut dyn FnMut(&mut Rng) -> i64) -> Buf {
    let pre = *rng.pick(&[0usize, 0, 1, 3, 8, 9]);
    let post = *rng.pick(&[0usize, 0, 2]);
    let mut vals = vec![];
    let mut nulls = vec![];
    for _ in 0..pre {
        vals.push(garbage(rng));
        nulls.push(rng.chance(1, 2));
    }
    for r in rows {
        match r {
            Some(c) => {
                vals.push(*c);
                nulls.push(true)
            }
            None => {
                vals.push(garbage(rng));
                nulls.push(false)
            }
        }
    }
    for _ in 0..post {
        vals.push(garbage(rng));
        nulls.push(rng.chance(1, 2));
    }
    let has_null = rows.iter().any(|r| r.is_none());
    let nulls = if has_null || rng.chance(1, 2) { Some(nulls) } else { None };
    Buf { vals, nulls, off: pre, len: rows.len() }
}

fn encode(rng: &mut Rng, s: &Shape, rows: &[LVal]) -> Phys {
    match s {
        Shape::Leaf(t) => {
            let t = *t;
            let codes: Vec<Option<i64>> = rows
                .iter()
                .map(|r| match r {
                    LVal::V(c) => Some(if tag(*c) == T_F64 && kk(*c) == 0 && rng.chance(1, 2) { *c + 500 } else { *c }),
                    _ => None,
                })
                .collect();
            let b = layout(rng, &codes, &mut |rng| gen_leaf_code(rng, t));
            match t {
                T_I32 | T_I64 | T_F64 => Phys::Prim(b),
                T_VIEW => Phys::View { force_buffers: rng.chance(1, 3), block: *rng.pick(&[16u32, 40, 8192]), b },
                _ => Phys::Bytes(b),
            }
        }
        Shape::Dict(inner) => {
            // dictionary: distinct values, duplicated, unused extras, NULL entries, shuffled
            let mut dict: Vec<LVal> = vec![];
            for r in rows {
                if *r != LVal::Null && (!dict.contains(r) || rng.chance(1, 4)) {
                    dict.push(r.clone());
                }
            }
            for _ in 0..rng.below(3) {
                dict.push(gen_val(rng, inner, 0));
            }
            for _ in 0..rng.below(3) {
                if rng.chance(1, 2) {
                    dict.push(LVal::Null);
                }
            }
            for i in (1..dict.len()).rev() {
                let j = rng.below(i as u64 + 1) as usize;
                dict.swap(i, j);
            }
            if dict.is_empty() {
                dict.push(gen_val(rng, inner, 50));
            }
            let null_slots: Vec<usize> = (0..dict.len()).filter(|i| dict[*i] == LVal::Null).collect();
            let nd = dict.len();
            let keys: Vec<Option<i64>> = rows
                .iter()
                .map(|r| {
                    if *r == LVal::Null {
                        if !null_slots.is_empty() && rng.chance(1, 2) {
                            Some(*rng.pick(&null_slots) as i64)
                        } else {
                            None
                        }
                    } else {
                        let cands: Vec<usize> = (0..nd).filter(|i| dict[*i] == *r).collect();
                        Some(*rng.pick(&cands) as i64)
                    }
                })
                .collect();
            let kb = layout(rng, &keys, &mut |rng| rng.below(nd as u64) as i64);
            Phys::Dict(kb, Box::new(encode(rng, inner, &dict)))
        }
        Shape::RunEnd(inner) => {
            // logical array = garbage prefix ++ rows ++ garbage suffix, cut into runs at random places
            let pre = *rng.pick(&[0usize, 0, 1, 2, 5]);
            let post = *rng.pick(&[0usize, 0, 1, 3]);
            let mut all: Vec<LVal> = vec![];
            for _ in 0..pre {
                all.push(gen_val(rng, inner, 20));
            }
            all.extend(rows.iter().cloned());
            for _ in 0..post {
                all.push(gen_val(rng, inner, 20));
            }
            if all.is_empty() {
                all.push(gen_val(rng, inner, 20));
            }
            let mut ends = vec![];
            let mut vals = vec![];
            for i in 0..all.len() {
                let last = i + 1 == all.len();
                if last || all[i] != all[i + 1] || rng.chance(1, 3) {
                    ends.push(i + 1);
                    vals.push(all[i].clone());
                }
            }
            Phys::RunEnd(ends, Box::new(encode(rng, inner, &vals)), pre, rows.len())
        }
        Shape::List(inner) => {
            let pre = *rng.pick(&[0usize, 0, 1, 2]);
            let post = *rng.pick(&[0usize, 0, 1]);
            let mut child: Vec<LVal> = vec![];
            for _ in 0..rng.below(3) {
                child.push(gen_val(rng, inner, 25)); // unreferenced head of the child array
            }
            let mut offsets = vec![child.len()];
            let mut nulls = vec![];
            let push_row = |rng: &mut Rng, r: &LVal, child: &mut Vec<LVal>, offsets: &mut Vec<usize>, nulls: &mut Vec<bool>| {
                match r {
                    LVal::List(items) => {
                        child.extend(items.iter().cloned());
                        nulls.push(true);
                    }
                    _ => {
                        for _ in 0..*rng.pick(&[0u64, 0, 1, 2]) {
                            child.push(gen_val(rng, inner, 25)); // garbage under a NULL entry
                        }
                        nulls.push(false);
                    }
                }
                offsets.push(child.len());
            };
            for _ in 0..pre {
                let g = gen_val(rng, s, 30);
                push_row(rng, &g, &mut child, &mut offsets, &mut nulls);
            }
            for r in rows {
                push_row(rng, r, &mut child, &mut offsets, &mut nulls);
            }
            for _ in 0..post {
                let g = gen_val(rng, s, 30);
                push_row(rng, &g, &mut child, &mut offsets, &mut nulls);
            }
            for _ in 0..rng.below(2) {
                child.push(gen_val(rng, inner, 25)); // unreferenced tail
            }
            let has_null = nulls.iter().any(|b| !*b);
            let nulls = if has_null || rng.chance(1, 2) { Some(nulls) } else { None };
            Phys::List(offsets, nulls, pre, rows.len(), Box::new(encode(rng, inner, &child)))
        }
        Shape::Struct(fs) => {
            let mut children = vec![];
            for (j, f) in fs.iter().enumerate() {
                let col: Vec<LVal> = rows
                    .iter()
                    .map(|r| match r {
                        LVal::Struct(vs) => vs[j].clone(),
                        _ => gen_val(rng, f, 30), // garbage child value under a NULL parent
                    })
                    .collect();
                children.push(encode(rng, f, &col));
            }
            let has_null = rows.iter().any(|r| *r == LVal::Null);
            let nulls = if has_null || rng.chance(1, 2) { Some(rows.iter().map(|r| *r != LVal::Null).collect()) } else { None };
            Phys::Struct(children, nulls, rows.len())
        }
    }
}

// ------------------------------------------------------------------ Phys -> Arrow
fn nullbuf(n: &Option<Vec<bool>>) -> Option<NullBuffer> {
    n.as_ref().map(|v| NullBuffer::new(BooleanBuffer::from(v.clone())))
}

fn to_arrow(p: &Phys, s: &Shape) -> ArrayRef {
    match (p, s) {
        (Phys::Prim(b), Shape::Leaf(t)) => {
            let a: ArrayRef = match *t {
                T_I32 => Arc::new(Int32Array::new(ScalarBuffer::from(b.vals.iter().map(|c| p_i32(*c)).collect::<Vec<_>>()), nullbuf(&b.nulls))),
                T_I64 => Arc::new(Int64Array::new(ScalarBuffer::from(b.vals.iter().map(|c| p_i64(*c)).collect::<Vec<_>>()), nullbuf(&b.nulls))),
                _ => Arc::new(Float64Array::new(ScalarBuffer::from(b.vals.iter().map(|c| p_f64(*c)).collect::<Vec<_>>()), nullbuf(&b.nulls))),
            };
            a.slice(b.off, b.len)
        }
        (Phys::Bytes(b), Shape::Leaf(t)) => {
            let a: ArrayRef = if *t == T_BOOL {
                Arc::new(BooleanArray::new(BooleanBuffer::from(b.vals.iter().map(|c| p_bool(*c)).collect::<Vec<_>>()), nullbuf(&b.nulls)))
            } else {
                let texts: Vec<String> = b.vals.iter().map(|c| p_text(*c)).collect();
                let offsets = OffsetBuffer::<i32>::from_lengths(texts.iter().map(|t| t.len()));
                Arc::new(StringArray::new(offsets, Buffer::from(texts.concat().into_bytes()), nullbuf(&b.nulls)))
            };
            a.slice(b.off, b.len)
        }
        (Phys::View { force_buffers, block, b }, _) => {
            let mut bld = StringViewBuilder::new().with_fixed_block_size(*block);
            for c in &b.vals {
                bld.append_value(p_text(*c));
            }
            let a = bld.finish();
            let mut bufs = a.data_buffers().to_vec();
            if *force_buffers && bufs.is_empty() {
                bufs.push(Buffer::from(b"an unused data buffer".to_vec()));
            }
            let a = StringViewArray::new(a.views().clone(), bufs, nullbuf(&b.nulls));
            Arc::new(a.slice(b.off, b.len))
        }
        (Phys::Dict(kb, values), Shape::Dict(inner)) => {
            let keys = Int32Array::new(ScalarBuffer::from(kb.vals.iter().map(|k| *k as i32).collect::<Vec<_>>()), nullbuf(&kb.nulls));
            let keys = keys.slice(kb.off, kb.len);
            Arc::new(DictionaryArray::<Int32Type>::try_new(keys, to_arrow(values, inner)).unwrap())
        }
        (Phys::RunEnd(ends, values, off, len), Shape::RunEnd(inner)) => {
            let re = Int32Array::from(ends.iter().map(|e| *e as i32).collect::<Vec<_>>());
            let a = RunArray::<Int32Type>::try_new(&re, to_arrow(values, inner).as_ref()).unwrap();
            Arc::new(a.slice(*off, *len))
        }
        (Phys::List(offsets, nulls, off, len, child), Shape::List(inner)) => {
            let c = to_arrow(child, inner);
            let field = Arc::new(Field::new("item", c.data_type().clone(), true));
            let ob = OffsetBuffer::new(ScalarBuffer::from(offsets.iter().map(|o| *o as i32).collect::<Vec<_>>()));
            let a = ListArray::new(field, ob, c, nullbuf(nulls));
            Arc::new(a.slice(*off, *len))
        }
        (Phys::Struct(children, nulls, len), Shape::Struct(fs)) => {
            let cs: Vec<ArrayRef> = children.iter().zip(fs).map(|(c, f)| to_arrow(c, f)).collect();
            let fields: Vec<Field> = cs.iter().enumerate().map(|(i, c)| Field::new(format!("f{}", i), c.data_type().clone(), true)).collect();
            Arc::new(StructArray::try_new_with_length(fields.into(), cs, nullbuf(nulls), *len).unwrap())
        }
        _ => panic!("shape/phys mismatch"),
    }
}

// ------------------------------------------------------------------ Phys -> Coq term / JSON
fn nat_list(xs: &[usize]) -> String {
    format!("[{}]", xs.iter().map(|x| format!("{}%nat", x)).collect::<Vec<_>>().join("; "))
}
fn coq_nulls(n: &Option<Vec<bool>>) -> String {
    match n {
        None => "None".to_string(),
        Some(v) => format!("(Some [{}])", v.iter().map(|b| b.to_string()).collect::<Vec<_>>().join("; ")),
    }
}
fn coq_buf(b: &Buf) -> String {
    format!(
        "(mkbuf [{}] {} {}%nat {}%nat)",
        b.vals.iter().map(|c| canon(*c).to_string()).collect::<Vec<_>>().join("; "),
        coq_nulls(&b.nulls),
        b.off,
        b.len
    )
}
fn coq_kbuf(b: &Buf) -> String {
    format!(
        "(mkbuf {} {} {}%nat {}%nat)",
        nat_list(&b.vals.iter().map(|k| *k as usize).collect::<Vec<_>>()),
        coq_nulls(&b.nulls),
        b.off,
        b.len
    )
}
fn to_coq(p: &Phys, a: &ArrayRef) -> String {
    match p {
        Phys::Prim(b) => format!("(Prim {})", coq_buf(b)),
        Phys::Bytes(b) => format!("(Bytes {})", coq_buf(b)),
        Phys::View { b, .. } => {
            let hb = !a.as_string_view().data_buffers().is_empty();
            format!("(View {} {})", hb, coq_buf(b))
        }
        Phys::Dict(kb, v) => {
            let d = a.as_any_dictionary();
            format!("(Dict {} {})", coq_kbuf(kb), to_coq(v, d.values()))
        }
        Phys::RunEnd(ends, v, off, len) => {
            let r = a.as_any().downcast_ref::<RunArray<Int32Type>>().unwrap();
            format!("(RunEnd {} {} {}%nat {}%nat)", nat_list(ends), to_coq(v, r.values()), off, len)
        }
        Phys::List(offsets, nulls, off, len, c) => {
            let l = a.as_list::<i32>();
            format!("(PList {} {} {}%nat {}%nat {})", nat_list(offsets), coq_nulls(nulls), off, len, to_coq(c, l.values()))
        }
        Phys::Struct(cs, nulls, len) => {
            let s = a.as_struct();
            let parts: Vec<String> = cs.iter().enumerate().map(|(i, c)| to_coq(c, s.column(i))).collect();
            format!("(Struct [{}] {} {}%nat)", parts.join("; "), coq_nulls(nulls), len)
        }
    }
}

fn json_nulls(n: &Option<Vec<bool>>) -> String {
    match n {
        None => "null".to_string(),
        Some(v) => json_list(v),
    }
}
fn json_buf(b: &Buf) -> String {
    format!("{{\"vals\":{},\"validity\":{},\"off\":{},\"len\":{}}}", json_list(&b.vals), json_nulls(&b.nulls), b.off, b.len)
}
fn to_json(p: &Phys) -> String {
    match p {
        Phys::Prim(b) => format!("{{\"prim\":{}}}", json_buf(b)),
        Phys::Bytes(b) => format!("{{\"bytes\":{}}}", json_buf(b)),
        Phys::View { force_buffers, block, b } => format!("{{\"view\":{},\"force_buffers\":{},\"block\":{}}}", json_buf(b), force_buffers, block),
        Phys::Dict(kb, v) => format!("{{\"dict_keys\":{},\"values\":{}}}", json_buf(kb), to_json(v)),
        Phys::RunEnd(ends, v, off, len) => format!("{{\"run_ends\":{},\"values\":{},\"off\":{},\"len\":{}}}", json_list(ends), to_json(v), off, len),
        Phys::List(o, n, off, len, c) => format!("{{\"list_offsets\":{},\"validity\":{},\"off\":{},\"len\":{},\"child\":{}}}", json_list(o), json_nulls(n), off, len, to_json(c)),
        Phys::Struct(cs, n, len) => format!("{{\"struct\":[{}],\"validity\":{},\"len\":{}}}", cs.iter().map(to_json).collect::<Vec<_>>().join(","), json_nulls(n), len),
    }
}

// ------------------------------------------------------------------ independent logical reading of an Arrow array
fn fmt_rows(a: &ArrayRef) -> Vec<String> {
    let opts = FormatOptions::default().with_null("NULL");
    let f = ArrayFormatter::try_new(a.as_ref(), &opts).unwrap();
    (0..a.len()).map(|i| f.value(i).to_string().replace("-0.0", "0.0")).collect()
}

// ------------------------------------------------------------------ hash tables for the model
#[derive(Default)]
struct Tables {
    h: BTreeMap<i64, u64>,
    hv: BTreeMap<i64, u64>,
    hs: BTreeMap<(u64, i64), u64>,
    hvs: BTreeMap<(u64, i64), u64>,
}

fn view_of(code: i64) -> u128 {
    let a = StringViewArray::from(vec![p_text(code).as_str()]);
    a.views()[0]
}

fn single_hash(rs: &RandomState, code: i64) -> u64 {
    let s = Shape::Leaf(tag(code));
    let b = Buf { vals: vec![code], nulls: None, off: 0, len: 1 };
    let p = match tag(code) {
        T_I32 | T_I64 | T_F64 => Phys::Prim(b),
        T_VIEW => Phys::View { force_buffers: false, block: 8192, b },
        _ => Phys::Bytes(b),
    };
    let a = to_arrow(&p, &s);
    let mut out = vec![0u64; 1];
    create_hashes([&a], rs, &mut out).unwrap();
    out[0]
}

fn seeded<V: HashValue + ?Sized>(rs: &RandomState, seed: u64, v: &V) -> u64 {
    let mut hh = rs.seeded_state(seed).build_hasher();
    v.hash_write(&mut hh);
    hh.finish()
}

impl Tables {
    fn note_value(&mut self, rs: &RandomState, code: i64) {
        let code = canon(code);
        if tag(code) == T_VIEW && kk(code) % 2 == 0 {
            self.hv.entry(code).or_insert_with(|| single_hash(rs, code));
        } else {
            self.h.entry(code).or_insert_with(|| single_hash(rs, code));
        }
    }
    fn note_seed(&mut self, rs: &RandomState, seed: u64, code: i64) {
        let code = canon(code);
        match tag(code) {
            T_I32 => {
                self.hs.insert((seed, code), seeded(rs, seed, &p_i32(code)));
            }
            T_I64 => {
                self.hs.insert((seed, code), seeded(rs, seed, &p_i64(code)));
            }
            T_F64 => {
                self.hs.insert((seed, code), seeded(rs, seed, &p_f64(code)));
            }
            T_VIEW => {
                if kk(code) % 2 == 0 {
                    self.hvs.insert((seed, code), seeded(rs, seed, &view_of(code)));
                } else {
                    self.hs.insert((seed, code), seeded(rs, seed, p_text(code).as_bytes()));
                }
            }
            _ => {}
        }
    }
    fn note_all_values(&mut self, rs: &RandomState, p: &Phys) {
        match p {
            Phys::Prim(b) | Phys::Bytes(b) | Phys::View { b, .. } => {
                for c in &b.vals {
                    self.note_value(rs, *c)
                }
            }
            Phys::Dict(_, v) | Phys::RunEnd(_, v, _, _) => self.note_all_values(rs, v),
            Phys::List(_, _, _, _, c) => self.note_all_values(rs, c),
            Phys::Struct(cs, _, _) => {
                for c in cs {
                    self.note_all_values(rs, c)
                }
            }
        }
    }
    /// seeds needed to re-hash column `p` on top of `prev` (only leaf columns are re-hashed by seeding)
    fn note_rehash(&mut self, rs: &RandomState, p: &Phys, prev: &[u64]) {
        if let Phys::Prim(b) | Phys::View { b, .. } = p {
            for i in 0..b.len {
                self.note_seed(rs, prev[i], b.vals[b.off + i]);
            }
        }
    }
    /// walk a column: wherever a struct hashes its children as key columns, later leaf children are re-hashed
    fn note_nested(&mut self, rs: &RandomState, p: &Phys, a: &ArrayRef) {
        match p {
            Phys::Dict(_, v) => self.note_nested(rs, v, a.as_any_dictionary().values()),
            Phys::RunEnd(_, v, _, _) => {
                let r = a.as_any().downcast_ref::<RunArray<Int32Type>>().unwrap();
                self.note_nested(rs, v, r.values())
            }
            Phys::List(_, _, _, _, c) => self.note_nested(rs, c, a.as_list::<i32>().values()),
            Phys::Struct(cs, _, len) => {
                let s = a.as_struct();
                for j in 0..cs.len() {
                    self.note_nested(rs, &cs[j], s.column(j));
                    if j >= 1 {
                        let mut prev = vec![0u64; *len];
                        create_hashes(&s.columns()[..j], rs, &mut prev).unwrap();
                        self.note_rehash(rs, &cs[j], &prev);
                    }
                }
            }
            _ => {}
        }
    }
    fn json(&self) -> String {
        let one = |m: &BTreeMap<i64, u64>| format!("[{}]", m.iter().map(|(c, h)| format!("[{},{}]", c, h)).collect::<Vec<_>>().join(","));
        let two = |m: &BTreeMap<(u64, i64), u64>| format!("[{}]", m.iter().map(|((s, c), h)| format!("[{},{},{}]", s, c, h)).collect::<Vec<_>>().join(","));
        format!("\"h\":{},\"hv\":{},\"hs\":{},\"hvs\":{}", one(&self.h), one(&self.hv), two(&self.hs), two(&self.hvs))
    }
}

// ------------------------------------------------------------------ one group
struct Run {
    cols: Vec<(Phys, ArrayRef)>,
    init: Vec<u64>,
    hashes: Vec<u64>,
    generic: Vec<u64>,
}

fn std_hash<T: Hash>(t: &T) -> u64 {
    let mut h = std::collections::hash_map::DefaultHasher::new();
    t.hash(&mut h);
    h.finish()
}

fn pick_shape(rng: &mut Rng, special: u64) -> Shape {
    let leaf = |rng: &mut Rng| Shape::Leaf(*rng.pick(&[T_I32, T_I64, T_F64, T_BOOL, T_UTF8, T_VIEW]));
    match special {
        1 => Shape::Dict(Box::new(Shape::Dict(Box::new(Shape::Leaf(T_UTF8))))),
        2 => Shape::RunEnd(Box::new(Shape::Dict(Box::new(Shape::Leaf(T_UTF8))))),
        3 => Shape::Dict(Box::new(Shape::RunEnd(Box::new(Shape::Leaf(T_I32))))),
        _ => match rng.below(12) {
            0..=3 => leaf(rng),
            4 | 5 => Shape::Dict(Box::new(leaf(rng))),
            6 | 7 => Shape::RunEnd(Box::new(leaf(rng))),
            8 => Shape::List(Box::new(if rng.chance(2, 3) { Shape::Leaf(T_I32) } else { Shape::Dict(Box::new(Shape::Leaf(T_UTF8))) })),
            9 => Shape::List(Box::new(leaf(rng))),
            10 => Shape::Struct(vec![Shape::Leaf(T_I32), Shape::Leaf(T_UTF8)]),
            _ => {
                let n = 1 + rng.below(3);
                Shape::Struct(
                    (0..n)
                        .map(|_| match rng.below(5) {
                            0 => Shape::Dict(Box::new(leaf(rng))),
                            1 => Shape::List(Box::new(Shape::Leaf(T_I32))),
                            _ => leaf(rng),
                        })
                        .collect(),
                )
            }
        },
    }
}

/// `exotic`: 0 = ordinary shapes; 1..3 = a dictionary / run-end array whose values are themselves dictionary or
/// run-end encoded (physical validity of the values differs from their logical validity)
fn group(rng: &mut Rng, id: u64, exotic: u64) -> String {
    let rs = RandomState::with_seed(0x5eed_c12);
    let ncols = if exotic > 0 { 2 } else { *rng.pick(&[1usize, 1, 2, 2, 3, 4]) };
    let nrows = *rng.pick(&[0usize, 1, 2, 3, 5, 8, 13]);
    let null_pct = *rng.pick(&[0u64, 0, 20, 50]);
    let shapes: Vec<Shape> = (0..ncols).map(|j| if exotic > 0 && j == 1 { pick_shape(rng, exotic) } else { pick_shape(rng, 0) }).collect();
    // logical columns with duplicates
    let logical: Vec<Vec<LVal>> = shapes
        .iter()
        .map(|s| {
            let mut col: Vec<LVal> = vec![];
            for i in 0..nrows {
                if i > 0 && rng.chance(1, 3) {
                    let j = rng.below(i as u64) as usize;
                    col.push(col[j].clone());
                } else {
                    col.push(gen_val(rng, s, if exotic > 0 { 50 } else { null_pct }));
                }
            }
            col
        })
        .collect();
    let mut why: Vec<String> = vec![];
    let mut tables = Tables::default();
    let nruns = 4 + rng.below(3) as usize;
    let dirty: Vec<u64> = (0..nrows).map(|_| rng.next() >> rng.below(64)).collect();
    let mut runs: Vec<Run> = vec![];
    let mut texts: Vec<Vec<String>> = vec![];
    for r in 0..nruns {
        let cols: Vec<(Phys, ArrayRef)> = shapes
            .iter()
            .zip(&logical)
            .map(|(s, l)| {
                let p = encode(rng, s, l);
                let a = to_arrow(&p, s);
                (p, a)
            })
            .collect();
        for (j, (_, a)) in cols.iter().enumerate() {
            assert_eq!(a.len(), nrows);
            let t = fmt_rows(a);
            if r == 0 {
                texts.push(t);
            } else if t != texts[j] {
                panic!("generator: encodings of column {} are not logically equal: {:?} vs {:?}", j, t, texts[j]);
            }
        }
        // the last two runs start from a dirty buffer
        let init = if r + 2 >= nruns { dirty.clone() } else { vec![0u64; nrows] };
        let arrays: Vec<ArrayRef> = cols.iter().map(|c| c.1.clone()).collect();
        let mut hashes = init.clone();
        create_hashes(&arrays, &rs, &mut hashes).unwrap();
        let mut generic = init.clone();
        create_hashes_with_hasher(&arrays, &rs, &mut generic).unwrap();
        if init.iter().all(|x| *x == 0) {
            let wh = with_hashes(&arrays, &rs, |h| Ok(h.to_vec())).unwrap();
            if wh != hashes {
                why.push(format!("run {}: with_hashes {:?} differs from create_hashes {:?}", r, wh, hashes));
            }
        }
        // tables
        for (j, (p, a)) in cols.iter().enumerate() {
            tables.note_all_values(&rs, p);
            tables.note_nested(&rs, p, a);
            if j >= 1 {
                let mut prev = init.clone();
                create_hashes(&arrays[..j], &rs, &mut prev).unwrap();
                tables.note_rehash(&rs, p, &prev);
            }
        }
        runs.push(Run { cols, init, hashes, generic });
    }
    // oracle: same starting buffer => same hashes
    for r in 1..runs.len() {
        let base = if runs[r].init == runs[0].init { 0 } else { runs.len() - 2 };
        if r != base && runs[r].init == runs[base].init {
            if runs[r].hashes != runs[base].hashes {
                why.push(format!("create_hashes: run {} and run {} encode the same logical columns but hash differently", base, r));
            }
            if runs[r].generic != runs[base].generic {
                why.push(format!("create_hashes_with_hasher: run {} and run {} encode the same logical columns but hash differently", base, r));
            }
        }
    }
    // oracle: logically equal rows hash equally (zero-initialised runs)
    for i in 0..nrows {
        for j in 0..i {
            if logical.iter().all(|c| c[i] == c[j]) && runs[0].hashes[i] != runs[0].hashes[j] {
                why.push(format!("rows {} and {} are equal but hash differently in run 0", j, i));
            }
        }
    }
    // scalars: equal ScalarValues hash equally
    let mut scalar_pairs = 0;
    let mut scalar_eq = 0;
    for j in 0..ncols {
        for i in 0..nrows {
            let a = ScalarValue::try_from_array(&runs[0].cols[j].1, i);
            let b = ScalarValue::try_from_array(&runs[1].cols[j].1, i);
            if let (Ok(a), Ok(b)) = (a, b) {
                scalar_pairs += 1;
                if a == b {
                    scalar_eq += 1;
                    if std_hash(&a) != std_hash(&b) {
                        why.push(format!("scalar: column {} row {}: equal ScalarValues {:?} hash differently", j, i, a));
                    }
                }
            }
        }
    }
    let run_json: Vec<String> = runs
        .iter()
        .map(|r| {
            format!(
                "{{\"coq\":{},\"cols\":[{}],\"init\":{},\"hashes\":{},\"generic\":{}}}",
                json_str(&format!("[{}]", r.cols.iter().map(|(p, a)| to_coq(p, a)).collect::<Vec<_>>().join("; "))),
                r.cols.iter().map(|(p, _)| to_json(p)).collect::<Vec<_>>().join(","),
                json_list(&r.init),
                json_list(&r.hashes),
                json_list(&r.generic)
            )
        })
        .collect();
    format!(
        "{{\"k\":\"grp\",\"id\":{},\"exotic\":{},\"shapes\":[{}],\"nrows\":{},\"logical\":{},{},\"runs\":[{}],\"scalar_pairs\":{},\"scalar_eq\":{},\"ok\":{},\"why\":{}}}",
        id,
        exotic,
        shapes.iter().map(|s| json_str(&shape_name(s))).collect::<Vec<_>>().join(","),
        nrows,
        json_str(&format!("{:?}", texts)),
        tables.json(),
        run_json.join(","),
        scalar_pairs,
        scalar_eq,
        why.is_empty(),
        json_str(&why.join(" | "))
    )
}

fn main() {
    let args: Vec<String> = std::env::args().collect();
    let seed: u64 = arg(&args, "--seed", "1").parse().unwrap();
    let n: u64 = arg(&args, "--n", "100").parse().unwrap();
    let exotic_every: u64 = arg(&args, "--exotic-every", "10").parse().unwrap();
    std::panic::set_hook(Box::new(|_| {}));
    // combine_hashes is part of the observed interface: print it on a few points for the model
    let pts: Vec<(u64, u64)> = vec![(0, 0), (1, 2), (u64::MAX, u64::MAX), (0x8000_0000_0000_0000, 37), (12345678901234567, 9876543210987654321)];
    println!(
        "{{\"k\":\"combine\",\"pts\":[{}],\"ok\":true}}",
        pts.iter().map(|(l, r)| format!("[{},{},{}]", l, r, combine_hashes(*l, *r))).collect::<Vec<_>>().join(",")
    );
    // the witness of Props/C12.v C12_encoded_values_null_refuted, replayed on the implementation:
    // key columns (Int32 [NULL], Dictionary<Int32, Dictionary<Int32, Utf8>> [NULL]); the second column once as
    // "key 0 -> inner key 0 -> inner value NULL" and once as "NULL key"
    {
        let rs = RandomState::with_seed(0x5eed_c12);
        let b1 = |vals: Vec<i64>, nulls: Option<Vec<bool>>| Buf { vals, nulls, off: 0, len: 1 };
        let shape = Shape::Dict(Box::new(Shape::Dict(Box::new(Shape::Leaf(T_UTF8)))));
        let inner = || Phys::Dict(b1(vec![0], None), Box::new(Phys::Bytes(b1(vec![5002], Some(vec![false])))));
        let c0 = to_arrow(&Phys::Prim(b1(vec![1005], Some(vec![false]))), &Shape::Leaf(T_I32));
        let p = to_arrow(&Phys::Dict(b1(vec![0], None), Box::new(inner())), &shape);
        let q = to_arrow(&Phys::Dict(b1(vec![0], Some(vec![false])), Box::new(inner())), &shape);
        let hp = with_hashes([&c0, &p], &rs, |h| Ok(h.to_vec())).unwrap();
        let hq = with_hashes([&c0, &q], &rs, |h| Ok(h.to_vec())).unwrap();
        println!(
            "{{\"k\":\"witness\",\"logical_p\":{},\"logical_q\":{},\"hashes_p\":{},\"hashes_q\":{},\"ok\":{}}}",
            json_str(&format!("{:?}", fmt_rows(&p))),
            json_str(&format!("{:?}", fmt_rows(&q))),
            json_list(&hp),
            json_list(&hq),
            hp == hq
        );
    }
    let mut rng = Rng::new(seed);
    for id in 0..n {
        let exotic = if exotic_every > 0 && id % exotic_every == exotic_every - 1 { 1 + (id / exotic_every) % 3 } else { 0 };
        let sub = rng.next();
        let res = catch_unwind(AssertUnwindSafe(|| {
            let mut r = Rng(sub);
            group(&mut r, id, exotic)
        }));
        match res {
            Ok(line) => println!("{}", line),
            Err(e) => {
                let msg = e.downcast_ref::<String>().cloned().or_else(|| e.downcast_ref::<&str>().map(|s| s.to_string())).unwrap_or_default();
                println!("{{\"k\":\"panic\",\"id\":{},\"exotic\":{},\"sub\":{},\"ok\":false,\"why\":{}}}", id, exotic, sub, json_str(&msg));
            }
        }
    }
}
