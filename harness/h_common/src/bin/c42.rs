//! C42: tree traversal and rewriting follow their recursion contract.
//!
//! Runs the real `TreeNode` default methods (apply, exists, visit, transform_down, transform_up,
//! transform_down_up, rewrite, apply_children, map_children) of datafusion-common on small labelled
//! trees, for three `TreeNode` implementations that live in tree_node.rs:
//!   vec      - children in a `Vec<Self>`, via `TreeNodeContainer for Vec<C>` (like the crate's own tests)
//!   concrete - `impl<T: ConcreteTreeNode> TreeNode for T`
//!   dyn      - `impl<T: DynTreeNode> TreeNode for Arc<T>`
//!   tuple    - children in `(Option<Box<Self>>, Vec<Self>, Option<Box<Self>>)`, via the tuple / Option / Box / Vec
//!              `TreeNodeContainer` impls (visit_sibling / transform_sibling chains), like Expr::Case
//! Callbacks are data: a table label -> (directive[, new label, reported flag]); every invocation is
//! logged.  `ok` is the direct oracle: the documented contract evaluated by a linear scan over the full
//! f_down/f_up bracket sequence (independent of the Coq model).  Shared code: ../c42_shared.rs.
use std::sync::Arc;

use datafusion_common::tree_node::{
    ConcreteTreeNode, DynTreeNode, Transformed, TreeNode, TreeNodeContainer, TreeNodeRefContainer,
};
use datafusion_common::Result;
use h_util::{arg, Rng};

#[path = "../c42_shared.rs"]
mod shared;
use shared::*;

// ---------------------------------------------------------------- vec implementation
#[derive(Debug, Clone, PartialEq)]
struct VNode {
    children: Vec<VNode>,
    data: i64,
}
impl TreeNode for VNode {
    fn apply_children<'n, F: FnMut(&'n Self) -> Result<Tnr>>(&'n self, f: F) -> Result<Tnr> {
        self.children.apply_elements(f)
    }
    fn map_children<F: FnMut(Self) -> Result<Transformed<Self>>>(self, f: F) -> Result<Transformed<Self>> {
        let data = self.data;
        Ok(self.children.map_elements(f)?.update_data(|children| VNode { children, data }))
    }
}
impl<'a> TreeNodeContainer<'a, Self> for VNode {
    fn apply_elements<F: FnMut(&'a Self) -> Result<Tnr>>(&'a self, mut f: F) -> Result<Tnr> {
        f(self)
    }
    fn map_elements<F: FnMut(Self) -> Result<Transformed<Self>>>(self, mut f: F) -> Result<Transformed<Self>> {
        f(self)
    }
}
impl TT for VNode {
    const IM: &'static str = "vec";
    fn build(s: &S) -> Self {
        VNode { children: s.cs.iter().map(VNode::build).collect(), data: s.l }
    }
    fn label(&self) -> i64 {
        self.data
    }
    fn relabel(mut self, l: i64) -> Self {
        self.data = l;
        self
    }
    fn dump(&self) -> S {
        S { l: self.data, cs: self.children.iter().map(|c| c.dump()).collect() }
    }
}

// ---------------------------------------------------------------- ConcreteTreeNode implementation
#[derive(Debug, Clone, PartialEq)]
struct CNode {
    children: Vec<CNode>,
    data: i64,
}
impl ConcreteTreeNode for CNode {
    fn children(&self) -> &[Self] {
        &self.children
    }
    fn take_children(mut self) -> (Self, Vec<Self>) {
        let c = std::mem::take(&mut self.children);
        (self, c)
    }
    fn with_new_children(mut self, children: Vec<Self>) -> Result<Self> {
        self.children = children;
        Ok(self)
    }
}
impl TT for CNode {
    const IM: &'static str = "concrete";
    fn build(s: &S) -> Self {
        CNode { children: s.cs.iter().map(CNode::build).collect(), data: s.l }
    }
    fn label(&self) -> i64 {
        self.data
    }
    fn relabel(mut self, l: i64) -> Self {
        self.data = l;
        self
    }
    fn dump(&self) -> S {
        S { l: self.data, cs: self.children.iter().map(|c| c.dump()).collect() }
    }
}

// ---------------------------------------------------------------- DynTreeNode implementation
#[derive(Debug)]
struct DNode {
    children: Vec<Arc<DNode>>,
    data: i64,
}
impl DynTreeNode for DNode {
    fn arc_children(&self) -> Vec<&Arc<Self>> {
        self.children.iter().collect()
    }
    fn with_new_arc_children(&self, _arc_self: Arc<Self>, new_children: Vec<Arc<Self>>) -> Result<Arc<Self>> {
        Ok(Arc::new(DNode { children: new_children, data: self.data }))
    }
}
impl TT for Arc<DNode> {
    const IM: &'static str = "dyn";
    fn build(s: &S) -> Self {
        Arc::new(DNode { children: s.cs.iter().map(<Arc<DNode>>::build).collect(), data: s.l })
    }
    fn label(&self) -> i64 {
        self.data
    }
    fn relabel(self, l: i64) -> Self {
        Arc::new(DNode { children: self.children.clone(), data: l })
    }
    fn dump(&self) -> S {
        S { l: self.data, cs: self.children.iter().map(|c| c.dump()).collect() }
    }
}

// ---------------------------------------------------------------- tuple-of-containers implementation
/// children = first? ++ mid ++ last?;  first is present iff label is odd (and there is a child), last iff
/// label % 4 != 0 (and a child is left) -- lib/props/C42.py groups_tuple() mirrors this
#[derive(Debug, Clone, PartialEq, Default)]
struct TNode {
    data: i64,
    first: Option<Box<TNode>>,
    mid: Vec<TNode>,
    last: Option<Box<TNode>>,
}
impl TreeNode for TNode {
    fn apply_children<'n, F: FnMut(&'n Self) -> Result<Tnr>>(&'n self, f: F) -> Result<Tnr> {
        (&self.first, &self.mid, &self.last).apply_ref_elements(f)
    }
    fn map_children<F: FnMut(Self) -> Result<Transformed<Self>>>(self, f: F) -> Result<Transformed<Self>> {
        let data = self.data;
        Ok((self.first, self.mid, self.last)
            .map_elements(f)?
            .update_data(|(first, mid, last)| TNode { data, first, mid, last }))
    }
}
impl<'a> TreeNodeContainer<'a, Self> for TNode {
    fn apply_elements<F: FnMut(&'a Self) -> Result<Tnr>>(&'a self, mut f: F) -> Result<Tnr> {
        f(self)
    }
    fn map_elements<F: FnMut(Self) -> Result<Transformed<Self>>>(self, mut f: F) -> Result<Transformed<Self>> {
        f(self)
    }
}
impl TT for TNode {
    const IM: &'static str = "tuple";
    fn build(s: &S) -> Self {
        let mut cs: Vec<TNode> = s.cs.iter().map(TNode::build).collect();
        let first = if s.l.rem_euclid(2) == 1 && !cs.is_empty() { Some(Box::new(cs.remove(0))) } else { None };
        let last = if s.l.rem_euclid(4) != 0 && !cs.is_empty() { Some(Box::new(cs.pop().unwrap())) } else { None };
        TNode { data: s.l, first, mid: cs, last }
    }
    fn label(&self) -> i64 {
        self.data
    }
    fn relabel(mut self, l: i64) -> Self {
        self.data = l;
        self
    }
    fn dump(&self) -> S {
        let mut cs: Vec<S> = vec![];
        if let Some(f) = &self.first {
            cs.push(f.dump());
        }
        cs.extend(self.mid.iter().map(|c| c.dump()));
        if let Some(l) = &self.last {
            cs.push(l.dump());
        }
        S { l: self.data, cs }
    }
}

fn repo_test_tree() -> S {
    // the tree of the crate's own tests: j(i(f(e(c(b, d(a))), g(h))))   a=1 .. j=10
    let leaf = |l| S { l, cs: vec![] };
    let d = S { l: 4, cs: vec![leaf(1)] };
    let c = S { l: 3, cs: vec![leaf(2), d] };
    let e = S { l: 5, cs: vec![c] };
    let g = S { l: 7, cs: vec![leaf(8)] };
    let f = S { l: 6, cs: vec![e, g] };
    let i = S { l: 9, cs: vec![f] };
    S { l: 10, cs: vec![i] }
}

fn all_impls_inspect(s: &S, dt: &VTab, ut: &VTab) {
    case_apply::<VNode>(s, dt);
    case_apply::<CNode>(s, dt);
    case_apply::<Arc<DNode>>(s, dt);
    case_visit::<VNode>(s, dt, ut);
    case_visit::<CNode>(s, dt, ut);
    case_visit::<Arc<DNode>>(s, dt, ut);
}

const METHODS: [&str; 6] = ["down", "up", "up_syn", "down_up", "rewrite", "map_children"];

fn main() {
    std::panic::set_hook(Box::new(|_| {}));
    let args: Vec<String> = std::env::args().collect();
    let args = &args[1..];
    let seed: u64 = arg(args, "--seed", "1").parse().unwrap();
    let n: usize = arg(args, "--n", "2000").parse().unwrap();
    let mut rng = Rng::new(seed);
    let dirs = [Continue, Jump, Stop];

    // ---- (1) exhaustive small scope: every tree shape with <= 4 nodes (labels = pre-order index)
    //      apply: every directive vector; visit / rewrite / transform_*: every (f_down, f_up) directive
    //      vector for <= 3 nodes
    for size in 1..=4usize {
        for mut s in trees(size) {
            let mut k = 1;
            number(&mut s, &mut k);
            let labels: Vec<i64> = (1..=size as i64).collect();
            for code in 0..3usize.pow(size as u32) {
                let mut t = VTab::new();
                let mut c = code;
                for l in &labels {
                    t.insert(*l, dirs[c % 3]);
                    c /= 3;
                }
                case_apply::<VNode>(&s, &t);
                case_apply::<CNode>(&s, &t);
                case_apply::<Arc<DNode>>(&s, &t);
                case_apply_children::<VNode>(&s, &t);
                case_apply_children::<CNode>(&s, &t);
                case_apply_children::<Arc<DNode>>(&s, &t);
                case_apply::<TNode>(&s, &t);
                case_apply_children::<TNode>(&s, &t);
                if size <= 3 {
                    for code2 in 0..3usize.pow(size as u32) {
                        let mut u = VTab::new();
                        let mut c = code2;
                        for l in &labels {
                            u.insert(*l, dirs[c % 3]);
                            c /= 3;
                        }
                        case_visit::<VNode>(&s, &t, &u);
                        // the same directive vectors for the rewriting APIs; every callback relabels l -> l+100
                        // and reports it, f_up entries are keyed by the label f_down produced
                        let dt: RTab = t.iter().map(|(l, d)| (*l, (l + 100, true, *d))).collect();
                        let ut: RTab = u.iter().map(|(l, d)| (l + 100, (l + 200, true, *d))).collect();
                        if (code + code2) % 2 == 0 {
                            case_visit::<TNode>(&s, &t, &u);
                        } else {
                            case_trans::<TNode>(if code % 2 == 0 { "rewrite" } else { "down_up" }, &s, &dt, &ut);
                        }
                        match (code + code2) % 3 {
                            0 => case_trans::<VNode>("down_up", &s, &dt, &ut),
                            1 => case_trans::<CNode>("rewrite", &s, &dt, &ut),
                            _ => case_trans::<Arc<DNode>>("rewrite", &s, &dt, &ut),
                        }
                    }
                    let dt: RTab = t.iter().map(|(l, d)| (*l, (l + 100, code % 2 == 0, *d))).collect();
                    for m in METHODS {
                        case_trans::<VNode>(m, &s, &dt, &dt);
                        case_trans::<CNode>(m, &s, &dt, &dt);
                        case_trans::<Arc<DNode>>(m, &s, &dt, &dt);
                        case_trans::<TNode>(m, &s, &dt, &dt);
                    }
                }
            }
        }
    }

    // ---- (2) the crate's own test tree, single Jump / Stop at every node and phase, identity and all-change
    let rt = repo_test_tree();
    let labels: Vec<i64> = (1..=10).collect();
    all_impls_inspect(&rt, &VTab::new(), &VTab::new());
    for l in &labels {
        for d in [Jump, Stop] {
            let one: VTab = [(*l, d)].into_iter().collect();
            all_impls_inspect(&rt, &one, &VTab::new());
            all_impls_inspect(&rt, &VTab::new(), &one);
            let allch: RTab = labels.iter().map(|x| (*x, (x + 100, true, if x == l { d } else { Continue }))).collect();
            let allch_up: RTab = labels.iter().map(|x| (x + 100, (x + 200, true, if x == l { d } else { Continue }))).collect();
            let plain_up: RTab = labels.iter().map(|x| (x + 100, (x + 200, true, Continue))).collect();
            let plain: RTab = labels.iter().map(|x| (*x, (x + 100, true, Continue))).collect();
            for m in METHODS {
                case_trans::<VNode>(m, &rt, &allch, &plain_up);
                case_trans::<CNode>(m, &rt, &plain, &allch_up);
                case_trans::<Arc<DNode>>(m, &rt, &allch, &allch_up);
            }
            let only: RTab = [(*l, (*l, false, d))].into_iter().collect();
            for m in METHODS {
                case_trans::<VNode>(m, &rt, &only, &only);
                case_trans::<Arc<DNode>>(m, &rt, &only, &only);
            }
        }
    }
    for m in METHODS {
        case_trans::<VNode>(m, &rt, &RTab::new(), &RTab::new());
        case_trans::<CNode>(m, &rt, &RTab::new(), &RTab::new());
        case_trans::<Arc<DNode>>(m, &rt, &RTab::new(), &RTab::new());
    }

    // ---- (3) random trees (1..14 nodes; deep / wide / uniform; sometimes duplicate labels) x random tables
    for i in 0..n {
        let size = if rng.chance(1, 10) { 1 + rng.below(2) as usize } else { 1 + rng.below(14) as usize };
        let s = random_tree(&mut rng, size);
        let mut labels = vec![];
        s.preorder(&mut labels);
        labels.sort();
        labels.dedup();
        let dt = rand_vtab(&mut rng, &labels);
        let ut = rand_vtab(&mut rng, &labels);
        match i % 3 {
            0 => {
                case_apply::<VNode>(&s, &dt);
                case_visit::<CNode>(&s, &dt, &ut);
                case_apply_children::<Arc<DNode>>(&s, &dt);
            }
            1 => {
                case_apply::<CNode>(&s, &dt);
                case_visit::<Arc<DNode>>(&s, &dt, &ut);
                case_apply_children::<VNode>(&s, &dt);
            }
            _ => {
                case_apply::<Arc<DNode>>(&s, &dt);
                case_visit::<VNode>(&s, &dt, &ut);
                case_apply_children::<CNode>(&s, &dt);
            }
        }
        let hits: Vec<i64> = if rng.chance(1, 4) { vec![] } else { (0..1 + rng.below(2)).map(|_| 1 + rng.below(size as u64 + 2) as i64).collect() };
        match i % 3 {
            0 => case_exists::<VNode>(&s, &hits),
            1 => case_exists::<CNode>(&s, &hits),
            _ => case_exists::<Arc<DNode>>(&s, &hits),
        }
        let is_honest = !rng.chance(1, 5);
        let rd = rand_rtab(&mut rng, &labels, is_honest);
        let ru = rand_rtab(&mut rng, &labels, is_honest);
        let m = METHODS[(i / 3) % METHODS.len()];
        let m2 = METHODS[(i / 3 + 3) % METHODS.len()];
        case_trans::<VNode>(m, &s, &rd, &ru);
        case_trans::<CNode>(m, &s, &rd, &ru);
        case_trans::<Arc<DNode>>(m, &s, &rd, &ru);
        case_trans::<TNode>(m, &s, &rd, &ru);
        case_visit::<TNode>(&s, &dt, &ut);
        if i % 2 == 0 {
            case_apply::<TNode>(&s, &dt);
        } else {
            case_exists::<TNode>(&s, &hits);
        }
        match i % 3 {
            0 => case_trans::<VNode>(m2, &s, &rd, &ru),
            1 => case_trans::<CNode>(m2, &s, &rd, &ru),
            _ => case_trans::<Arc<DNode>>(m2, &s, &rd, &ru),
        }
    }
}
