//! C42: tree traversal and rewriting follow their recursion contract.
//!
//! Runs the real `TreeNode` default methods (apply, exists, visit, transform_down, transform_up,
//! transform_down_up, rewrite, apply_children, map_children) of datafusion-common on small labelled
//! trees, for three `TreeNode` implementations that live in tree_node.rs:
//!   vec      - children in a `Vec<Self>`, via `TreeNodeContainer for Vec<C>` (like the crate's own tests)
//!   concrete - `impl<T: ConcreteTreeNode> TreeNode for T`
//!   dyn      - `impl<T: DynTreeNode> TreeNode for Arc<T>`
//! Callbacks are data: a table label -> (directive[, new label, reported flag]); every invocation is
//! logged.  `ok` is the direct oracle: the documented contract evaluated by a linear scan over the full
//! f_down/f_up bracket sequence (independent of the Coq model).
use std::cell::RefCell;
use std::collections::HashMap;
use std::marker::PhantomData;
use std::sync::Arc;

use datafusion_common::tree_node::{
    ConcreteTreeNode, DynTreeNode, Transformed, TreeNode, TreeNodeContainer, TreeNodeRecursion,
    TreeNodeRewriter, TreeNodeVisitor,
};
use datafusion_common::Result;
use h_util::{arg, Rng};

use TreeNodeRecursion::{Continue, Jump, Stop};
type Tnr = TreeNodeRecursion;

// ---------------------------------------------------------------- plain tree description
#[derive(Clone, Debug, PartialEq)]
struct S {
    l: i64,
    cs: Vec<S>,
}
impl S {
    fn json(&self) -> String {
        let cs: Vec<String> = self.cs.iter().map(|c| c.json()).collect();
        format!("[{},[{}]]", self.l, cs.join(","))
    }
    fn size(&self) -> usize {
        1 + self.cs.iter().map(|c| c.size()).sum::<usize>()
    }
    fn preorder(&self, out: &mut Vec<i64>) {
        out.push(self.l);
        for c in &self.cs {
            c.preorder(out);
        }
    }
}

trait TT: TreeNode + Sized {
    const IM: &'static str;
    fn build(s: &S) -> Self;
    fn label(&self) -> i64;
    fn relabel(self, l: i64) -> Self;
    fn dump(&self) -> S;
}

// ---------------------------------------------------------------- vec implementation
#[derive(Debug, Clone, PartialEq)]
struct VNode {
    children: Vec<VNode>,
    data: i64,
}
impl TreeNode for VNode {
    fn apply_children<'n, F: FnMut(&'n Self) -> Result<Tnr>>(&'n self, f: F) -> Result<Tnr> {
        self.children.apply_elements(f)
    }
    fn map_children<F: FnMut(Self) -> Result<Transformed<Self>>>(self, f: F) -> Result<Transformed<Self>> {
        let data = self.data;
        Ok(self.children.map_elements(f)?.update_data(|children| VNode { children, data }))
    }
}
impl<'a> TreeNodeContainer<'a, Self> for VNode {
    fn apply_elements<F: FnMut(&'a Self) -> Result<Tnr>>(&'a self, mut f: F) -> Result<Tnr> {
        f(self)
    }
    fn map_elements<F: FnMut(Self) -> Result<Transformed<Self>>>(self, mut f: F) -> Result<Transformed<Self>> {
        f(self)
    }
}
impl TT for VNode {
    const IM: &'static str = "vec";
    fn build(s: &S) -> Self {
        VNode { children: s.cs.iter().map(VNode::build).collect(), data: s.l }
    }
    fn label(&self) -> i64 {
        self.data
    }
    fn relabel(mut self, l: i64) -> Self {
        self.data = l;
        self
    }
    fn dump(&self) -> S {
        S { l: self.data, cs: self.children.iter().map(|c| c.dump()).collect() }
    }
}

// ---------------------------------------------------------------- ConcreteTreeNode implementation
#[derive(Debug, Clone, PartialEq)]
struct CNode {
    children: Vec<CNode>,
    data: i64,
}
impl ConcreteTreeNode for CNode {
    fn children(&self) -> &[Self] {
        &self.children
    }
    fn take_children(mut self) -> (Self, Vec<Self>) {
        let c = std::mem::take(&mut self.children);
        (self, c)
    }
    fn with_new_children(mut self, children: Vec<Self>) -> Result<Self> {
        self.children = children;
        Ok(self)
    }
}
impl TT for CNode {
    const IM: &'static str = "concrete";
    fn build(s: &S) -> Self {
        CNode { children: s.cs.iter().map(CNode::build).collect(), data: s.l }
    }
    fn label(&self) -> i64 {
        self.data
    }
    fn relabel(mut self, l: i64) -> Self {
        self.data = l;
        self
    }
    fn dump(&self) -> S {
        S { l: self.data, cs: self.children.iter().map(|c| c.dump()).collect() }
    }
}

// ---------------------------------------------------------------- DynTreeNode implementation
#[derive(Debug)]
struct DNode {
    children: Vec<Arc<DNode>>,
    data: i64,
}
impl DynTreeNode for DNode {
    fn arc_children(&self) -> Vec<&Arc<Self>> {
        self.children.iter().collect()
    }
    fn with_new_arc_children(&self, _arc_self: Arc<Self>, new_children: Vec<Arc<Self>>) -> Result<Arc<Self>> {
        Ok(Arc::new(DNode { children: new_children, data: self.data }))
    }
}
impl TT for Arc<DNode> {
    const IM: &'static str = "dyn";
    fn build(s: &S) -> Self {
        Arc::new(DNode { children: s.cs.iter().map(<Arc<DNode>>::build).collect(), data: s.l })
    }
    fn label(&self) -> i64 {
        self.data
    }
    fn relabel(self, l: i64) -> Self {
        Arc::new(DNode { children: self.children.clone(), data: l })
    }
    fn dump(&self) -> S {
        S { l: self.data, cs: self.children.iter().map(|c| c.dump()).collect() }
    }
}

// ---------------------------------------------------------------- callbacks as data
type VTab = HashMap<i64, Tnr>;
type RTab = HashMap<i64, (i64, bool, Tnr)>;
type Log = Vec<(char, i64)>;

fn vdir(t: &VTab, l: i64) -> Tnr {
    *t.get(&l).unwrap_or(&Continue)
}
fn rdec(t: &RTab, l: i64) -> (i64, bool, Tnr) {
    *t.get(&l).unwrap_or(&(l, false, Continue))
}
fn rcall<T: TT>(ph: char, tab: &RTab, log: &RefCell<Log>, node: T) -> Result<Transformed<T>> {
    let l = node.label();
    log.borrow_mut().push((ph, l));
    let (nl, fl, d) = rdec(tab, l);
    let node = if nl != l { node.relabel(nl) } else { node };
    Ok(Transformed::new(node, fl, d))
}

struct Vis<'a, T> {
    dt: &'a VTab,
    ut: &'a VTab,
    log: Log,
    _p: PhantomData<T>,
}
impl<'n, 'a, T: TT + 'n> TreeNodeVisitor<'n> for Vis<'a, T> {
    type Node = T;
    fn f_down(&mut self, node: &'n T) -> Result<Tnr> {
        self.log.push(('d', node.label()));
        Ok(vdir(self.dt, node.label()))
    }
    fn f_up(&mut self, node: &'n T) -> Result<Tnr> {
        self.log.push(('u', node.label()));
        Ok(vdir(self.ut, node.label()))
    }
}
struct Rw<'a, T> {
    dt: &'a RTab,
    ut: &'a RTab,
    log: RefCell<Log>,
    _p: PhantomData<T>,
}
impl<'a, T: TT> TreeNodeRewriter for Rw<'a, T> {
    type Node = T;
    fn f_down(&mut self, node: T) -> Result<Transformed<T>> {
        rcall('d', self.dt, &self.log, node)
    }
    fn f_up(&mut self, node: T) -> Result<Transformed<T>> {
        rcall('u', self.ut, &self.log, node)
    }
}

// ---------------------------------------------------------------- JSON helpers
fn tn(t: Tnr) -> &'static str {
    match t {
        Continue => "C",
        Jump => "J",
        Stop => "S",
    }
}
fn log_json(l: &Log) -> String {
    let v: Vec<String> = l.iter().map(|(p, x)| format!("[\"{p}\",{x}]")).collect();
    format!("[{}]", v.join(","))
}
fn vtab_json(t: &VTab) -> String {
    let mut k: Vec<_> = t.iter().collect();
    k.sort_by_key(|(a, _)| **a);
    let v: Vec<String> = k.iter().map(|(a, d)| format!("[{},\"{}\"]", a, tn(**d))).collect();
    format!("[{}]", v.join(","))
}
fn rtab_json(t: &RTab) -> String {
    let mut k: Vec<_> = t.iter().collect();
    k.sort_by_key(|(a, _)| **a);
    let v: Vec<String> = k.iter().map(|(a, (nl, fl, d))| format!("[{},[{},{},\"{}\"]]", a, nl, fl, tn(*d))).collect();
    format!("[{}]", v.join(","))
}

// ---------------------------------------------------------------- the contract (direct oracle)
/// full f_down / f_up bracket sequence of the tree: (is_down, label)
fn brackets(s: &S, out: &mut Vec<(bool, i64)>) {
    out.push((true, s.l));
    for c in &s.cs {
        brackets(c, out);
    }
    out.push((false, s.l));
}
#[derive(Clone, Copy, PartialEq, Debug)]
enum Mode {
    Run,
    Skip(usize),
    UpJ,
    Halt,
}
struct Expect {
    log: Log,
    post: Vec<i64>,
    flag: bool,
    res: Tnr,
}
/// TreeNodeRecursion documentation as a linear scan: Jump in f_down shortcuts the children (f_up of the node
/// still runs); Jump in f_up bypasses f_up of ancestors until the next f_down; Stop ends everything.
fn scan(s: &S, fd: &dyn Fn(i64) -> (i64, bool, Tnr), fu: &dyn Fn(i64) -> (i64, bool, Tnr)) -> Expect {
    let mut ev = vec![];
    brackets(s, &mut ev);
    let mut mode = Mode::Run;
    let mut stk: Vec<i64> = vec![];
    let mut e = Expect { log: vec![], post: vec![], flag: false, res: Continue };
    for (down, l) in ev {
        if down {
            match mode {
                Mode::Run | Mode::UpJ => {
                    let (nl, fl, d) = fd(l);
                    e.log.push(('d', l));
                    e.flag |= fl;
                    stk.push(nl);
                    mode = match d {
                        Continue => Mode::Run,
                        Jump => Mode::Skip(0),
                        Stop => Mode::Halt,
                    };
                }
                Mode::Skip(d) => {
                    stk.push(l);
                    mode = Mode::Skip(d + 1);
                }
                Mode::Halt => stk.push(l),
            }
        } else {
            let cur = stk.pop().unwrap();
            match mode {
                Mode::Run | Mode::Skip(0) => {
                    let (nl, fl, d) = fu(cur);
                    e.log.push(('u', cur));
                    e.flag |= fl;
                    e.post.push(nl);
                    mode = match d {
                        Continue => Mode::Run,
                        Jump => Mode::UpJ,
                        Stop => Mode::Halt,
                    };
                }
                Mode::Skip(d) => {
                    e.post.push(cur);
                    mode = Mode::Skip(d - 1);
                }
                Mode::UpJ | Mode::Halt => e.post.push(cur),
            }
        }
    }
    e.res = match mode {
        Mode::Run | Mode::Skip(_) => Continue,
        Mode::UpJ => Jump,
        Mode::Halt => Stop,
    };
    e
}
/// the tree of shape `s` whose labels in post-order are `post`
fn with_post(s: &S, post: &mut std::slice::Iter<i64>) -> S {
    let cs: Vec<S> = s.cs.iter().map(|c| with_post(c, post)).collect();
    S { l: *post.next().unwrap(), cs }
}
/// apply: pre-order, subtree below every non-Continue node pruned, cut after the first Stop
fn pruned(s: &S, f: &VTab, out: &mut Vec<i64>) {
    out.push(s.l);
    if vdir(f, s.l) == Continue {
        for c in &s.cs {
            pruned(c, f, out);
        }
    }
}

// ---------------------------------------------------------------- case runners
fn guarded<F: FnOnce() -> String + std::panic::UnwindSafe>(head: &str, f: F) {
    match std::panic::catch_unwind(f) {
        Ok(line) => println!("{line}"),
        Err(_) => println!("{{{head},\"panic\":true,\"ok\":false}}"),
    }
}

fn case_apply<T: TT>(s: &S, tab: &VTab) {
    let head = format!("\"k\":\"apply\",\"im\":\"{}\",\"t\":{},\"tab\":{}", T::IM, s.json(), vtab_json(tab));
    guarded(&head.clone(), move || {
        let t = T::build(s);
        let mut log: Log = vec![];
        let r = t
            .apply(|n| {
                log.push(('d', n.label()));
                Ok(vdir(tab, n.label()))
            })
            .unwrap();
        let mut p = vec![];
        pruned(s, tab, &mut p);
        let mut exp: Log = vec![];
        let mut stopped = false;
        for l in p {
            exp.push(('d', l));
            if vdir(tab, l) == Stop {
                stopped = true;
                break;
            }
        }
        let ok = exp == log && r == if stopped { Stop } else { Continue } && t.dump() == *s;
        format!("{{{head},\"log\":{},\"res\":\"{}\",\"ok\":{ok}}}", log_json(&log), tn(r))
    });
}

fn case_apply_children<T: TT>(s: &S, tab: &VTab) {
    let head = format!("\"k\":\"apply_children\",\"im\":\"{}\",\"t\":{},\"tab\":{}", T::IM, s.json(), vtab_json(tab));
    guarded(&head.clone(), move || {
        let t = T::build(s);
        let mut log: Log = vec![];
        let r = t
            .apply_children(|n| {
                log.push(('d', n.label()));
                Ok(vdir(tab, n.label()))
            })
            .unwrap();
        // f on each child, left to right, until one says Stop; result = last directive (Continue if none)
        let mut exp: Log = vec![];
        let mut er = Continue;
        for c in &s.cs {
            exp.push(('d', c.l));
            er = vdir(tab, c.l);
            if er == Stop {
                break;
            }
        }
        let ok = exp == log && r == er;
        format!("{{{head},\"log\":{},\"res\":\"{}\",\"ok\":{ok}}}", log_json(&log), tn(r))
    });
}

fn case_exists<T: TT>(s: &S, hits: &[i64]) {
    let hj: Vec<String> = hits.iter().map(|h| h.to_string()).collect();
    let head = format!("\"k\":\"exists\",\"im\":\"{}\",\"t\":{},\"hits\":[{}]", T::IM, s.json(), hj.join(","));
    guarded(&head.clone(), move || {
        let t = T::build(s);
        let mut log: Log = vec![];
        let r = t
            .exists(|n| {
                log.push(('d', n.label()));
                Ok(hits.contains(&n.label()))
            })
            .unwrap();
        let mut p = vec![];
        s.preorder(&mut p);
        let mut exp: Log = vec![];
        let mut found = false;
        for l in p {
            exp.push(('d', l));
            if hits.contains(&l) {
                found = true;
                break;
            }
        }
        let ok = exp == log && r == found;
        format!("{{{head},\"log\":{},\"res\":{r},\"ok\":{ok}}}", log_json(&log))
    });
}

fn case_visit<T: TT>(s: &S, dt: &VTab, ut: &VTab) {
    let head = format!(
        "\"k\":\"visit\",\"im\":\"{}\",\"t\":{},\"dtab\":{},\"utab\":{}",
        T::IM,
        s.json(),
        vtab_json(dt),
        vtab_json(ut)
    );
    guarded(&head.clone(), move || {
        let t = T::build(s);
        let mut v = Vis::<T> { dt, ut, log: vec![], _p: PhantomData };
        let r = t.visit(&mut v).unwrap();
        let e = scan(s, &|l| (l, false, vdir(dt, l)), &|l| (l, false, vdir(ut, l)));
        let ok = e.log == v.log && e.res == r && t.dump() == *s;
        format!("{{{head},\"log\":{},\"res\":\"{}\",\"ok\":{ok}}}", log_json(&v.log), tn(r))
    });
}

fn honest(t: &RTab) -> bool {
    t.iter().all(|(l, (nl, fl, _))| nl == l || *fl)
}

/// m in down | up | up_syn (fn transform) | down_up | rewrite | map_children
fn case_trans<T: TT>(m: &str, s: &S, dt: &RTab, ut: &RTab) {
    let head = format!(
        "\"k\":\"trans\",\"m\":\"{m}\",\"im\":\"{}\",\"t\":{},\"dtab\":{},\"utab\":{}",
        T::IM,
        s.json(),
        rtab_json(dt),
        rtab_json(ut)
    );
    let m = m.to_string();
    guarded(&head.clone(), move || {
        let t = T::build(s);
        let log = RefCell::new(vec![]);
        let id = |l: i64| (l, false, Continue);
        let (res, exp): (Transformed<T>, Expect) = match m.as_str() {
            "down" => {
                let r = t.transform_down(|n| rcall('d', dt, &log, n)).unwrap();
                let mut e = scan(s, &|l| rdec(dt, l), &id);
                e.log.retain(|(p, _)| *p == 'd');
                (r, e)
            }
            "up" => {
                let r = t.transform_up(|n| rcall('u', ut, &log, n)).unwrap();
                let mut e = scan(s, &id, &|l| rdec(ut, l));
                e.log.retain(|(p, _)| *p == 'u');
                (r, e)
            }
            "up_syn" => {
                let r = t.transform(|n| rcall('u', ut, &log, n)).unwrap();
                let mut e = scan(s, &id, &|l| rdec(ut, l));
                e.log.retain(|(p, _)| *p == 'u');
                (r, e)
            }
            "down_up" => {
                let r = t.transform_down_up(|n| rcall('d', dt, &log, n), |n| rcall('u', ut, &log, n)).unwrap();
                (r, scan(s, &|l| rdec(dt, l), &|l| rdec(ut, l)))
            }
            "rewrite" => {
                let mut rw = Rw::<T> { dt, ut, log: RefCell::new(vec![]), _p: PhantomData };
                let r = t.rewrite(&mut rw).unwrap();
                *log.borrow_mut() = rw.log.into_inner();
                (r, scan(s, &|l| rdec(dt, l), &|l| rdec(ut, l)))
            }
            "map_children" => {
                let r = t.map_children(|n| rcall('d', dt, &log, n)).unwrap();
                // f on each child left to right until one says Stop; flag = OR; tnr = last (Continue if none)
                let mut e = Expect { log: vec![], post: vec![], flag: false, res: Continue };
                let mut stopped = false;
                let mut cs = vec![];
                for c in &s.cs {
                    if stopped {
                        cs.push(c.clone());
                        continue;
                    }
                    let (nl, fl, d) = rdec(dt, c.l);
                    e.log.push(('d', c.l));
                    e.flag |= fl;
                    e.res = d;
                    stopped = d == Stop;
                    cs.push(S { l: nl, cs: c.cs.clone() });
                }
                let mut post = vec![];
                fn po(s: &S, o: &mut Vec<i64>) {
                    for c in &s.cs {
                        po(c, o);
                    }
                    o.push(s.l);
                }
                po(&S { l: s.l, cs }, &mut post);
                e.post = post;
                (r, e)
            }
            _ => unreachable!(),
        };
        let log = log.into_inner();
        let out = res.data.dump();
        let want = with_post(s, &mut exp.post.iter());
        // Arc<dyn> map_children keeps the old node when no child *reported* a change, so a callback that
        // changes a label without reporting it is (by design) lost there: the tree is only checked by the
        // oracle for honest callbacks on `dyn` (the Coq model covers the dishonest case exactly).
        let tree_checked = T::IM != "dyn" || (honest(dt) && honest(ut));
        let ok = exp.log == log && exp.flag == res.transformed && exp.res == res.tnr && (!tree_checked || out == want);
        format!(
            "{{{head},\"log\":{},\"out\":{},\"flag\":{},\"res\":\"{}\",\"ok\":{ok}}}",
            log_json(&log),
            out.json(),
            res.transformed,
            tn(res.tnr)
        )
    });
}

// ---------------------------------------------------------------- generators
/// all ordered forests with n nodes (shapes only)
fn forests(n: usize) -> Vec<Vec<S>> {
    if n == 0 {
        return vec![vec![]];
    }
    let mut out = vec![];
    for first in 1..=n {
        for t in trees(first) {
            for rest in forests(n - first) {
                let mut f = vec![t.clone()];
                f.extend(rest);
                out.push(f);
            }
        }
    }
    out
}
fn trees(n: usize) -> Vec<S> {
    forests(n - 1).into_iter().map(|cs| S { l: 0, cs }).collect()
}
fn number(s: &mut S, next: &mut i64) {
    s.l = *next;
    *next += 1;
    for c in &mut s.cs {
        number(c, next);
    }
}
fn random_tree(rng: &mut Rng, n: usize) -> S {
    // random recursive tree with a shape bias chosen per tree: 0 uniform parent, 1 deep (last node), 2 wide (root)
    let bias = rng.below(4);
    let mut parent = vec![0usize; n];
    for i in 1..n {
        parent[i] = match bias {
            1 if rng.chance(3, 4) => i - 1,
            2 if rng.chance(3, 4) => 0,
            _ => rng.below(i as u64) as usize,
        };
    }
    fn build(i: usize, parent: &[usize]) -> S {
        let cs = (i + 1..parent.len()).filter(|j| parent[*j] == i).map(|j| build(j, parent)).collect();
        S { l: 0, cs }
    }
    let mut s = build(0, &parent);
    let mut k = 1;
    number(&mut s, &mut k);
    if rng.chance(1, 5) {
        // duplicate labels: callbacks then decide the same for several nodes
        fn dup(s: &mut S, rng: &mut Rng) {
            s.l = 1 + rng.below(3) as i64;
            for c in &mut s.cs {
                dup(c, rng);
            }
        }
        dup(&mut s, rng);
    }
    s
}
fn rand_dir(rng: &mut Rng, style: u64) -> Tnr {
    match style {
        0 => Continue,
        1 => *rng.pick(&[Continue, Jump, Stop]),
        2 => *rng.pick(&[Continue, Continue, Continue, Jump]),
        _ => *rng.pick(&[Continue, Continue, Continue, Continue, Continue, Continue, Jump, Jump, Stop]),
    }
}
fn rand_vtab(rng: &mut Rng, labels: &[i64]) -> VTab {
    let style = rng.below(5);
    let mut t = VTab::new();
    for l in labels {
        let d = rand_dir(rng, style);
        if d != Continue || rng.chance(1, 4) {
            t.insert(*l, d);
        }
    }
    t
}
/// `honest`: the flag is reported whenever the label changes
fn rand_rtab(rng: &mut Rng, labels: &[i64], honest: bool) -> RTab {
    let style = rng.below(5);
    let change = rng.below(3); // 0 never, 1 sometimes, 2 always
    let mut t = RTab::new();
    for l in labels {
        let d = rand_dir(rng, style);
        let ch = match change {
            0 => false,
            1 => rng.chance(1, 2),
            _ => true,
        };
        // new labels are either fresh (l+100) or collide with an existing label (so that f_up is looked up
        // under a label that has its own entry)
        let nl = if ch { if rng.chance(1, 3) { *rng.pick(labels) } else { l + 100 } } else { *l };
        let fl = if honest { nl != *l || rng.chance(1, 6) } else { rng.chance(1, 2) };
        t.insert(*l, (nl, fl, d));
    }
    // decisions for the labels f_down may have produced (seen by f_up)
    for l in labels {
        if rng.chance(1, 2) {
            let d = rand_dir(rng, style);
            let nl = if change > 0 && rng.chance(1, 2) { l + 200 } else { l + 100 };
            t.insert(l + 100, (nl, nl != l + 100, d));
        }
    }
    t
}

fn repo_test_tree() -> S {
    // the tree of the crate's own tests: j(i(f(e(c(b, d(a))), g(h))))   a=1 .. j=10
    let leaf = |l| S { l, cs: vec![] };
    let d = S { l: 4, cs: vec![leaf(1)] };
    let c = S { l: 3, cs: vec![leaf(2), d] };
    let e = S { l: 5, cs: vec![c] };
    let g = S { l: 7, cs: vec![leaf(8)] };
    let f = S { l: 6, cs: vec![e, g] };
    let i = S { l: 9, cs: vec![f] };
    S { l: 10, cs: vec![i] }
}

fn all_impls_inspect(s: &S, dt: &VTab, ut: &VTab) {
    case_apply::<VNode>(s, dt);
    case_apply::<CNode>(s, dt);
    case_apply::<Arc<DNode>>(s, dt);
    case_visit::<VNode>(s, dt, ut);
    case_visit::<CNode>(s, dt, ut);
    case_visit::<Arc<DNode>>(s, dt, ut);
}

const METHODS: [&str; 6] = ["down", "up", "up_syn", "down_up", "rewrite", "map_children"];

fn main() {
    std::panic::set_hook(Box::new(|_| {}));
    let args: Vec<String> = std::env::args().collect();
    let args = &args[1..];
    let seed: u64 = arg(args, "--seed", "1").parse().unwrap();
    let n: usize = arg(args, "--n", "2000").parse().unwrap();
    let mut rng = Rng::new(seed);
    let dirs = [Continue, Jump, Stop];

    // ---- (1) exhaustive small scope: every tree shape with <= 4 nodes (labels = pre-order index)
    //      apply: every directive vector; visit / rewrite / transform_*: every (f_down, f_up) directive
    //      vector for <= 3 nodes
    for size in 1..=4usize {
        for mut s in trees(size) {
            let mut k = 1;
            number(&mut s, &mut k);
            let labels: Vec<i64> = (1..=size as i64).collect();
            for code in 0..3usize.pow(size as u32) {
                let mut t = VTab::new();
                let mut c = code;
                for l in &labels {
                    t.insert(*l, dirs[c % 3]);
                    c /= 3;
                }
                case_apply::<VNode>(&s, &t);
                case_apply::<CNode>(&s, &t);
                case_apply::<Arc<DNode>>(&s, &t);
                case_apply_children::<VNode>(&s, &t);
                case_apply_children::<CNode>(&s, &t);
                case_apply_children::<Arc<DNode>>(&s, &t);
                if size <= 3 {
                    for code2 in 0..3usize.pow(size as u32) {
                        let mut u = VTab::new();
                        let mut c = code2;
                        for l in &labels {
                            u.insert(*l, dirs[c % 3]);
                            c /= 3;
                        }
                        case_visit::<VNode>(&s, &t, &u);
                        // the same directive vectors for the rewriting APIs; every callback relabels l -> l+100
                        // and reports it, f_up entries are keyed by the label f_down produced
                        let dt: RTab = t.iter().map(|(l, d)| (*l, (l + 100, true, *d))).collect();
                        let ut: RTab = u.iter().map(|(l, d)| (l + 100, (l + 200, true, *d))).collect();
                        match (code + code2) % 3 {
                            0 => case_trans::<VNode>("down_up", &s, &dt, &ut),
                            1 => case_trans::<CNode>("rewrite", &s, &dt, &ut),
                            _ => case_trans::<Arc<DNode>>("rewrite", &s, &dt, &ut),
                        }
                    }
                    let dt: RTab = t.iter().map(|(l, d)| (*l, (l + 100, code % 2 == 0, *d))).collect();
                    for m in METHODS {
                        case_trans::<VNode>(m, &s, &dt, &dt);
                        case_trans::<CNode>(m, &s, &dt, &dt);
                        case_trans::<Arc<DNode>>(m, &s, &dt, &dt);
                    }
                }
            }
        }
    }

    // ---- (2) the crate's own test tree, single Jump / Stop at every node and phase, identity and all-change
    let rt = repo_test_tree();
    let labels: Vec<i64> = (1..=10).collect();
    all_impls_inspect(&rt, &VTab::new(), &VTab::new());
    for l in &labels {
        for d in [Jump, Stop] {
            let one: VTab = [(*l, d)].into_iter().collect();
            all_impls_inspect(&rt, &one, &VTab::new());
            all_impls_inspect(&rt, &VTab::new(), &one);
            let allch: RTab = labels.iter().map(|x| (*x, (x + 100, true, if x == l { d } else { Continue }))).collect();
            let allch_up: RTab = labels.iter().map(|x| (x + 100, (x + 200, true, if x == l { d } else { Continue }))).collect();
            let plain_up: RTab = labels.iter().map(|x| (x + 100, (x + 200, true, Continue))).collect();
            let plain: RTab = labels.iter().map(|x| (*x, (x + 100, true, Continue))).collect();
            for m in METHODS {
                case_trans::<VNode>(m, &rt, &allch, &plain_up);
                case_trans::<CNode>(m, &rt, &plain, &allch_up);
                case_trans::<Arc<DNode>>(m, &rt, &allch, &allch_up);
            }
            let only: RTab = [(*l, (*l, false, d))].into_iter().collect();
            for m in METHODS {
                case_trans::<VNode>(m, &rt, &only, &only);
                case_trans::<Arc<DNode>>(m, &rt, &only, &only);
            }
        }
    }
    for m in METHODS {
        case_trans::<VNode>(m, &rt, &RTab::new(), &RTab::new());
        case_trans::<CNode>(m, &rt, &RTab::new(), &RTab::new());
        case_trans::<Arc<DNode>>(m, &rt, &RTab::new(), &RTab::new());
    }

    // ---- (3) random trees (1..14 nodes; deep / wide / uniform; sometimes duplicate labels) x random tables
    for i in 0..n {
        let size = if rng.chance(1, 10) { 1 + rng.below(2) as usize } else { 1 + rng.below(14) as usize };
        let s = random_tree(&mut rng, size);
        let mut labels = vec![];
        s.preorder(&mut labels);
        labels.sort();
        labels.dedup();
        let dt = rand_vtab(&mut rng, &labels);
        let ut = rand_vtab(&mut rng, &labels);
        match i % 3 {
            0 => {
                case_apply::<VNode>(&s, &dt);
                case_visit::<CNode>(&s, &dt, &ut);
                case_apply_children::<Arc<DNode>>(&s, &dt);
            }
            1 => {
                case_apply::<CNode>(&s, &dt);
                case_visit::<Arc<DNode>>(&s, &dt, &ut);
                case_apply_children::<VNode>(&s, &dt);
            }
            _ => {
                case_apply::<Arc<DNode>>(&s, &dt);
                case_visit::<VNode>(&s, &dt, &ut);
                case_apply_children::<CNode>(&s, &dt);
            }
        }
        let hits: Vec<i64> = if rng.chance(1, 4) { vec![] } else { (0..1 + rng.below(2)).map(|_| 1 + rng.below(size as u64 + 2) as i64).collect() };
        match i % 3 {
            0 => case_exists::<VNode>(&s, &hits),
            1 => case_exists::<CNode>(&s, &hits),
            _ => case_exists::<Arc<DNode>>(&s, &hits),
        }
        let is_honest = !rng.chance(1, 5);
        let rd = rand_rtab(&mut rng, &labels, is_honest);
        let ru = rand_rtab(&mut rng, &labels, is_honest);
        let m = METHODS[(i / 3) % METHODS.len()];
        let m2 = METHODS[(i / 3 + 3) % METHODS.len()];
        case_trans::<VNode>(m, &s, &rd, &ru);
        case_trans::<CNode>(m, &s, &rd, &ru);
        case_trans::<Arc<DNode>>(m, &s, &rd, &ru);
        match i % 3 {
            0 => case_trans::<VNode>(m2, &s, &rd, &ru),
            1 => case_trans::<CNode>(m2, &s, &rd, &ru),
            _ => case_trans::<Arc<DNode>>(m2, &s, &rd, &ru),
        }
    }
    let _ = S::size;
}
