//! C26: parallel byte-range scans read every record exactly once.
//! Runs the REAL AlignedBoundaryStream / FileGroupPartitioner / CSV + NDJSON openers over an
//! in-memory object store whose GET responses are cut into chosen chunk sizes.
use std::fmt::{Debug, Display, Formatter};
use std::panic::{catch_unwind, AssertUnwindSafe};
use std::sync::{Arc, Mutex};

use arrow::array::{Array, Int64Array};
use arrow::datatypes::{DataType, Field, Schema, SchemaRef};
use async_trait::async_trait;
use bytes::Bytes;
use datafusion_common::config::CsvOptions;
use datafusion_datasource::boundary_stream::{AlignedBoundaryStream, END_SCAN_LOOKAHEAD};
use datafusion_datasource::file::FileSource;
use datafusion_datasource::file_compression_type::FileCompressionType;
use datafusion_datasource::file_groups::{FileGroup, FileGroupPartitioner};
use datafusion_datasource::file_scan_config::FileScanConfigBuilder;
use datafusion_datasource::file_stream::FileOpener;
use datafusion_datasource::PartitionedFile;
use datafusion_datasource_csv::source::CsvSource;
use datafusion_datasource_json::source::JsonOpener;
use datafusion_execution::object_store::ObjectStoreUrl;
use futures::stream::BoxStream;
use futures::{StreamExt, TryStreamExt};
use h_util::{arg, json_list, Rng};
use object_store::memory::InMemory;
use object_store::path::Path;
use object_store::{
    CopyOptions, GetOptions, GetResult, GetResultPayload, ListResult, MultipartUpload, ObjectMeta, ObjectStore,
    ObjectStoreExt, PutMultipartOptions, PutOptions, PutPayload, PutResult,
};

// ------------------------------------------------------------------ chunking object store
/// Cuts every GET response by a cyclic pattern of chunk sizes (0 = empty chunk), optionally
/// followed by one empty trailing chunk (like object_store::chunked::ChunkedStore does).
#[derive(Debug)]
struct PatStore {
    inner: Arc<InMemory>,
    pat: Vec<usize>,
    trail: bool,
    log: Arc<Mutex<Vec<(u64, u64)>>>,
}

impl Display for PatStore {
    fn fmt(&self, f: &mut Formatter<'_>) -> std::fmt::Result {
        write!(f, "PatStore")
    }
}

fn split_pat(bytes: &Bytes, pat: &[usize], trail: bool) -> Vec<Bytes> {
    let mut out = Vec::new();
    let mut pos = 0usize;
    let mut k = 0usize;
    while pos < bytes.len() {
        let n = pat[k % pat.len()].min(bytes.len() - pos);
        k += 1;
        out.push(bytes.slice(pos..pos + n));
        pos += n;
    }
    if trail {
        out.push(Bytes::new());
    }
    out
}

#[async_trait]
impl ObjectStore for PatStore {
    async fn put_opts(&self, location: &Path, payload: PutPayload, opts: PutOptions) -> object_store::Result<PutResult> {
        self.inner.put_opts(location, payload, opts).await
    }
    async fn put_multipart_opts(&self, location: &Path, opts: PutMultipartOptions) -> object_store::Result<Box<dyn MultipartUpload>> {
        self.inner.put_multipart_opts(location, opts).await
    }
    async fn get_opts(&self, location: &Path, options: GetOptions) -> object_store::Result<GetResult> {
        let r = self.inner.get_opts(location, options).await?;
        let meta = r.meta.clone();
        let range = r.range.clone();
        let attributes = r.attributes.clone();
        self.log.lock().unwrap().push((range.start, range.end));
        let bytes = r.bytes().await?;
        let chunks = split_pat(&bytes, &self.pat, self.trail);
        let stream = futures::stream::iter(chunks.into_iter().map(Ok)).boxed();
        Ok(GetResult { payload: GetResultPayload::Stream(stream), meta, range, attributes })
    }
    fn delete_stream(&self, locations: BoxStream<'static, object_store::Result<Path>>) -> BoxStream<'static, object_store::Result<Path>> {
        self.inner.delete_stream(locations)
    }
    fn list(&self, prefix: Option<&Path>) -> BoxStream<'static, object_store::Result<ObjectMeta>> {
        self.inner.list(prefix)
    }
    async fn list_with_delimiter(&self, prefix: Option<&Path>) -> object_store::Result<ListResult> {
        self.inner.list_with_delimiter(prefix).await
    }
    async fn copy_opts(&self, from: &Path, to: &Path, options: CopyOptions) -> object_store::Result<()> {
        self.inner.copy_opts(from, to, options).await
    }
}

struct Env {
    rt: tokio::runtime::Runtime,
}

impl Env {
    fn store(&self, data: &[u8], pat: &[usize], trail: bool) -> (Arc<PatStore>, Path) {
        let inner = Arc::new(InMemory::new());
        let path = Path::from("f0");
        let payload = PutPayload::from(Bytes::copy_from_slice(data));
        self.rt.block_on(async { inner.put(&path, payload).await.unwrap() });
        (Arc::new(PatStore { inner, pat: pat.to_vec(), trail, log: Arc::new(Mutex::new(Vec::new())) }), path)
    }

    /// the real stream, polled to exhaustion: every yielded chunk; Err = error / panic text
    fn run_stream(&self, store: &Arc<PatStore>, path: &Path, s: u64, e: u64, size: u64, term: u8) -> Result<Vec<Vec<u8>>, String> {
        let st: Arc<dyn ObjectStore> = store.clone();
        let path = path.clone();
        let r = catch_unwind(AssertUnwindSafe(|| {
            self.rt.block_on(async move {
                let stream = AlignedBoundaryStream::new(st, path, s, e, size, term).await.map_err(|e| format!("err:{e}"))?;
                let chunks: Vec<Bytes> = stream.try_collect().await.map_err(|e| format!("err:{e}"))?;
                Ok::<_, String>(chunks.into_iter().map(|b| b.to_vec()).collect::<Vec<_>>())
            })
        }));
        match r {
            Ok(x) => x,
            Err(p) => Err(format!("panic:{}", panic_text(&p))),
        }
    }
}

fn panic_text(p: &Box<dyn std::any::Any + Send>) -> String {
    if let Some(s) = p.downcast_ref::<&str>() {
        s.to_string()
    } else if let Some(s) = p.downcast_ref::<String>() {
        s.clone()
    } else {
        "?".into()
    }
}

// ------------------------------------------------------------------ independent oracle
/// start offsets of the records of `file` (record = maximal run ending with `term`; a non-empty
/// unterminated tail is a record), plus the file length as a final sentinel
fn line_starts(file: &[u8], term: u8) -> Vec<usize> {
    let mut v = Vec::new();
    let mut at_start = true;
    for (i, b) in file.iter().enumerate() {
        if at_start {
            v.push(i);
        }
        at_start = *b == term;
    }
    v.push(file.len());
    v
}

/// the bytes of all records whose first byte lies in [s,e)
fn owned_bytes(file: &[u8], term: u8, s: u64, e: u64) -> Vec<u8> {
    let ls = line_starts(file, term);
    let mut out = Vec::new();
    for w in ls.windows(2) {
        let p = w[0] as u64;
        if s <= p && p < e {
            out.extend_from_slice(&file[w[0]..w[1]]);
        }
    }
    out
}

/// `out` is a run of whole consecutive records of `file`
fn whole_records(file: &[u8], term: u8, out: &[u8]) -> bool {
    if out.is_empty() {
        return true;
    }
    let ls = line_starts(file, term);
    for (i, a) in ls.iter().enumerate() {
        for b in &ls[i..] {
            if b - a == out.len() && &file[*a..*b] == out {
                return true;
            }
        }
    }
    false
}

// ------------------------------------------------------------------ printing
fn rle(file: &[u8]) -> String {
    let mut s = String::from("[");
    let mut i = 0;
    let mut first = true;
    while i < file.len() {
        let mut j = i;
        while j < file.len() && file[j] == file[i] {
            j += 1;
        }
        if !first {
            s.push(',');
        }
        first = false;
        s.push_str(&format!("[{},{}]", file[i], j - i));
        i = j;
    }
    s.push(']');
    s
}

fn chunks_json(r: &Result<Vec<Vec<u8>>, String>, big: bool) -> String {
    match r {
        Err(_) => "null".into(),
        Ok(cs) => {
            let mut s = String::from("[");
            for (i, c) in cs.iter().enumerate() {
                if i > 0 {
                    s.push(',');
                }
                if big {
                    s.push_str(&rle(c));
                } else {
                    s.push_str(&json_list(c));
                }
            }
            s.push(']');
            s
        }
    }
}

fn pairs_json(rs: &[(u64, u64)]) -> String {
    let v: Vec<String> = rs.iter().map(|(a, b)| format!("[{a},{b}]")).collect();
    format!("[{}]", v.join(","))
}

struct StreamCase {
    file: Vec<u8>,
    term: u8,
    pat: Vec<usize>,
    trail: bool,
    /// the first `npart` ranges form a partition of the file (consecutive, from 0, last end >= size)
    npart: usize,
    ranges: Vec<(u64, u64)>,
}

/// run one case on the real stream; returns (ok, json line, number of stream runs)
fn run_stream_case(env: &Env, c: &StreamCase, big: bool) -> (bool, String) {
    let (store, path) = env.store(&c.file, &c.pat, c.trail);
    let size = c.file.len() as u64;
    let mut outs = Vec::new();
    let mut gets = Vec::new();
    let mut ok = true;
    let mut why = String::new();
    let mut cat = Vec::new();
    for (i, (s, e)) in c.ranges.iter().enumerate() {
        store.log.lock().unwrap().clear();
        let r = env.run_stream(&store, &path, *s, *e, size, c.term);
        let g = store.log.lock().unwrap().clone();
        match &r {
            Err(t) => {
                ok = false;
                why = format!("range {i} [{s},{e}): {t}");
            }
            Ok(chunks) => {
                let bytes: Vec<u8> = chunks.concat();
                let exp = owned_bytes(&c.file, c.term, *s, *e);
                if bytes != exp {
                    ok = false;
                    why = format!(
                        "range {i} [{s},{e}) yielded {:?} but the records starting in it are {:?}",
                        String::from_utf8_lossy(&bytes),
                        String::from_utf8_lossy(&exp)
                    );
                }
                if !whole_records(&c.file, c.term, &bytes) {
                    ok = false;
                    why = format!("range {i} [{s},{e}) output is not a run of whole records");
                }
                if i < c.npart {
                    cat.extend_from_slice(&bytes);
                }
            }
        }
        // GET discipline: first GET [s-1 or 0, min(e+LOOKAHEAD, size)), overflow GETs contiguous
        if *s < *e && *s < size {
            let fs = if *s == 0 { 0 } else { *s - 1 };
            let fe = e.saturating_add(END_SCAN_LOOKAHEAD).min(size);
            if g.first() != Some(&(fs, fe)) {
                ok = false;
                why = format!("range {i} [{s},{e}) first GET {:?} expected {:?}", g.first(), (fs, fe));
            }
            for w in g.windows(2) {
                if w[1].0 != w[0].1 || w[1].1 != w[1].0.saturating_add(END_SCAN_LOOKAHEAD).min(size) {
                    ok = false;
                    why = format!("range {i} overflow GETs not contiguous: {:?}", g);
                }
            }
        } else if !g.is_empty() {
            ok = false;
            why = format!("empty range {i} issued GETs {:?}", g);
        }
        gets.push(g);
        outs.push(r);
    }
    if c.npart > 0 && ok && cat != c.file {
        ok = false;
        why = format!("concatenation over the {} partition ranges differs from the file", c.npart);
    }
    let outs_s: Vec<String> = outs.iter().map(|r| chunks_json(r, big)).collect();
    let errs: Vec<String> = outs.iter().map(|r| match r { Err(t) => h_util::json_str(t), Ok(_) => "null".into() }).collect();
    let gets_s: Vec<String> = gets.iter().map(|g| pairs_json(g)).collect();
    let line = format!(
        "{{\"k\":\"stream\",\"rle\":{},\"big\":{},\"size\":{},\"term\":{},\"L\":{},\"pat\":{},\"trail\":{},\"npart\":{},\"ranges\":{},\"outs\":[{}],\"errs\":[{}],\"gets\":[{}],\"ok\":{},\"why\":{}}}",
        rle(&c.file), big, size, c.term, END_SCAN_LOOKAHEAD, json_list(&c.pat), c.trail, c.npart,
        pairs_json(&c.ranges), outs_s.join(","), errs.join(","), gets_s.join(","), ok, h_util::json_str(&why)
    );
    (ok, line)
}

// ------------------------------------------------------------------ generators
fn gen_file(rng: &mut Rng) -> Vec<u8> {
    const EDGE: &[&[u8]] = &[
        b"", b"\n", b"a", b"a\n", b"\n\n", b"a\nb", b"\na", b"\n\n\n", b"ab", b"a\n\nb\n", b"\r\n", b"a\r\nb\r\n",
        b"a\r\n\r\nb", b"aaaa\nb\n", b"a\nbbbbbbbbbbbbbbbbbbbb\nc\n", b"aaaaaaaaaaaaaaaaaaaaaaaaaaaaaaaaaaaaaaa", b"\n\n\n\n\n\n\n\n",
        b"line1\nline2\nline3\n", b"aaa\nbbb\nccc\n", b"abcdefghij\nkl\n", b"line1\nline2",
    ];
    if rng.chance(1, 8) {
        return rng.pick(EDGE).to_vec();
    }
    let len = rng.below(41) as usize;
    let nl_den = *rng.pick(&[2u64, 3, 4, 6, 10]);
    let crlf = rng.chance(1, 8);
    let mut f = Vec::new();
    while f.len() < len {
        if rng.chance(1, nl_den) {
            if crlf && f.len() + 2 <= len {
                f.push(b'\r');
            }
            f.push(b'\n');
        } else {
            f.push(*rng.pick(&[b'a', b'b']));
        }
    }
    if rng.chance(1, 2) && !f.is_empty() {
        let n = f.len();
        f[n - 1] = b'\n';
    }
    f
}

fn gen_pat(rng: &mut Rng) -> Vec<usize> {
    match rng.below(10) {
        0 => vec![1],
        1 => vec![2],
        2 => vec![3],
        3 => vec![*rng.pick(&[4usize, 5, 7, 8, 11, 13, 16])],
        4 => vec![1000],
        _ => {
            let n = rng.range(1, 4) as usize;
            let mut p: Vec<usize> = (0..n).map(|_| rng.below(7) as usize).collect();
            if p.iter().all(|x| *x == 0) {
                p[0] = rng.range(1, 5) as usize;
            }
            p
        }
    }
}

/// a random partition 0 = b0 < b1 < .. < bk with bk >= size, plus extra arbitrary ranges
fn gen_ranges(rng: &mut Rng, size: u64) -> (usize, Vec<(u64, u64)>) {
    let mut cuts: Vec<u64> = Vec::new();
    if size > 1 {
        let k = rng.below(7.min(size));
        for _ in 0..k {
            cuts.push(rng.range(1, size as i64 - 1) as u64);
        }
    }
    cuts.sort();
    cuts.dedup();
    let last = if rng.chance(1, 4) { size + rng.below(4) } else { size };
    let mut ranges = Vec::new();
    let mut prev = 0u64;
    for c in cuts {
        ranges.push((prev, c));
        prev = c;
    }
    if prev < last {
        ranges.push((prev, last));
    }
    let npart = ranges.len();
    for _ in 0..rng.below(3) {
        ranges.push((rng.below(size + 3), rng.below(size + 4)));
    }
    (npart, ranges)
}

fn stream_cases(env: &Env, rng: &mut Rng, n: usize, stats: &mut Stats) {
    for _ in 0..n {
        let file = gen_file(rng);
        let term = if rng.chance(1, 12) { b'a' } else { b'\n' };
        let pat = gen_pat(rng);
        let trail = rng.chance(1, 4);
        let (npart, ranges) = gen_ranges(rng, file.len() as u64);
        let c = StreamCase { file, term, pat, trail, npart, ranges };
        let (ok, line) = run_stream_case(env, &c, false);
        stats.runs += c.ranges.len() as u64;
        stats.fail += !ok as u64;
        println!("{line}");
    }
}

/// records longer than the lookahead window: overflow GETs in ScanningLastTerminator
fn long_cases(env: &Env, rng: &mut Rng, n: usize, stats: &mut Stats) {
    let la = END_SCAN_LOOKAHEAD as usize;
    for i in 0..n {
        let mut file = Vec::new();
        let first = match i % 4 {
            0 => 2 * la,
            1 => la - 1 + rng.below(3) as usize,
            2 => 2 * la + rng.below(5) as usize,
            _ => 3 * la + 1,
        };
        if i % 3 == 1 {
            file.extend_from_slice(b"x\n");
        }
        file.extend(std::iter::repeat(b'A').take(first));
        if i % 5 != 4 {
            file.push(b'\n');
            file.extend_from_slice(b"line2\nline3");
            if i % 2 == 0 {
                file.push(b'\n');
            }
        }
        let size = file.len() as u64;
        let pat = match i % 5 {
            0 => vec![8192],
            1 => vec![5000, 0, 7],
            2 => vec![1_000_000],
            3 => vec![la],
            _ => vec![4097, 1],
        };
        let cut1 = 1 + rng.below(3);
        let cut2 = (first as u64 / 2).max(cut1 + 1);
        let cut3 = (first as u64 + rng.below(6)).min(size - 1).max(cut2 + 1);
        let ranges = vec![(0, cut1), (cut1, cut2), (cut2, cut3), (cut3, size)];
        let c = StreamCase { file, term: b'\n', pat, trail: i % 2 == 1, npart: 4, ranges };
        let (ok, line) = run_stream_case(env, &c, true);
        stats.runs += 4;
        stats.fail += !ok as u64;
        println!("{line}");
    }
}

#[derive(Default)]
struct Stats {
    runs: u64,
    fail: u64,
}

/// small-scope exhaustive: every file over {a,\n} up to `maxlen`, every (start,end), several
/// chunkings; only the direct oracle (results are not printed one by one; failures are)
fn exhaustive(env: &Env, maxlen: usize, stats: &mut Stats) {
    let pats: Vec<(Vec<usize>, bool)> = vec![
        (vec![1], false), (vec![2], false), (vec![3], true), (vec![4], false), (vec![1000], false),
        (vec![1000], true), (vec![1, 0, 2], false), (vec![2, 3], true),
    ];
    let mut files = 0u64;
    let mut runs = 0u64;
    let mut bad = 0u64;
    let mut nontrivial = 0u64;
    for len in 0..=maxlen {
        for bits in 0..(1u32 << len) {
            let file: Vec<u8> = (0..len).map(|i| if bits >> i & 1 == 1 { b'\n' } else { b'a' }).collect();
            files += 1;
            let size = len as u64;
            for (pat, trail) in &pats {
                let (store, path) = env.store(&file, pat, *trail);
                for s in 0..=size + 1 {
                    for e in 0..=size + 2 {
                        let r = env.run_stream(&store, &path, s, e, size, b'\n');
                        runs += 1;
                        let exp = owned_bytes(&file, b'\n', s, e);
                        let good = match &r {
                            Ok(ch) => ch.concat() == exp,
                            Err(_) => false,
                        };
                        if !exp.is_empty() {
                            nontrivial += 1;
                        }
                        if !good {
                            bad += 1;
                            if bad <= 10 {
                                let c = StreamCase { file: file.clone(), term: b'\n', pat: pat.clone(), trail: *trail, npart: 0, ranges: vec![(s, e)] };
                                let (_, line) = run_stream_case(env, &c, false);
                                println!("{line}");
                            }
                        }
                    }
                }
            }
        }
    }
    stats.runs += runs;
    stats.fail += bad;
    println!(
        "{{\"k\":\"exhaustive\",\"maxlen\":{maxlen},\"files\":{files},\"chunkings\":{},\"runs\":{runs},\"nonempty\":{nontrivial},\"bad\":{bad},\"ok\":{}}}",
        pats.len(), bad == 0
    );
}

// ------------------------------------------------------------------ the byte-range splitter
fn groups_json(gs: &Option<Vec<FileGroup>>) -> String {
    match gs {
        None => "null".into(),
        Some(gs) => {
            let mut v = Vec::new();
            for g in gs {
                let mut w = Vec::new();
                for f in g.files() {
                    let idx: u64 = f.object_meta.location.as_ref()[1..].parse().unwrap();
                    let (s, e) = f.range();
                    w.push(format!("[{idx},{s},{e}]"));
                }
                v.push(format!("[{}]", w.join(",")));
            }
            format!("[{}]", v.join(","))
        }
    }
}

fn split_cases(rng: &mut Rng, n: usize, stats: &mut Stats) {
    for i in 0..n {
        let nf = rng.range(1, 5) as usize;
        let mut files: Vec<(u64, u64)> = Vec::new();
        let mut pfs = Vec::new();
        for k in 0..nf {
            let size = if rng.chance(1, 8) { 0 } else { rng.below(60) };
            let mut pf = PartitionedFile::new(format!("f{k}"), size);
            let mut r = (0, size);
            if rng.chance(1, 4) && size > 0 {
                let a = rng.below(size);
                let b = a + rng.below(size - a + 1);
                pf = pf.with_range(a as i64, b as i64);
                r = (a, b);
            }
            files.push(r);
            pfs.push(pf);
        }
        let total: u64 = files.iter().map(|(a, b)| b - a).sum();
        let np = rng.range(1, 9) as usize;
        let min_size = *rng.pick(&[0u64, 1, 1, 10, total, total + 1]);
        let preserve = i % 4 == 3;
        // initial grouping: preserve-order wants single-file groups to do anything
        let mut groups: Vec<FileGroup> = Vec::new();
        if preserve || rng.chance(1, 2) {
            for pf in &pfs {
                groups.push(FileGroup::new(vec![pf.clone()]));
            }
        } else {
            let cut = rng.below(nf as u64 + 1) as usize;
            groups.push(FileGroup::new(pfs[..cut].to_vec()));
            groups.push(FileGroup::new(pfs[cut..].to_vec()));
        }
        let r = catch_unwind(AssertUnwindSafe(|| {
            FileGroupPartitioner::new()
                .with_target_partitions(np)
                .with_repartition_file_min_size(min_size as usize)
                .with_preserve_order_within_groups(preserve)
                .repartition_file_groups(&groups)
        }));
        stats.runs += 1;
        let (res, panic) = match r {
            Ok(x) => (x, false),
            Err(_) => (None, true),
        };
        // oracle: for every source file the produced ranges, sorted by start, are contiguous from
        // range start to range end, and non-empty (the order-preserving mode may emit empty
        // ranges when a file has fewer bytes than groups: they scan nothing); at most `np` groups
        let mut ok = !panic;
        let mut why = String::new();
        if let Some(gs) = &res {
            if gs.len() > np {
                ok = false;
                why = format!("{} groups for {} target partitions", gs.len(), np);
            }
            for (k, (a, b)) in files.iter().enumerate() {
                let mut rs: Vec<(u64, u64)> = Vec::new();
                for g in gs {
                    for f in g.files() {
                        if f.object_meta.location.as_ref() == format!("f{k}") {
                            rs.push(f.range());
                        }
                    }
                }
                rs.sort();
                let mut pos = *a;
                for (x, y) in &rs {
                    if *x != pos || *y < *x || (*y == *x && !preserve) {
                        ok = false;
                        why = format!("file {k} [{a},{b}) split into {:?}", rs);
                    }
                    pos = *y;
                }
                if pos != *b && !(rs.is_empty() && a == b) {
                    ok = false;
                    why = format!("file {k} [{a},{b}) split into {:?}", rs);
                }
            }
        }
        if !ok {
            stats.fail += 1;
        }
        println!(
            "{{\"k\":\"split\",\"n\":{np},\"min\":{min_size},\"preserve\":{preserve},\"files\":{},\"groups\":{},\"panic\":{panic},\"ok\":{ok},\"why\":{}}}",
            pairs_json(&files), groups_json(&res), h_util::json_str(&why)
        );
    }
}

// ------------------------------------------------------------------ end-to-end CSV / NDJSON
fn int_schema() -> SchemaRef {
    Arc::new(Schema::new(vec![Field::new("c", DataType::Int64, true)]))
}

fn scan(env: &Env, json: bool, header: bool, store: Arc<dyn ObjectStore>, pf: PartitionedFile) -> Result<Vec<i64>, String> {
    let r = catch_unwind(AssertUnwindSafe(|| {
        env.rt.block_on(async move {
            let opener: Arc<dyn FileOpener> = if json {
                Arc::new(JsonOpener::new(3, int_schema(), FileCompressionType::UNCOMPRESSED, store, true))
            } else {
                let mut o = CsvOptions::default();
                o.has_header = Some(header);
                let src: Arc<dyn FileSource> = Arc::new(CsvSource::new(int_schema()).with_csv_options(o));
                let src = src.with_batch_size(3);
                let conf = FileScanConfigBuilder::new(ObjectStoreUrl::parse("memory://").unwrap(), src.clone()).build();
                src.create_file_opener(store, &conf, 0).map_err(|e| format!("err:{e}"))?
            };
            let fut = opener.open(pf).map_err(|e| format!("err:{e}"))?;
            let mut stream = fut.await.map_err(|e| format!("err:{e}"))?;
            let mut out = Vec::new();
            while let Some(b) = stream.next().await {
                let b = b.map_err(|e| format!("err:{e}"))?;
                let a = b.column(0).as_any().downcast_ref::<Int64Array>().ok_or("type")?.clone();
                for i in 0..a.len() {
                    out.push(if a.is_null(i) { -2 } else { a.value(i) });
                }
            }
            Ok::<_, String>(out)
        })
    }));
    match r {
        Ok(x) => x,
        Err(p) => Err(format!("panic:{}", panic_text(&p))),
    }
}

fn scan_cases(env: &Env, rng: &mut Rng, n: usize, stats: &mut Stats) {
    for i in 0..n {
        let json = i % 2 == 1;
        let header = !json && rng.chance(1, 3);
        let nrec = rng.below(9) as usize;
        let mut file: Vec<u8> = Vec::new();
        if header {
            file.extend_from_slice(b"c\n");
        }
        let crlf = !json && rng.chance(1, 6);
        for k in 0..nrec {
            let v: u64 = match rng.below(4) {
                0 => rng.below(10),
                1 => rng.below(1000),
                2 => rng.below(1_000_000_000),
                _ => rng.below(100),
            };
            if json {
                file.extend_from_slice(format!("{{\"c\":{v}}}").as_bytes());
            } else {
                file.extend_from_slice(format!("{v}").as_bytes());
            }
            if k + 1 < nrec || rng.chance(3, 4) {
                if crlf {
                    file.push(b'\r');
                }
                file.push(b'\n');
            }
        }
        let size = file.len() as u64;
        let pat = gen_pat(rng);
        let trail = rng.chance(1, 4);
        let (store, path) = env.store(&file, &pat, trail);
        let dynstore: Arc<dyn ObjectStore> = store.clone();
        // ranges: from the REAL splitter (tiny min size) or a random partition
        let mut ranges: Vec<(u64, u64)> = Vec::new();
        let via_splitter = rng.chance(1, 2);
        if via_splitter {
            let np = rng.range(1, 7) as usize;
            let g = FileGroup::new(vec![PartitionedFile::new(path.as_ref().to_string(), size)]);
            if let Some(gs) = FileGroupPartitioner::new().with_target_partitions(np).with_repartition_file_min_size(1).repartition_file_groups(&[g]) {
                for g in gs {
                    for f in g.files() {
                        ranges.push(f.range());
                    }
                }
            }
        }
        if ranges.is_empty() {
            let (npart, mut r) = gen_ranges(rng, size);
            r.truncate(npart);
            ranges = r;
        }
        let whole = scan(env, json, header, dynstore.clone(), PartitionedFile::new(path.as_ref().to_string(), size));
        let mut rows: Vec<Result<Vec<i64>, String>> = Vec::new();
        for (s, e) in &ranges {
            let pf = PartitionedFile::new(path.as_ref().to_string(), size).with_range(*s as i64, *e as i64);
            rows.push(scan(env, json, header, dynstore.clone(), pf));
            stats.runs += 1;
        }
        let mut ok = whole.is_ok();
        let mut why = String::new();
        let mut cat: Vec<i64> = Vec::new();
        for (k, r) in rows.iter().enumerate() {
            match r {
                Ok(v) => cat.extend_from_slice(v),
                Err(t) => {
                    ok = false;
                    why = format!("range {:?}: {t}", ranges[k]);
                }
            }
        }
        if let Ok(w) = &whole {
            if ok && &cat != w {
                ok = false;
                why = format!("rows of all ranges {:?} differ from the whole-file scan {:?}", cat, w);
            }
        } else if let Err(t) = &whole {
            why = format!("whole-file scan: {t}");
        }
        if !ok {
            stats.fail += 1;
        }
        let rows_s: Vec<String> = rows.iter().map(|r| match r { Ok(v) => json_list(v), Err(_) => "null".into() }).collect();
        println!(
            "{{\"k\":\"scan\",\"fmt\":\"{}\",\"header\":{header},\"file\":{},\"L\":{},\"pat\":{},\"trail\":{trail},\"splitter\":{via_splitter},\"ranges\":{},\"rows\":[{}],\"whole\":{},\"ok\":{ok},\"why\":{}}}",
            if json { "ndjson" } else { "csv" }, json_list(&file), END_SCAN_LOOKAHEAD, json_list(&pat), pairs_json(&ranges), rows_s.join(","),
            match &whole { Ok(v) => json_list(v), Err(_) => "null".into() }, h_util::json_str(&why)
        );
    }
}

fn main() {
    std::panic::set_hook(Box::new(|_| {})); // panics are caught per case and reported as data
    let args: Vec<String> = std::env::args().collect();
    let args = &args[1..];
    let seed: u64 = arg(args, "--seed", "1").parse().unwrap();
    let n: usize = arg(args, "--n", "1500").parse().unwrap();
    let maxlen: usize = arg(args, "--maxlen", "7").parse().unwrap();
    let nlong: usize = arg(args, "--long", "5").parse().unwrap();
    let mut rng = Rng::new(seed);
    let env = Env { rt: tokio::runtime::Builder::new_current_thread().build().unwrap() };
    let mut stats = Stats::default();
    stream_cases(&env, &mut rng, n, &mut stats);
    long_cases(&env, &mut rng, nlong, &mut stats);
    split_cases(&mut rng, n / 3, &mut stats);
    scan_cases(&env, &mut rng, n / 3, &mut stats);
    exhaustive(&env, maxlen, &mut stats);
    println!("{{\"k\":\"summary\",\"runs\":{},\"failed\":{},\"lookahead\":{}}}", stats.runs, stats.fail, END_SCAN_LOOKAHEAD);
}
