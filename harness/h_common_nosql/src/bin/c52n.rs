//! C52, fallback parser: the same harness source as h_common/src/bin/c52.rs, compiled against
//! datafusion-common built without feature "sql" (cfg(not(feature = "sql")) parse_identifiers).
#[path = "../../../h_common/src/bin/c52.rs"]
mod c52;

fn main() {
    c52::main()
}
