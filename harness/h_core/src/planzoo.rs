//! Shared by the "verified monitor" bins c53 (row-count metrics) and c29 (exact statistics):
//!   * `CountExec`  a transparent pass-through ExecutionPlan that counts the rows / batches flowing through it, per partition,
//!                  and remembers whether the partition's stream was read to its end;
//!   * `instrument` puts a CountExec above EVERY node of a physical plan (bottom-up, fresh copies of the nodes);
//!   * `fresh`      deep copy of a plan (fresh operator state and metrics) for executing a sub-plan on its own;
//!   * plan zoo:    SQL corpus over the C01 generator's tables (joins of every kind under both join preferences, aggregates,
//!                  windows, unnest, limits, set operations) and randomly composed operator trees built directly from
//!                  physical operators (filter, projection, local/global limit with skip, sort with fetch, sort-preserving merge,
//!                  repartition hash / round-robin / order-preserving, coalesce batches / partitions, union, hash join CollectLeft /
//!                  Partitioned, sort-merge join, nested-loop join, cross join, aggregate single / partial+final).
//! Include after refsql_gen and refsql_run:  `#[path = "../planzoo.rs"] mod planzoo;`
#![allow(dead_code, deprecated)]
use std::fmt;
use std::pin::Pin;
use std::sync::atomic::{AtomicBool, AtomicUsize, Ordering};
use std::sync::Arc;
use std::task::{Context, Poll};

use arrow::array::{ArrayRef, Int64Array};
use arrow::compute::SortOptions;
use arrow::datatypes::{DataType, Field, Schema, SchemaRef};
use arrow::record_batch::RecordBatch;
use datafusion::common::tree_node::TreeNodeRecursion;
use datafusion::common::{JoinSide, JoinType, NullEquality, Result as DFResult, ScalarValue};
use datafusion::datasource::memory::MemorySourceConfig;
use datafusion::execution::{RecordBatchStream, SendableRecordBatchStream, TaskContext};
use datafusion::logical_expr::Operator;
use datafusion::physical_expr::aggregate::AggregateExprBuilder;
use datafusion::physical_expr::expressions::{BinaryExpr, Column, IsNotNullExpr, Literal};
use datafusion::physical_expr::{LexOrdering, Partitioning, PhysicalExpr, PhysicalSortExpr};
use datafusion::physical_plan::aggregates::{AggregateExec, AggregateMode, PhysicalGroupBy};
use datafusion::physical_plan::coalesce_batches::CoalesceBatchesExec;
use datafusion::physical_plan::coalesce_partitions::CoalescePartitionsExec;
use datafusion::physical_plan::filter::{FilterExec, FilterExecBuilder};
use datafusion::physical_plan::joins::utils::{ColumnIndex, JoinFilter};
use datafusion::physical_plan::joins::{CrossJoinExec, HashJoinExec, NestedLoopJoinExec, PartitionMode, SortMergeJoinExec};
use datafusion::physical_plan::limit::{GlobalLimitExec, LocalLimitExec};
use datafusion::physical_plan::projection::ProjectionExec;
use datafusion::physical_plan::repartition::RepartitionExec;
use datafusion::physical_plan::sorts::sort::SortExec;
use datafusion::physical_plan::sorts::sort_preserving_merge::SortPreservingMergeExec;
use datafusion::physical_plan::union::UnionExec;
use datafusion::physical_plan::{DisplayAs, DisplayFormatType, ExecutionPlan, PlanProperties};
use datafusion_functions_aggregate::count::count_udaf;
use datafusion_functions_aggregate::sum::sum_udaf;
use futures::Stream;
use h_util::Rng;

use crate::refsql_gen::{Tab, Ty};

// ------------------------------------------------------------------------------------------------ counting wrapper
pub struct Counters {
    pub rows: Vec<AtomicUsize>,
    pub batches: Vec<AtomicUsize>,
    pub ended: Vec<AtomicBool>,
    pub errored: Vec<AtomicBool>,
    pub executed: Vec<AtomicUsize>,
}

pub struct CountExec {
    pub id: usize,
    pub input: Arc<dyn ExecutionPlan>,
    pub c: Arc<Counters>,
    cache: Arc<PlanProperties>,
}

impl CountExec {
    pub fn new(id: usize, input: Arc<dyn ExecutionPlan>) -> Self {
        let n = input.properties().partitioning.partition_count();
        let c = Counters {
            rows: (0..n).map(|_| AtomicUsize::new(0)).collect(),
            batches: (0..n).map(|_| AtomicUsize::new(0)).collect(),
            ended: (0..n).map(|_| AtomicBool::new(false)).collect(),
            errored: (0..n).map(|_| AtomicBool::new(false)).collect(),
            executed: (0..n).map(|_| AtomicUsize::new(0)).collect(),
        };
        let cache = Arc::clone(input.properties());
        CountExec { id, input, c: Arc::new(c), cache }
    }
    pub fn rows(&self) -> Vec<usize> { self.c.rows.iter().map(|x| x.load(Ordering::SeqCst)).collect() }
    pub fn batches(&self) -> Vec<usize> { self.c.batches.iter().map(|x| x.load(Ordering::SeqCst)).collect() }
    pub fn ended(&self) -> Vec<bool> { self.c.ended.iter().map(|x| x.load(Ordering::SeqCst)).collect() }
    pub fn errored(&self) -> bool { self.c.errored.iter().any(|x| x.load(Ordering::SeqCst)) }
    pub fn executed(&self) -> Vec<usize> { self.c.executed.iter().map(|x| x.load(Ordering::SeqCst)).collect() }
}

impl fmt::Debug for CountExec {
    fn fmt(&self, f: &mut fmt::Formatter<'_>) -> fmt::Result { write!(f, "CountExec#{}", self.id) }
}
impl DisplayAs for CountExec {
    fn fmt_as(&self, _t: DisplayFormatType, f: &mut fmt::Formatter<'_>) -> fmt::Result { write!(f, "CountExec#{}", self.id) }
}

struct CountStream {
    inner: SendableRecordBatchStream,
    c: Arc<Counters>,
    p: usize,
}
impl Stream for CountStream {
    type Item = DFResult<RecordBatch>;
    fn poll_next(mut self: Pin<&mut Self>, cx: &mut Context<'_>) -> Poll<Option<Self::Item>> {
        let poll = self.inner.as_mut().poll_next(cx);
        match &poll {
            Poll::Ready(Some(Ok(b))) => {
                self.c.rows[self.p].fetch_add(b.num_rows(), Ordering::SeqCst);
                self.c.batches[self.p].fetch_add(1, Ordering::SeqCst);
            }
            Poll::Ready(Some(Err(_))) => self.c.errored[self.p].store(true, Ordering::SeqCst),
            Poll::Ready(None) => self.c.ended[self.p].store(true, Ordering::SeqCst),
            Poll::Pending => {}
        }
        poll
    }
}
impl RecordBatchStream for CountStream {
    fn schema(&self) -> SchemaRef { self.inner.schema() }
}

impl ExecutionPlan for CountExec {
    fn name(&self) -> &str { "CountExec" }
    fn properties(&self) -> &Arc<PlanProperties> { &self.cache }
    fn children(&self) -> Vec<&Arc<dyn ExecutionPlan>> { vec![&self.input] }
    fn maintains_input_order(&self) -> Vec<bool> { vec![true] }
    fn benefits_from_input_partitioning(&self) -> Vec<bool> { vec![false] }
    fn apply_expressions(&self, _f: &mut dyn FnMut(&Arc<dyn PhysicalExpr>) -> DFResult<TreeNodeRecursion>) -> DFResult<TreeNodeRecursion> {
        Ok(TreeNodeRecursion::Continue)
    }
    fn with_new_children(self: Arc<Self>, mut children: Vec<Arc<dyn ExecutionPlan>>) -> DFResult<Arc<dyn ExecutionPlan>> {
        Ok(Arc::new(CountExec::new(self.id, children.swap_remove(0))))
    }
    fn execute(&self, partition: usize, context: Arc<TaskContext>) -> DFResult<SendableRecordBatchStream> {
        self.c.executed[partition].fetch_add(1, Ordering::SeqCst);
        let inner = self.input.execute(partition, context)?;
        Ok(Box::pin(CountStream { inner, c: Arc::clone(&self.c), p: partition }))
    }
}

/// one instrumented node: the (fresh copy of the) operator, the counter placed directly above it, ids of its children
pub struct Probe {
    pub node: Arc<dyn ExecutionPlan>,
    pub counter: Arc<CountExec>,
    pub kids: Vec<usize>,
}

/// rebuild `plan` bottom-up with a CountExec above every node; returns the new root (a CountExec) and its id
pub fn instrument(plan: &Arc<dyn ExecutionPlan>, reg: &mut Vec<Probe>) -> DFResult<(Arc<dyn ExecutionPlan>, usize)> {
    let mut kids = vec![];
    let mut kid_ids = vec![];
    for k in plan.children() {
        let (nk, id) = instrument(k, reg)?;
        kids.push(nk);
        kid_ids.push(id);
    }
    let node = if kids.is_empty() { Arc::clone(plan) } else { Arc::clone(plan).with_new_children(kids)? };
    let id = reg.len();
    let c = Arc::new(CountExec::new(id, Arc::clone(&node)));
    reg.push(Probe { node, counter: Arc::clone(&c), kids: kid_ids });
    Ok((c, id))
}

/// deep copy with fresh operator state
pub fn fresh(plan: &Arc<dyn ExecutionPlan>) -> DFResult<Arc<dyn ExecutionPlan>> {
    let kids: Vec<Arc<dyn ExecutionPlan>> = plan.children().into_iter().map(fresh).collect::<DFResult<_>>()?;
    if kids.is_empty() { Ok(Arc::clone(plan)) } else { Arc::clone(plan).with_new_children(kids)?.reset_state() }
}

/// all nodes of a plan in post-order (children before parents) with child indices
pub fn post_order(plan: &Arc<dyn ExecutionPlan>, out: &mut Vec<(Arc<dyn ExecutionPlan>, Vec<usize>)>) -> usize {
    let kids: Vec<usize> = plan.children().into_iter().map(|k| post_order(k, out)).collect();
    out.push((Arc::clone(plan), kids));
    out.len() - 1
}

// ------------------------------------------------------------------------------------------------ SQL corpus
/// fixed SQL shapes over tables t0 / tL (L = last table); c0 is BIGINT in every generated table, c1 varies
pub fn sql_corpus(tabs: &[Tab]) -> Vec<(String, String)> {
    let l = tabs.len() - 1;
    let a = "t0".to_string();
    let b = format!("t{l}");
    let mut v: Vec<(String, String)> = vec![];
    for (jn, jt) in [("inner", "JOIN"), ("left", "LEFT JOIN"), ("right", "RIGHT JOIN"), ("full", "FULL JOIN")] {
        v.push((format!("join_{jn}_eq"), format!("SELECT x.c0, y.c0, y.c1 FROM {a} x {jt} {b} y ON x.c0 = y.c0")));
        v.push((format!("join_{jn}_eq_filter"), format!("SELECT x.c0, y.c0 FROM {a} x {jt} {b} y ON x.c0 = y.c0 AND x.c0 + y.c0 > 2")));
        v.push((format!("join_{jn}_nl"), format!("SELECT x.c0, y.c0 FROM {a} x {jt} {b} y ON x.c0 < y.c0")));
    }
    v.push(("join_cross".into(), format!("SELECT x.c0, y.c0 FROM {a} x CROSS JOIN {b} y")));
    v.push(("semi".into(), format!("SELECT c0 FROM {a} x WHERE EXISTS (SELECT 1 FROM {b} y WHERE y.c0 = x.c0)")));
    v.push(("anti".into(), format!("SELECT c0 FROM {a} x WHERE NOT EXISTS (SELECT 1 FROM {b} y WHERE y.c0 = x.c0)")));
    v.push(("semi_in".into(), format!("SELECT c0 FROM {a} WHERE c0 IN (SELECT c0 FROM {b})")));
    v.push(("anti_notin".into(), format!("SELECT c0 FROM {a} WHERE c0 NOT IN (SELECT c0 FROM {b})")));
    v.push(("mark".into(), format!("SELECT c0 FROM {a} x WHERE c0 > 1 OR EXISTS (SELECT 1 FROM {b} y WHERE y.c0 = x.c0)")));
    v.push(("semi_nl".into(), format!("SELECT c0 FROM {a} x WHERE EXISTS (SELECT 1 FROM {b} y WHERE y.c0 < x.c0)")));
    v.push(("agg_group".into(), format!("SELECT c0, count(*), sum(c0), min(c1), max(c1) FROM {a} GROUP BY c0")));
    v.push(("agg_global".into(), format!("SELECT count(*), count(c1), sum(c0) FROM {b}")));
    v.push(("agg_distinct".into(), format!("SELECT count(DISTINCT c0), c1 FROM {a} GROUP BY c1")));
    v.push(("agg_having".into(), format!("SELECT c0 % 2, count(*) FROM {b} GROUP BY c0 % 2 HAVING count(*) > 1")));
    v.push(("agg_sets".into(), format!("SELECT c0, c1, count(*) FROM {a} GROUP BY GROUPING SETS ((c0), (c1), ())")));
    v.push(("agg_topk".into(), format!("SELECT c0, max(c0 + 1) m FROM {a} GROUP BY c0 ORDER BY m DESC LIMIT 2")));
    v.push(("distinct".into(), format!("SELECT DISTINCT c0 FROM {b}")));
    v.push(("distinct_limit".into(), format!("SELECT DISTINCT c0 FROM {b} LIMIT 2")));
    v.push(("window_part".into(), format!("SELECT c0, sum(c0) OVER (PARTITION BY c1 ORDER BY c0) FROM {a}")));
    v.push(("window_rows".into(), format!("SELECT c0, count(*) OVER (ORDER BY c0 ROWS BETWEEN 1 PRECEDING AND 1 FOLLOWING) FROM {a}")));
    v.push(("window_unbounded".into(), format!("SELECT c0, max(c0) OVER (PARTITION BY c1), row_number() OVER (ORDER BY c0 DESC) FROM {b}")));
    v.push(("window_rank_limit".into(), format!("SELECT c0, rank() OVER (ORDER BY c0) r FROM {a} ORDER BY c0 LIMIT 3")));
    v.push(("unnest".into(), format!("SELECT c0, unnest(make_array(c0, c0 + 1, NULL)) FROM {a}")));
    v.push(("unnest_empty".into(), format!("SELECT unnest(CASE WHEN c0 > 1 THEN make_array(c0) ELSE make_array() END) FROM {b}")));
    v.push(("unnest_range".into(), format!("SELECT c0, unnest(range(0, c0 % 4)) FROM {a}")));
    v.push(("limit".into(), format!("SELECT c0, c1 FROM {a} LIMIT 3")));
    v.push(("limit_offset".into(), format!("SELECT c0 FROM {a} LIMIT 2 OFFSET 1")));
    v.push(("offset_only".into(), format!("SELECT c0 FROM {b} OFFSET 2")));
    v.push(("filter_limit".into(), format!("SELECT c0 FROM {a} WHERE c0 > 0 LIMIT 2")));
    v.push(("sort".into(), format!("SELECT c0, c1 FROM {a} ORDER BY c0 DESC, c1")));
    v.push(("sort_limit".into(), format!("SELECT c0, c1 FROM {a} ORDER BY c0 LIMIT 2")));
    v.push(("sort_limit_offset".into(), format!("SELECT c0 FROM {b} ORDER BY c0 DESC LIMIT 3 OFFSET 1")));
    v.push(("union_all".into(), format!("SELECT c0 FROM {a} UNION ALL SELECT c0 FROM {b}")));
    v.push(("union".into(), format!("SELECT c0 FROM {a} UNION SELECT c0 FROM {b}")));
    v.push(("union_limit".into(), format!("SELECT c0 FROM {a} UNION ALL SELECT c0 + 1 FROM {b} LIMIT 4")));
    v.push(("union_sort".into(), format!("(SELECT c0 FROM {a} ORDER BY c0) UNION ALL (SELECT c0 FROM {b} ORDER BY c0) ORDER BY c0")));
    v.push(("intersect".into(), format!("SELECT c0 FROM {a} INTERSECT SELECT c0 FROM {b}")));
    v.push(("except".into(), format!("SELECT c0 FROM {a} EXCEPT SELECT c0 FROM {b}")));
    v.push(("join_agg".into(), format!("SELECT x.c0, count(y.c0) FROM {a} x LEFT JOIN {b} y ON x.c0 = y.c0 GROUP BY x.c0 ORDER BY 1")));
    v.push(("join_limit".into(), format!("SELECT x.c0, y.c0 FROM {a} x JOIN {b} y ON x.c0 = y.c0 LIMIT 2")));
    v.push(("join_sort_limit".into(), format!("SELECT x.c0, y.c1 FROM {a} x JOIN {b} y ON x.c0 = y.c0 ORDER BY x.c0 LIMIT 3")));
    v.push(("scalar_sub".into(), format!("SELECT c0, (SELECT max(c0) FROM {b}) FROM {a}")));
    v.push(("values".into(), "SELECT * FROM (VALUES (1, 'a'), (2, 'b'), (3, NULL)) v(x, y) WHERE x > 1".to_string()));
    v.push(("empty".into(), format!("SELECT c0 FROM {a} WHERE false")));
    // witnesses of C29 findings (constant column over an empty input; pushed-down limit smaller than a partition; union with an empty constant input)
    v.push(("const_on_empty".into(), format!("SELECT c0, 5 AS k FROM {a} WHERE c0 > 100")));
    v.push(("limit_small".into(), format!("SELECT c0 FROM {a} LIMIT 1 OFFSET 1")));
    v.push(("union_const_empty".into(), format!("SELECT 'a' AS x FROM {a} WHERE c0 > 100 UNION ALL SELECT 'b' AS x FROM {b}")));
    v.push(("agg_sets_one_row".into(), "SELECT c0, c1, count(*) FROM (VALUES (1, 2)) v(c0, c1) GROUP BY GROUPING SETS ((c0), (c1), ())".to_string()));
    v.push(("case_proj".into(), format!("SELECT CASE WHEN c0 > 1 THEN c0 ELSE -c0 END, c0 IS NULL FROM {b} WHERE c0 IS NOT NULL OR c1 IS NULL")));
    v
}

/// session options varied for SQL plans (result-neutral; they change which operators the planner picks)
pub const SQL_OPTS: &[&[(&str, &str)]] = &[
    &[],
    &[("datafusion.optimizer.prefer_hash_join", "false")],
    &[("datafusion.optimizer.repartition_joins", "false"), ("datafusion.optimizer.repartition_aggregations", "false")],
    &[("datafusion.optimizer.hash_join_single_partition_threshold", "0"), ("datafusion.optimizer.hash_join_single_partition_threshold_rows", "0")],
    &[("datafusion.optimizer.prefer_existing_sort", "true"), ("datafusion.optimizer.repartition_sorts", "false")],
    &[("datafusion.execution.coalesce_batches", "false"), ("datafusion.optimizer.enable_round_robin_repartition", "false")],
    &[("datafusion.optimizer.prefer_hash_join", "false"), ("datafusion.optimizer.enable_dynamic_filter_pushdown", "false")],
    &[("datafusion.execution.skip_partial_aggregation_probe_rows_threshold", "1"), ("datafusion.execution.skip_partial_aggregation_probe_ratio_threshold", "0")],
    &[("datafusion.optimizer.enable_topk_aggregation", "false"), ("datafusion.optimizer.enable_window_limits", "false")],
];

// ------------------------------------------------------------------------------------------------ direct operator trees
pub fn abc_schema() -> SchemaRef {
    Arc::new(Schema::new(vec![Field::new("a", DataType::Int64, true), Field::new("b", DataType::Int64, true), Field::new("c", DataType::Int64, true)]))
}
fn colx(i: usize) -> Arc<dyn PhysicalExpr> { Arc::new(Column::new(["a", "b", "c"][i], i)) }
fn lit(v: i64) -> Arc<dyn PhysicalExpr> { Arc::new(Literal::new(ScalarValue::Int64(Some(v)))) }
fn bin(l: Arc<dyn PhysicalExpr>, op: Operator, r: Arc<dyn PhysicalExpr>) -> Arc<dyn PhysicalExpr> { Arc::new(BinaryExpr::new(l, op, r)) }

pub struct TreeGen<'a> {
    pub rng: &'a mut Rng,
    pub desc: Vec<String>,
    pub bs: usize,
}

type P = Arc<dyn ExecutionPlan>;

impl<'a> TreeGen<'a> {
    fn nparts(p: &P) -> usize { p.properties().partitioning.partition_count() }

    pub fn source(&mut self) -> DFResult<P> {
        let np = 1 + self.rng.below(3) as usize;
        let schema = abc_schema();
        let mut parts = vec![];
        let mut shape = vec![];
        for _ in 0..np {
            let nb = self.rng.below(4) as usize;
            let mut bs = vec![];
            let mut sh = vec![];
            for _ in 0..nb {
                let nr = *self.rng.pick(&[0usize, 1, 2, 3, 5, 8]);
                let cols: Vec<ArrayRef> = (0..3)
                    .map(|c| {
                        let dom = [4i64, 6, 20][c];
                        Arc::new(Int64Array::from((0..nr).map(|_| if self.rng.chance(1, 6) { None } else { Some(self.rng.range(0, dom)) }).collect::<Vec<_>>())) as ArrayRef
                    })
                    .collect();
                bs.push(RecordBatch::try_new(Arc::clone(&schema), cols)?);
                sh.push(nr);
            }
            parts.push(bs);
            shape.push(sh);
        }
        self.desc.push(format!("src{:?}", shape));
        Ok(MemorySourceConfig::try_new_exec(&parts, schema, None)?)
    }

    fn ordering(&mut self, nk: usize) -> LexOrdering {
        let mut ks = vec![];
        for i in 0..nk {
            ks.push(PhysicalSortExpr { expr: colx(i), options: SortOptions { descending: self.rng.chance(1, 3), nulls_first: self.rng.chance(1, 2) } });
        }
        LexOrdering::new(ks).unwrap()
    }
    fn single(&mut self, p: P) -> P {
        if Self::nparts(&p) == 1 { p } else { self.desc.push("coalesce_partitions".into()); Arc::new(CoalescePartitionsExec::new(p)) }
    }
    /// project any Int64-only-or-wider output back to three Int64 columns a, b, c
    fn norm(&mut self, p: P) -> DFResult<P> {
        let s = p.schema();
        let ints: Vec<usize> = (0..s.fields().len()).filter(|i| s.field(*i).data_type() == &DataType::Int64).collect();
        if s.fields().len() == 3 && ints.len() == 3 && s.field(0).name() == "a" && s.field(1).name() == "b" && s.field(2).name() == "c" { return Ok(p); }
        let mut pick = vec![];
        for k in 0..3 { pick.push(ints[if ints.len() >= 6 && self.rng.chance(1, 2) { ints.len() - 3 + k } else { k.min(ints.len() - 1) }]); }
        let exprs: Vec<(Arc<dyn PhysicalExpr>, String)> =
            pick.iter().enumerate().map(|(k, i)| (Arc::new(Column::new(s.field(*i).name(), *i)) as Arc<dyn PhysicalExpr>, ["a", "b", "c"][k].to_string())).collect();
        self.desc.push(format!("norm{:?}", pick));
        Ok(Arc::new(ProjectionExec::try_new(exprs, p)?))
    }

    pub fn tree(&mut self, d: u32) -> DFResult<P> {
        if d == 0 { return self.source(); }
        let k = self.rng.below(24);
        if k >= 17 {
            let l = self.tree(d - 1)?;
            let r = self.tree(d - 1)?;
            return self.binary(k, l, r);
        }
        let p = self.tree(d - 1)?;
        self.unary(k, p)
    }

    fn unary(&mut self, k: u64, p: P) -> DFResult<P> {
        Ok(match k {
            0 => {
                let (e, s): (Arc<dyn PhysicalExpr>, String) = match self.rng.below(5) {
                    0 => { let v = self.rng.range(0, 4); (bin(colx(0), Operator::Gt, lit(v)), format!("a>{v}")) }
                    1 => (Arc::new(IsNotNullExpr::new(colx(1))), "b notnull".into()),
                    2 => { let v = self.rng.range(0, 6); (bin(colx(1), Operator::Eq, lit(v)), format!("b={v}")) }
                    3 => (bin(colx(0), Operator::Lt, colx(1)), "a<b".into()),
                    _ => (bin(lit(1), Operator::Eq, lit(*self.rng.pick(&[0i64, 1]))), "const".into()),
                };
                self.desc.push(format!("filter({s})"));
                Arc::new(FilterExec::try_new(e, p)?)
            }
            1 => {
                let exprs: Vec<(Arc<dyn PhysicalExpr>, String)> = vec![
                    (colx(*self.rng.pick(&[0usize, 1])), "a".into()),
                    (if self.rng.chance(1, 2) { bin(colx(1), Operator::Plus, lit(1)) } else { colx(1) }, "b".into()),
                    (if self.rng.chance(1, 3) { lit(7) } else { colx(2) }, "c".into()),
                ];
                self.desc.push("projection".into());
                Arc::new(ProjectionExec::try_new(exprs, p)?)
            }
            2 => { let f = self.rng.below(7) as usize; self.desc.push(format!("local_limit({f})")); Arc::new(LocalLimitExec::new(p, f)) }
            3 => {
                let p = self.single(p);
                let skip = *self.rng.pick(&[0usize, 0, 1, 2, 5]);
                let fetch = if self.rng.chance(1, 4) { None } else { Some(self.rng.below(7) as usize) };
                self.desc.push(format!("global_limit({skip},{fetch:?})"));
                Arc::new(GlobalLimitExec::new(p, skip, fetch))
            }
            4 | 5 => {
                let nk = 1 + self.rng.below(2) as usize;
                let o = self.ordering(nk);
                let fetch = if self.rng.chance(1, 2) { Some(self.rng.below(6) as usize + if k == 4 { 1 } else { 0 }) } else { None };
                let pp = self.rng.chance(1, 2);
                let fetch = if fetch == Some(0) { Some(1) } else { fetch };
                self.desc.push(format!("sort(k{nk},{fetch:?},pp={pp})"));
                let p = if pp { p } else { self.single(p) };
                Arc::new(SortExec::new(o, p).with_fetch(fetch).with_preserve_partitioning(pp))
            }
            6 => {
                let o = self.ordering(1);
                let fetch = if self.rng.chance(1, 3) { Some(1 + self.rng.below(5) as usize) } else { None };
                self.desc.push(format!("sort_pp+spm({fetch:?})"));
                let s: P = Arc::new(SortExec::new(o.clone(), p).with_preserve_partitioning(true));
                Arc::new(SortPreservingMergeExec::new(o, s).with_fetch(fetch))
            }
            7 => { let n = 1 + self.rng.below(4) as usize; self.desc.push(format!("repartition_rr({n})")); Arc::new(RepartitionExec::try_new(p, Partitioning::RoundRobinBatch(n))?) }
            8 => {
                let n = 1 + self.rng.below(4) as usize;
                let ks: Vec<Arc<dyn PhysicalExpr>> = if self.rng.chance(1, 2) { vec![colx(0)] } else { vec![colx(0), colx(1)] };
                self.desc.push(format!("repartition_hash({},{n})", ks.len()));
                Arc::new(RepartitionExec::try_new(p, Partitioning::Hash(ks, n))?)
            }
            9 => {
                let n = 1 + self.rng.below(3) as usize;
                let o = self.ordering(1);
                let hash = self.rng.chance(1, 2);
                self.desc.push(format!("sort_pp+repartition_preserve_order(hash={hash},{n})"));
                let s: P = Arc::new(SortExec::new(o, p).with_preserve_partitioning(true));
                let part = if hash { Partitioning::Hash(vec![colx(0)], n) } else { Partitioning::RoundRobinBatch(n) };
                Arc::new(RepartitionExec::try_new(s, part)?.with_preserve_order())
            }
            10 => {
                let n = *self.rng.pick(&[1usize, 2, 4, 100]);
                let fetch = if self.rng.chance(1, 4) { Some(self.rng.below(6) as usize) } else { None };
                self.desc.push(format!("coalesce_batches({n},{fetch:?})"));
                Arc::new(CoalesceBatchesExec::new(p, n).with_fetch(fetch))
            }
            11 => {
                let fetch = if self.rng.chance(1, 4) { Some(self.rng.below(6) as usize) } else { None };
                self.desc.push(format!("coalesce_partitions({fetch:?})"));
                Arc::new(CoalescePartitionsExec::new(p).with_fetch(fetch))
            }
            12 | 13 | 14 => {
                // aggregate: GROUP BY a -> a, sum(b) AS b, count(c) AS c
                let schema = p.schema();
                let aggr = vec![
                    Arc::new(AggregateExprBuilder::new(sum_udaf(), vec![colx(1)]).schema(Arc::clone(&schema)).alias("b").build()?),
                    Arc::new(AggregateExprBuilder::new(count_udaf(), vec![colx(2)]).schema(Arc::clone(&schema)).alias("c").build()?),
                ];
                let global = self.rng.chance(1, 5);
                let gb = if global { PhysicalGroupBy::new_single(vec![]) } else { PhysicalGroupBy::new_single(vec![(colx(0), "a".to_string())]) };
                let filt = vec![None, None];
                let out: P = if k == 12 {
                    let p = self.single(p);
                    self.desc.push(format!("aggregate_single(global={global})"));
                    Arc::new(AggregateExec::try_new(AggregateMode::Single, gb, aggr, filt, p, schema)?)
                } else {
                    let part: P = Arc::new(AggregateExec::try_new(AggregateMode::Partial, gb.clone(), aggr.clone(), filt.clone(), p, Arc::clone(&schema))?);
                    let fgb = gb.as_final();
                    if k == 13 || global {
                        self.desc.push(format!("aggregate_partial+coalesce+final(global={global})"));
                        let c = self.single(part);
                        Arc::new(AggregateExec::try_new(AggregateMode::Final, fgb, aggr, filt, c, schema)?)
                    } else {
                        let n = 1 + self.rng.below(3) as usize;
                        self.desc.push(format!("aggregate_partial+hash({n})+final_partitioned"));
                        let r: P = Arc::new(RepartitionExec::try_new(part, Partitioning::Hash(vec![Arc::new(Column::new("a", 0))], n))?);
                        Arc::new(AggregateExec::try_new(AggregateMode::FinalPartitioned, fgb, aggr, filt, r, schema)?)
                    }
                };
                if global {
                    // global aggregate has two columns (b, c): put a constant a in front
                    let s = out.schema();
                    let exprs: Vec<(Arc<dyn PhysicalExpr>, String)> = vec![
                        (lit(0), "a".into()),
                        (Arc::new(Column::new(s.field(0).name(), 0)), "b".into()),
                        (Arc::new(Column::new(s.field(1).name(), 1)), "c".into()),
                    ];
                    Arc::new(ProjectionExec::try_new(exprs, out)?)
                } else { out }
            }
            _ => {
                // filter with fetch / projection over filter
                let f = Some(self.rng.below(5) as usize);
                self.desc.push(format!("filter_fetch({f:?})"));
                Arc::new(FilterExecBuilder::new(bin(colx(0), Operator::GtEq, lit(1)), p).with_fetch(f).build()?)
            }
        })
    }

    fn join_filter(&mut self) -> Option<JoinFilter> {
        if !self.rng.chance(1, 3) { return None; }
        let schema = Arc::new(Schema::new(vec![Field::new("lb", DataType::Int64, true), Field::new("rb", DataType::Int64, true)]));
        let e = bin(Arc::new(Column::new("lb", 0)), *self.rng.pick(&[Operator::LtEq, Operator::NotEq, Operator::Gt]), Arc::new(Column::new("rb", 1)));
        Some(JoinFilter::new(e, vec![ColumnIndex { index: 1, side: JoinSide::Left }, ColumnIndex { index: 1, side: JoinSide::Right }], schema))
    }

    fn binary(&mut self, k: u64, l: P, r: P) -> DFResult<P> {
        const JTS: [JoinType; 10] = [JoinType::Inner, JoinType::Left, JoinType::Right, JoinType::Full, JoinType::LeftSemi, JoinType::LeftAnti,
            JoinType::RightSemi, JoinType::RightAnti, JoinType::LeftMark, JoinType::RightMark];
        let jt = *self.rng.pick(&JTS);
        let on: Vec<(Arc<dyn PhysicalExpr>, Arc<dyn PhysicalExpr>)> = vec![(colx(0), colx(0))];
        let ne = if self.rng.chance(1, 4) { NullEquality::NullEqualsNull } else { NullEquality::NullEqualsNothing };
        let out: P = match k {
            17 => { self.desc.push("union".into()); UnionExec::try_new(vec![l, r])? }
            18 => {
                let f = self.join_filter();
                self.desc.push(format!("hash_join_collect_left({jt:?},filter={},{ne:?})", f.is_some()));
                let l = self.single(l);
                Arc::new(HashJoinExec::try_new(l, r, on, f, &jt, None, PartitionMode::CollectLeft, ne, false)?)
            }
            19 => {
                let n = 1 + self.rng.below(3) as usize;
                let f = self.join_filter();
                self.desc.push(format!("hash_join_partitioned({jt:?},{n},filter={},{ne:?})", f.is_some()));
                let l: P = Arc::new(RepartitionExec::try_new(l, Partitioning::Hash(vec![colx(0)], n))?);
                let r: P = Arc::new(RepartitionExec::try_new(r, Partitioning::Hash(vec![colx(0)], n))?);
                Arc::new(HashJoinExec::try_new(l, r, on, f, &jt, None, PartitionMode::Partitioned, ne, false)?)
            }
            20 | 21 => {
                let n = 1 + self.rng.below(3) as usize;
                let so = SortOptions { descending: self.rng.chance(1, 2), nulls_first: self.rng.chance(1, 2) };
                // KF-C05-2 / KF-C05-3 concern column-free filters only; this filter has columns
                let f = self.join_filter();
                self.desc.push(format!("sort_merge_join({jt:?},{n},filter={},{ne:?})", f.is_some()));
                let mk = |p: P| -> DFResult<P> {
                    let rp: P = Arc::new(RepartitionExec::try_new(p, Partitioning::Hash(vec![colx(0)], n))?);
                    let o = LexOrdering::new(vec![PhysicalSortExpr { expr: colx(0), options: so }]).unwrap();
                    Ok(Arc::new(SortExec::new(o, rp).with_preserve_partitioning(true)))
                };
                Arc::new(SortMergeJoinExec::try_new(mk(l)?, mk(r)?, on, f, jt, vec![so], ne)?)
            }
            22 => {
                let f = if self.rng.chance(3, 4) {
                    let schema = Arc::new(Schema::new(vec![Field::new("la", DataType::Int64, true), Field::new("ra", DataType::Int64, true)]));
                    let e = bin(Arc::new(Column::new("la", 0)), *self.rng.pick(&[Operator::Lt, Operator::Eq, Operator::GtEq]), Arc::new(Column::new("ra", 1)));
                    Some(JoinFilter::new(e, vec![ColumnIndex { index: 0, side: JoinSide::Left }, ColumnIndex { index: 0, side: JoinSide::Right }], schema))
                } else { None };
                self.desc.push(format!("nested_loop_join({jt:?},filter={})", f.is_some()));
                let l = self.single(l);
                Arc::new(NestedLoopJoinExec::try_new(l, r, f, &jt, None)?)
            }
            _ => { self.desc.push("cross_join".into()); let l = self.single(l); Arc::new(CrossJoinExec::new(l, r)) }
        };
        self.norm(out)
    }
}

pub fn ty_of(t: Ty) -> DataType { match t { Ty::Int | Ty::Rat => DataType::Int64, Ty::Bool => DataType::Boolean, Ty::Str => DataType::Utf8 } }

// ------------------------------------------------------------------------------------------------ fixed witness trees
/// deterministic source: partition p has batches of the given sizes; row r (global counter): a = r % 4, b = r % 3 (NULL when r % 5 == 4), c = r
pub fn fixed_source(shape: &[Vec<usize>]) -> DFResult<P> {
    let schema = abc_schema();
    let mut r = 0i64;
    let mut parts = vec![];
    for p in shape {
        let mut bs = vec![];
        for nr in p {
            let rows: Vec<i64> = (0..*nr as i64).map(|i| r + i).collect();
            r += *nr as i64;
            let cols: Vec<ArrayRef> = vec![
                Arc::new(Int64Array::from(rows.iter().map(|x| Some(x % 4)).collect::<Vec<_>>())),
                Arc::new(Int64Array::from(rows.iter().map(|x| if x % 5 == 4 { None } else { Some(x % 3) }).collect::<Vec<_>>())),
                Arc::new(Int64Array::from(rows.iter().map(|x| Some(*x)).collect::<Vec<_>>())),
            ];
            bs.push(RecordBatch::try_new(Arc::clone(&schema), cols)?);
        }
        parts.push(bs);
    }
    Ok(MemorySourceConfig::try_new_exec(&parts, schema, None)?)
}

pub const WITNESS_TREES: usize = 13;
pub fn witness_tree(g: &mut TreeGen, i: usize) -> DFResult<P> {
    let src = fixed_source(&[vec![3, 2], vec![4], vec![1, 0, 3]])?;
    let asc = |k: usize| LexOrdering::new(vec![PhysicalSortExpr { expr: colx(k), options: SortOptions { descending: false, nulls_first: true } }]).unwrap();
    g.desc.push(format!("fixed_source[[3,2],[4],[1,0,3]] ; witness_tree {i}"));
    Ok(match i {
        0 => Arc::new(LocalLimitExec::new(src, 2)),
        1 => Arc::new(SortExec::new(asc(2), src).with_fetch(Some(2)).with_preserve_partitioning(true)),
        2 => Arc::new(GlobalLimitExec::new(Arc::new(CoalescePartitionsExec::new(src)), 1, Some(3))),
        3 => Arc::new(GlobalLimitExec::new(Arc::new(CoalescePartitionsExec::new(src)), 20, None)),
        4 => Arc::new(FilterExec::try_new(bin(colx(1), Operator::Eq, lit(1)), src)?),
        5 => Arc::new(CoalesceBatchesExec::new(src, 2).with_fetch(Some(3))),
        6 => Arc::new(RepartitionExec::try_new(src, Partitioning::RoundRobinBatch(2))?),
        7 => UnionExec::try_new(vec![Arc::clone(&src) as P, fixed_source(&[vec![2], vec![2]])?])?,
        8 => {
            let s: P = Arc::new(SortExec::new(asc(0), src).with_preserve_partitioning(true));
            Arc::new(RepartitionExec::try_new(s, Partitioning::Hash(vec![colx(0)], 2))?.with_preserve_order())
        }
        9 => Arc::new(SortPreservingMergeExec::new(asc(2), Arc::new(SortExec::new(asc(2), src).with_preserve_partitioning(true))).with_fetch(Some(4))),
        10 => Arc::new(CoalescePartitionsExec::new(src).with_fetch(Some(2))),
        11 => Arc::new(CrossJoinExec::new(Arc::new(CoalescePartitionsExec::new(fixed_source(&[vec![2], vec![1]])?)), src)),
        _ => {
            // partial aggregate with GROUPING SETS ((a), (b), ()) over ONE row that sits in the first of three partitions
            let one = fixed_source(&[vec![1], vec![], vec![]])?;
            let schema = one.schema();
            let aggr = vec![Arc::new(AggregateExprBuilder::new(count_udaf(), vec![colx(2)]).schema(Arc::clone(&schema)).alias("c").build()?)];
            let null = || Arc::new(Literal::new(ScalarValue::Int64(None))) as Arc<dyn PhysicalExpr>;
            let gb = PhysicalGroupBy::new(vec![(colx(0), "a".to_string()), (colx(1), "b".to_string())], vec![(null(), "a".to_string()), (null(), "b".to_string())],
                vec![vec![false, true], vec![true, false], vec![true, true]], true);
            Arc::new(AggregateExec::try_new(AggregateMode::Partial, gb, aggr, vec![None], one, schema)?)
        }
    })
}
