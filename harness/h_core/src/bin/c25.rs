//! C25: written files read back to the data that was written.
//! One JSON line per case.  Kinds:
//!  "hive":  partitioned write (COPY .. PARTITIONED BY / DataFrame::write_* with_partition_by / INSERT INTO a
//!           partitioned external table); model-compared (directory paths + ids per file) + oracles
//!  "flat":  non-partitioned write to a directory (row_count_demuxer); model-compared + oracles
//!  "single": non-partitioned write to a single file path; oracles only
//!  "csvbytes": bytes of one uncompressed CSV file + the field texts of its rows (model-compared with C51 write_csv)
//! Oracles (independent of the Coq model): read-back bag == written bag (up to the stated per-format
//! normalisation), every file below its partition directory with the right extension, no stray files.
use std::path::{Path as FsPath, PathBuf};
use std::sync::Arc;

use arrow::array::{ArrayRef, BooleanArray, Date32Array, Float64Array, Int64Array, StringArray};
use arrow::datatypes::{DataType, Field, Schema, SchemaRef};
use arrow::record_batch::RecordBatch;
use datafusion::datasource::file_format::csv::CsvFormat;
use datafusion::datasource::file_format::file_compression_type::FileCompressionType;
use datafusion::datasource::file_format::json::JsonFormat;
use datafusion::datasource::file_format::parquet::ParquetFormat;
use datafusion::datasource::file_format::FileFormat;
use datafusion::datasource::listing::{ListingOptions, ListingTable, ListingTableConfig, ListingTableUrl};
use datafusion::datasource::MemTable;
use datafusion::dataframe::DataFrameWriteOptions;
use datafusion::prelude::*;
use h_util::{arg, json_str, Rng};

#[derive(Clone, Copy, Debug, PartialEq)]
enum Ty { I, S, B, D, F }
#[derive(Clone, Debug, PartialEq)]
enum Cell { N, I(i64), S(String), B(bool), D(i32), F(f64) }

fn ty_name(t: Ty) -> &'static str { match t { Ty::I => "int", Ty::S => "str", Ty::B => "bool", Ty::D => "date", Ty::F => "float" } }
fn ty_dt(t: Ty) -> DataType { match t { Ty::I => DataType::Int64, Ty::S => DataType::Utf8, Ty::B => DataType::Boolean, Ty::D => DataType::Date32, Ty::F => DataType::Float64 } }
fn ty_sql(t: Ty) -> &'static str { match t { Ty::I => "BIGINT", Ty::S => "VARCHAR", Ty::B => "BOOLEAN", Ty::D => "DATE", Ty::F => "DOUBLE" } }

fn cell_json(c: &Cell) -> String {
    match c {
        Cell::N => "null".into(),
        Cell::I(v) => format!("{{\"i\":\"{v}\"}}"),
        Cell::S(s) => format!("{{\"s\":{}}}", json_str(s)),
        Cell::B(b) => format!("{{\"b\":{b}}}"),
        Cell::D(d) => format!("{{\"d\":{d}}}"),
        Cell::F(f) => format!("{{\"f\":\"{}\"}}", f.to_bits()),
    }
}

#[derive(Clone, Copy, Debug, PartialEq)]
enum Fmt { Csv, Json, Parquet }
fn fmt_name(f: Fmt) -> &'static str { match f { Fmt::Csv => "csv", Fmt::Json => "json", Fmt::Parquet => "parquet" } }

#[derive(Clone, Debug)]
struct Opts { header: bool, delim: u8, quote: u8, gzip: bool, keep: bool, min_par: usize, max_rows: usize, max_buf: usize, method: u8, single: bool }

/// what the format can promise (documented limits, not alarms):
///  CSV: NULL and the empty string have ONE encoding (an empty field) -> both compare as NULL (Utf8 columns)
///  JSON: no encoding of NaN / +-inf (arrow-json writes null) -> compare as NULL
///  all formats: any NaN is one NaN
fn norm(fmt: Fmt, c: &Cell) -> String {
    match c {
        Cell::N => "N".into(),
        Cell::S(s) if s.is_empty() && fmt == Fmt::Csv => "N".into(),
        Cell::F(f) if !f.is_finite() && fmt == Fmt::Json => "N".into(),
        Cell::F(f) if f.is_nan() => "F:nan".into(),
        Cell::F(f) => format!("F:{}", f.to_bits()),
        Cell::I(v) => format!("I:{v}"),
        Cell::S(s) => format!("S:{}", json_str(s)),
        Cell::B(b) => format!("B:{b}"),
        Cell::D(d) => format!("D:{d}"),
    }
}

const STRS: &[&str] = &["", "a", "a,b", "q\"uote", "new\nline", "cr\rlf\r\nx", " lead", "trail ", "\u{fc}n\u{ef}", "\u{65e5}\u{672c}\u{8a9e}", "tab\tx",
    "semi;colon", "pipe|", "'single'", "NULL", "null", "\\N", "\\", "1", "true", "\"", "\"\"", ",", "a\"\"b", "\u{1F600}"];
const INTS: &[i64] = &[0, -1, 1, 7, 42, i64::MIN, i64::MAX, 1000000, -300];
const FLOATS: &[f64] = &[0.0, -0.0, f64::NAN, f64::INFINITY, f64::NEG_INFINITY, 1.5, 1e300, 5e-324, 0.1, -2.25, 1e21, 123456789.125];
const DATES: &[i32] = &[0, -1, 18262, 2932896, -719162, 19000, 11016, -25567];
// partition values: spaces, '/', '=', '%', unicode, empty, case, look-alike escapes, dots, control characters
const PSTRS: &[&str] = &["a", "A", "b", "a b", " a", "a/b", "a=b", "100%", "%2F", "%41", "%", "\u{e9}", "\u{65e5}\u{672c}", ".", "..", "a\\b", "x?y#z", "it's", "a\"b",
    "l1\nl2", "a+b", "__HIVE_DEFAULT_PARTITION__", "null", "NULL", "x", "y", "a:b", "a*b", "{c}", "~", "a\tb", "=", "/", "a%2Fb", "", "0", "01"];
const PINTS: &[i64] = &[0, 1, -1, 7, 10, i64::MIN, i64::MAX];
const PDATES: &[i32] = &[0, -1, 18262, 2932896, -719162, 19000];

fn gen_cell(rng: &mut Rng, t: Ty, null_ok: bool) -> Cell {
    if null_ok && rng.chance(1, 5) { return Cell::N; }
    match t {
        Ty::I => Cell::I(if rng.chance(1, 3) { rng.range(-50, 50) } else { *rng.pick(INTS) }),
        Ty::S => Cell::S(rng.pick(STRS).to_string()),
        Ty::B => Cell::B(rng.chance(1, 2)),
        Ty::D => Cell::D(*rng.pick(DATES)),
        Ty::F => Cell::F(*rng.pick(FLOATS)),
    }
}
fn gen_pcell(rng: &mut Rng, t: Ty, pool: &[usize], nulls: bool) -> Cell {
    if nulls && rng.chance(1, 4) { return Cell::N; }
    // few distinct values per column so that keys repeat
    let k = *rng.pick(pool);
    match t {
        Ty::I => Cell::I(PINTS[k % PINTS.len()]),
        Ty::S => Cell::S(PSTRS[k % PSTRS.len()].to_string()),
        Ty::B => Cell::B(k % 2 == 0),
        Ty::D => Cell::D(PDATES[k % PDATES.len()]),
        Ty::F => Cell::F(0.0),
    }
}

struct Table { cols: Vec<(String, Ty)>, pby: Vec<String>, batches: Vec<Vec<Vec<Cell>>> }

fn make_batch(schema: &SchemaRef, cols: &[(String, Ty)], rows: &[Vec<Cell>]) -> RecordBatch {
    let arrays: Vec<ArrayRef> = cols.iter().enumerate().map(|(ci, (_, t))| -> ArrayRef {
        match t {
            Ty::I => Arc::new(Int64Array::from(rows.iter().map(|r| if let Cell::I(v) = &r[ci] { Some(*v) } else { None }).collect::<Vec<_>>())),
            Ty::S => Arc::new(StringArray::from(rows.iter().map(|r| if let Cell::S(v) = &r[ci] { Some(v.clone()) } else { None }).collect::<Vec<_>>())),
            Ty::B => Arc::new(BooleanArray::from(rows.iter().map(|r| if let Cell::B(v) = &r[ci] { Some(*v) } else { None }).collect::<Vec<_>>())),
            Ty::D => Arc::new(Date32Array::from(rows.iter().map(|r| if let Cell::D(v) = &r[ci] { Some(*v) } else { None }).collect::<Vec<_>>())),
            Ty::F => Arc::new(Float64Array::from(rows.iter().map(|r| if let Cell::F(v) = &r[ci] { Some(*v) } else { None }).collect::<Vec<_>>())),
        }
    }).collect();
    RecordBatch::try_new(schema.clone(), arrays).unwrap()
}

fn table_schema(cols: &[(String, Ty)]) -> SchemaRef {
    Arc::new(Schema::new(cols.iter().map(|(n, t)| Field::new(n, ty_dt(*t), n != "id")).collect::<Vec<_>>()))
}

fn gen_table(rng: &mut Rng, npart: usize, nulls_in_part: bool, pname_weird: bool) -> Table {
    let nd = rng.below(4) as usize;
    let mut cols: Vec<(String, Ty)> = vec![("id".to_string(), Ty::I)];
    for i in 0..nd { cols.push((format!("d{i}"), *rng.pick(&[Ty::I, Ty::S, Ty::S, Ty::B, Ty::D, Ty::F]))); }
    let mut pby = vec![];
    for i in 0..npart {
        let name = if pname_weird && i == 0 { "p\u{e9}".to_string() } else { format!("p{i}") };
        let t = *rng.pick(&[Ty::S, Ty::S, Ty::S, Ty::I, Ty::B, Ty::D]);
        // partition columns anywhere in the schema
        let pos = rng.below(cols.len() as u64 + 1) as usize;
        cols.insert(pos, (name.clone(), t));
        pby.push(name);
    }
    if rng.chance(1, 3) { pby.reverse(); }
    let nrows = match rng.below(8) { 0 => 0, 1 => 1, _ => 2 + rng.below(12) as usize };
    let pools: Vec<Vec<usize>> = cols.iter().map(|_| { let k = 1 + rng.below(3) as usize; (0..k).map(|_| rng.below(200) as usize).collect() }).collect();
    let mut rows = vec![];
    for id in 0..nrows {
        let row: Vec<Cell> = cols.iter().enumerate().map(|(ci, (n, t))| {
            if n == "id" { Cell::I(id as i64) }
            else if pby.contains(n) { gen_pcell(rng, *t, &pools[ci], nulls_in_part) }
            else { gen_cell(rng, *t, true) }
        }).collect();
        rows.push(row);
    }
    // split into batches (no empty batches)
    let mut batches = vec![];
    let mut i = 0;
    while i < rows.len() {
        let k = 1 + rng.below(5) as usize;
        let j = (i + k).min(rows.len());
        batches.push(rows[i..j].to_vec());
        i = j;
    }
    Table { cols, pby, batches }
}

fn gen_opts(rng: &mut Rng, fmt: Fmt, npart: usize) -> Opts {
    Opts {
        header: rng.chance(2, 3),
        delim: if fmt == Fmt::Csv { *rng.pick(&[b',', b',', b';', b'|', b'\t']) } else { b',' },
        quote: if fmt == Fmt::Csv && rng.chance(1, 5) { b'\'' } else { b'"' },
        gzip: fmt != Fmt::Parquet && rng.chance(1, 4),
        keep: npart > 0 && rng.chance(1, 5),
        min_par: *rng.pick(&[1usize, 1, 2, 3, 4]),
        max_rows: *rng.pick(&[1usize, 2, 3, 5, 50000000]),
        max_buf: *rng.pick(&[2usize, 2, 4, 3]),
        method: rng.below(3) as u8, // 0 COPY, 1 DataFrame::write_*, 2 INSERT INTO external table
        single: npart == 0 && rng.chance(1, 5),
    }
}

fn opts_json(o: &Opts) -> String {
    format!("{{\"header\":{},\"delim\":{},\"quote\":{},\"gzip\":{},\"keep\":{},\"min_par\":{},\"max_rows\":{},\"max_buf\":{},\"method\":\"{}\",\"single\":{}}}",
        o.header, o.delim, o.quote, o.gzip, o.keep, o.min_par, o.max_rows, o.max_buf, ["COPY", "DataFrame::write", "INSERT"][o.method as usize], o.single)
}

fn ext_of(fmt: Fmt, gzip: bool) -> String {
    let b = match fmt { Fmt::Csv => ".csv", Fmt::Json => ".json", Fmt::Parquet => ".parquet" };
    if gzip { format!("{b}.gz") } else { b.to_string() }
}

fn read_format(fmt: Fmt, o: &Opts) -> Arc<dyn FileFormat> {
    let comp = if o.gzip { FileCompressionType::GZIP } else { FileCompressionType::UNCOMPRESSED };
    match fmt {
        Fmt::Csv => Arc::new(CsvFormat::default().with_has_header(o.header).with_delimiter(o.delim).with_quote(o.quote).with_file_compression_type(comp)),
        Fmt::Json => Arc::new(JsonFormat::default().with_file_compression_type(comp)),
        Fmt::Parquet => Arc::new(ParquetFormat::default()),
    }
}

fn sql_str(s: &str) -> String { format!("'{}'", s.replace('\'', "''")) }
fn qid(s: &str) -> String { format!("\"{}\"", s.replace('"', "\"\"")) }

fn write_ctx(o: &Opts) -> SessionContext {
    let mut cfg = SessionConfig::new().with_target_partitions(1).with_batch_size(8192);
    cfg.options_mut().set("datafusion.execution.minimum_parallel_output_files", &o.min_par.to_string()).unwrap();
    cfg.options_mut().set("datafusion.execution.soft_max_rows_per_output_file", &o.max_rows.to_string()).unwrap();
    cfg.options_mut().set("datafusion.execution.max_buffered_batches_per_output_file", &o.max_buf.to_string()).unwrap();
    SessionContext::new_with_config(cfg)
}

fn format_options_sql(fmt: Fmt, o: &Opts) -> Vec<(String, String)> {
    let mut v = vec![];
    if fmt == Fmt::Csv {
        v.push(("format.has_header".to_string(), o.header.to_string()));
        v.push(("format.delimiter".to_string(), (o.delim as char).to_string()));
        v.push(("format.quote".to_string(), (o.quote as char).to_string()));
    }
    if o.gzip { v.push(("format.compression".to_string(), "gzip".to_string())); }
    v
}

async fn do_write(t: &Table, fmt: Fmt, o: &Opts, dir: &str) -> Result<SessionContext, String> {
    let ctx = write_ctx(o);
    let schema = table_schema(&t.cols);
    let batches: Vec<RecordBatch> = t.batches.iter().map(|b| make_batch(&schema, &t.cols, b)).collect();
    let mem = MemTable::try_new(schema.clone(), vec![batches]).map_err(|e| e.to_string())?;
    ctx.register_table("src", Arc::new(mem)).map_err(|e| e.to_string())?;
    let target = if o.single { format!("{dir}/out{}", ext_of(fmt, o.gzip)) } else { format!("{dir}/") };
    let collist = t.cols.iter().map(|(n, _)| qid(n)).collect::<Vec<_>>().join(", ");
    match o.method {
        0 => {
            let mut opts = format_options_sql(fmt, o);
            if o.keep { opts.push(("execution.keep_partition_by_columns".to_string(), "true".to_string())); }
            let optsql = if opts.is_empty() { String::new() } else { format!(" OPTIONS ({})", opts.iter().map(|(k, v)| format!("{} {}", sql_str(k), sql_str(v))).collect::<Vec<_>>().join(", ")) };
            let part = if t.pby.is_empty() { String::new() } else { format!(" PARTITIONED BY ({})", t.pby.join(", ")) };
            let sql = format!("COPY (SELECT {collist} FROM src) TO {} STORED AS {}{part}{optsql}", sql_str(&target), fmt_name(fmt).to_uppercase());
            ctx.sql(&sql).await.map_err(|e| format!("{sql}: {e}"))?.collect().await.map_err(|e| format!("{sql}: {e}"))?;
        }
        1 => {
            let df = ctx.table("src").await.map_err(|e| e.to_string())?;
            let wo = DataFrameWriteOptions::new().with_partition_by(t.pby.clone()).with_single_file_output(o.single);
            // keep_partition_by_columns is a session option for the DataFrame writers
            if o.keep { return Err("skip".into()); }
            match fmt {
                Fmt::Csv => {
                    let mut co = datafusion::config::CsvOptions::default().with_has_header(o.header).with_delimiter(o.delim).with_quote(o.quote);
                    if o.gzip { co = co.with_compression(datafusion::common::parsers::CompressionTypeVariant::GZIP); }
                    df.write_csv(&target, wo, Some(co)).await.map_err(|e| e.to_string())?;
                }
                Fmt::Json => {
                    let mut jo = datafusion::config::JsonOptions::default();
                    if o.gzip { jo.compression = datafusion::common::parsers::CompressionTypeVariant::GZIP; }
                    df.write_json(&target, wo, Some(jo)).await.map_err(|e| e.to_string())?;
                }
                Fmt::Parquet => { df.write_parquet(&target, wo, None).await.map_err(|e| e.to_string())?; }
            }
        }
        _ => {
            if o.keep || o.single { return Err("skip".into()); }
            // external table: data columns in source order, partition columns last (in PARTITIONED BY order)
            let data: Vec<&(String, Ty)> = t.cols.iter().filter(|(n, _)| !t.pby.contains(n)).collect();
            let mut defs: Vec<String> = data.iter().map(|(n, ty)| format!("{} {}{}", qid(n), ty_sql(*ty), if n == "id" { " NOT NULL" } else { "" })).collect();
            for p in &t.pby { let ty = t.cols.iter().find(|(n, _)| n == p).unwrap().1; defs.push(format!("{} {}", qid(p), ty_sql(ty))); }
            let opts = format_options_sql(fmt, o);
            let optsql = if opts.is_empty() { String::new() } else { format!(" OPTIONS ({})", opts.iter().map(|(k, v)| format!("{} {}", sql_str(k), sql_str(v))).collect::<Vec<_>>().join(", ")) };
            let part = if t.pby.is_empty() { String::new() } else { format!(" PARTITIONED BY ({})", t.pby.join(", ")) };
            let ddl = format!("CREATE EXTERNAL TABLE ext ({}) STORED AS {}{part} LOCATION {}{optsql}", defs.join(", "), fmt_name(fmt).to_uppercase(), sql_str(&target));
            ctx.sql(&ddl).await.map_err(|e| format!("{ddl}: {e}"))?.collect().await.map_err(|e| format!("{ddl}: {e}"))?;
            let mut sel: Vec<String> = data.iter().map(|(n, _)| qid(n)).collect();
            for p in &t.pby { sel.push(qid(p)); }
            let ins = format!("INSERT INTO ext SELECT {} FROM src", sel.join(", "));
            ctx.sql(&ins).await.map_err(|e| format!("{ins}: {e}"))?.collect().await.map_err(|e| format!("{ins}: {e}"))?;
        }
    }
    Ok(ctx)
}

fn walk(dir: &FsPath, rel: &mut Vec<String>, out: &mut Vec<Vec<String>>) {
    let mut ents: Vec<_> = std::fs::read_dir(dir).map(|r| r.filter_map(|e| e.ok()).collect()).unwrap_or_default();
    ents.sort_by_key(|e: &std::fs::DirEntry| e.file_name());
    for e in ents {
        let name = e.file_name().to_string_lossy().to_string();
        rel.push(name);
        if e.path().is_dir() { walk(&e.path(), rel, out); } else { out.push(rel.clone()); }
        rel.pop();
    }
}

fn cell_of(col: &ArrayRef, t: Ty, r: usize) -> Cell {
    use arrow::array::Array;
    if col.is_null(r) { return Cell::N; }
    match t {
        Ty::I => Cell::I(col.as_any().downcast_ref::<Int64Array>().unwrap().value(r)),
        Ty::S => Cell::S(col.as_any().downcast_ref::<StringArray>().unwrap().value(r).to_string()),
        Ty::B => Cell::B(col.as_any().downcast_ref::<BooleanArray>().unwrap().value(r)),
        Ty::D => Cell::D(col.as_any().downcast_ref::<Date32Array>().unwrap().value(r)),
        Ty::F => Cell::F(col.as_any().downcast_ref::<Float64Array>().unwrap().value(r)),
    }
}

/// read a location through a ListingTable with the given file schema and partition columns
async fn read_back(url: &str, fmt: Fmt, o: &Opts, file_cols: &[(String, Ty)], pcols: &[(String, Ty)], select: &[(String, Ty)], any_ext: bool) -> Result<Vec<Vec<Cell>>, String> {
    let mut cfg = SessionConfig::new().with_target_partitions(1);
    cfg.options_mut().execution.listing_table_ignore_subdirectory = false;
    let ctx = SessionContext::new_with_config(cfg);
    let ext = if any_ext { String::new() } else { ext_of(fmt, o.gzip) };
    let lopts = ListingOptions::new(read_format(fmt, o)).with_file_extension(ext)
        .with_table_partition_cols(pcols.iter().map(|(n, t)| (n.clone(), ty_dt(*t))).collect());
    let cfg = ListingTableConfig::new(ListingTableUrl::parse(url).map_err(|e| e.to_string())?).with_listing_options(lopts).with_schema(table_schema(file_cols));
    let table = ListingTable::try_new(cfg).map_err(|e| e.to_string())?;
    ctx.register_table("rb", Arc::new(table)).map_err(|e| e.to_string())?;
    query_rows(&ctx, "rb", select).await
}

async fn query_rows(ctx: &SessionContext, table: &str, select: &[(String, Ty)]) -> Result<Vec<Vec<Cell>>, String> {
    let sql = format!("SELECT {} FROM {table}", select.iter().map(|(n, t)| format!("CAST({} AS {}) AS {}", qid(n), ty_sql(*t), qid(n))).collect::<Vec<_>>().join(", "));
    let bs = ctx.sql(&sql).await.map_err(|e| e.to_string())?.collect().await.map_err(|e| e.to_string())?;
    let mut rows = vec![];
    for b in bs {
        let cols: Vec<ArrayRef> = select.iter().enumerate().map(|(ci, (_, t))| arrow::compute::cast(b.column(ci), &ty_dt(*t)).map_err(|e| e.to_string())).collect::<Result<_, _>>()?;
        for r in 0..b.num_rows() { rows.push(select.iter().enumerate().map(|(ci, (_, t))| cell_of(&cols[ci], *t, r)).collect()); }
    }
    Ok(rows)
}

fn rows_json(rows: &[Vec<Cell>]) -> String {
    format!("[{}]", rows.iter().map(|r| format!("[{}]", r.iter().map(cell_json).collect::<Vec<_>>().join(","))).collect::<Vec<_>>().join(","))
}

struct Outcome { line: String }

async fn run_case(h: usize, tag: &str, t: &Table, fmt: Fmt, o: &Opts, base: &FsPath, nullpart: bool, weird_name: bool) -> Option<Outcome> {
    let dir: PathBuf = base.join(format!("case{h}"));
    let _ = std::fs::remove_dir_all(&dir);
    std::fs::create_dir_all(&dir).unwrap();
    let dirs = dir.to_string_lossy().to_string();
    let kind = if !t.pby.is_empty() { "hive" } else if o.single { "single" } else { "flat" };
    let head = format!("\"k\":\"{kind}\",\"h\":{h},\"tag\":\"{tag}\",\"fmt\":\"{}\",\"opts\":{},\"cols\":[{}],\"pby\":[{}],\"batches\":[{}],\"nullpart\":{nullpart},\"weird_name\":{weird_name}",
        fmt_name(fmt), opts_json(o),
        t.cols.iter().map(|(n, ty)| format!("[{},\"{}\"]", json_str(n), ty_name(*ty))).collect::<Vec<_>>().join(","),
        t.pby.iter().map(|p| json_str(p)).collect::<Vec<_>>().join(","),
        t.batches.iter().map(|b| rows_json(b)).collect::<Vec<_>>().join(","));
    let wctx = match do_write(t, fmt, o, &dirs).await {
        Err(e) if e == "skip" => { let _ = std::fs::remove_dir_all(&dir); return None; }
        Err(e) => {
            let _ = std::fs::remove_dir_all(&dir);
            return Some(Outcome { line: format!("{{{head},\"write_error\":{},\"ok\":false,\"why\":{}}}", json_str(&e), json_str(&format!("write failed: {e}"))) });
        }
        Ok(c) => c,
    };
    // ---- layout
    let mut files = vec![];
    walk(&dir, &mut vec![], &mut files);
    let ext = ext_of(fmt, o.gzip);
    let mut why = String::new();
    let nrows: usize = t.batches.iter().map(|b| b.len()).sum();
    for f in &files {
        if !f.last().unwrap().ends_with(&ext) && !(o.method == 2 && f.last().unwrap().ends_with(&ext_of(fmt, false))) { why.push_str(&format!("stray file {:?}; ", f)); }
        if f.len() != t.pby.len() + 1 { why.push_str(&format!("file {:?} at depth {} (expected {}); ", f, f.len() - 1, t.pby.len())); }
    }
    if o.single && files.len() != 1 { why.push_str(&format!("single-file output wrote {} files; ", files.len())); }
    // ---- per-file contents (ids in file order)
    let data_cols: Vec<(String, Ty)> = t.cols.iter().filter(|(n, _)| !t.pby.contains(n)).cloned().collect();
    let file_cols: Vec<(String, Ty)> = if o.keep { t.cols.clone() } else { data_cols.clone() };
    let idsel = vec![("id".to_string(), Ty::I)];
    let mut files_js = vec![];
    let mut seen_ids: Vec<i64> = vec![];
    let mut file_ids: Vec<Vec<i64>> = vec![];
    for f in &files {
        let url = format!("{}/{}", dirs, f.join("/"));
        // the local object store keeps percent-encoded names on disk; ListingTableUrl::parse of a file-system
        // path encodes again, which is exactly what addresses that file
        match read_back(&url, fmt, o, &file_cols, &[], &idsel, true).await {
            Ok(rows) => {
                let ids: Vec<i64> = rows.iter().map(|r| if let Cell::I(v) = r[0] { v } else { -1 }).collect();
                seen_ids.extend(ids.iter());
                file_ids.push(ids.clone());
                files_js.push(format!("{{\"path\":[{}],\"ids\":[{}]}}", f.iter().map(|s| json_str(s)).collect::<Vec<_>>().join(","), ids.iter().map(|i| i.to_string()).collect::<Vec<_>>().join(",")));
            }
            Err(e) => { why.push_str(&format!("reading file {:?} alone failed: {e}; ", f)); }
        }
    }
    // every row in exactly one file
    let mut s = seen_ids.clone(); s.sort();
    if s != (0..nrows as i64).collect::<Vec<_>>() { why.push_str(&format!("the files hold row ids {:?}, written {} rows; ", s, nrows)); }
    // ---- read back the whole table
    let pcols: Vec<(String, Ty)> = if o.keep { vec![] } else { t.pby.iter().map(|p| t.cols.iter().find(|(n, _)| n == p).unwrap().clone()).collect() };
    let url = if o.single { format!("{}/{}", dirs, files.first().map(|f| f.join("/")).unwrap_or_default()) } else { format!("{dirs}/") };
    let expect_rows: Vec<Vec<Cell>> = t.batches.iter().flatten().cloned().collect();
    let mut expect: Vec<String> = expect_rows.iter().map(|r| r.iter().map(|c| norm(fmt, c)).collect::<Vec<_>>().join("|")).collect();
    expect.sort();
    // input class of listed finding KF-C25-3: a Parquet file in which a Float64 column holds NaN, exactly one
    // distinct non-NaN value and no NULL (min == max in the file statistics although the column is not constant)
    let mut nan_const = false;
    if fmt == Fmt::Parquet {
        for ids in &file_ids {
            for (ci, (n, ty)) in t.cols.iter().enumerate() {
                if *ty != Ty::F || (!o.keep && t.pby.contains(n)) { continue; }
                let vals: Vec<&Cell> = ids.iter().filter_map(|i| expect_rows.get(*i as usize)).map(|r| &r[ci]).collect();
                let has_null = vals.iter().any(|c| matches!(c, Cell::N));
                let has_nan = vals.iter().any(|c| matches!(c, Cell::F(f) if f.is_nan()));
                let mut distinct: Vec<u64> = vals.iter().filter_map(|c| if let Cell::F(f) = c { if f.is_nan() { None } else { Some(f.to_bits()) } } else { None }).collect();
                distinct.sort(); distinct.dedup();
                if !has_null && has_nan && distinct.len() == 1 { nan_const = true; }
            }
        }
    }
    let mut got_js = "null".to_string();
    let mut readback_ok = false;
    if files.is_empty() && nrows == 0 {
        readback_ok = true; // nothing written, nothing to read (documented: 0 files for an empty stream)
    } else {
        let rb = if o.method == 2 { query_rows(&wctx, "ext", &t.cols).await } else { read_back(&url, fmt, o, &file_cols, &pcols, &t.cols, false).await };
        match rb {
            Ok(rows) => {
                let mut got: Vec<String> = rows.iter().map(|r| r.iter().map(|c| norm(fmt, c)).collect::<Vec<_>>().join("|")).collect();
                got.sort();
                got_js = rows_json(&rows);
                if got == expect { readback_ok = true; } else {
                    let miss: Vec<&String> = expect.iter().filter(|e| !got.contains(e)).take(3).collect();
                    let extra: Vec<&String> = got.iter().filter(|e| !expect.contains(e)).take(3).collect();
                    why.push_str(&format!("read-back bag differs: {} rows read, {} written; written-but-not-read {:?}; read-but-not-written {:?}; ", got.len(), expect.len(), miss, extra));
                }
            }
            Err(e) => { why.push_str(&format!("read-back failed: {e}; ")); }
        }
    }
    let ok = why.is_empty() && readback_ok;
    let _ = std::fs::remove_dir_all(&dir);
    Some(Outcome { line: format!("{{{head},\"nan_const\":{nan_const},\"files\":[{}],\"readback\":{},\"ok\":{ok},\"why\":{}}}", files_js.join(","), if ok { "null".to_string() } else { got_js }, json_str(&why)) })
}

/// text of a cell as the CSV writer prints it (only the types whose text the harness can state independently)
fn csv_text(c: &Cell) -> Option<String> {
    match c {
        Cell::N => Some(String::new()),
        Cell::I(v) => Some(v.to_string()),
        Cell::S(s) => Some(s.clone()),
        Cell::B(b) => Some(b.to_string()),
        _ => None,
    }
}

async fn csv_bytes_case(h: usize, rng: &mut Rng, base: &FsPath) -> Option<String> {
    // one uncompressed single-file CSV with the double quote as quote character: bytes vs field texts
    let ncol = 1 + rng.below(3) as usize;
    let cols: Vec<(String, Ty)> = (0..ncol).map(|i| (format!("c{i}"), *rng.pick(&[Ty::S, Ty::S, Ty::I, Ty::B]))).collect();
    let nrows = rng.below(6) as usize;
    let rows: Vec<Vec<Cell>> = (0..nrows).map(|_| cols.iter().map(|(_, t)| gen_cell(rng, *t, true)).collect()).collect();
    let delim = *rng.pick(&[b',', b';', b'|', b'\t']);
    let header = rng.chance(1, 2);
    let dir = base.join(format!("csvb{h}"));
    let _ = std::fs::remove_dir_all(&dir);
    std::fs::create_dir_all(&dir).unwrap();
    let target = format!("{}/out.csv", dir.to_string_lossy());
    let ctx = SessionContext::new_with_config(SessionConfig::new().with_target_partitions(1));
    let schema = Arc::new(Schema::new(cols.iter().map(|(n, t)| Field::new(n, ty_dt(*t), true)).collect::<Vec<_>>()));
    let batch = make_batch(&schema, &cols, &rows);
    let mem = MemTable::try_new(schema.clone(), vec![vec![batch]]).ok()?;
    ctx.register_table("src", Arc::new(mem)).ok()?;
    let sql = format!("COPY (SELECT * FROM src) TO {} STORED AS CSV OPTIONS ('format.has_header' '{header}', 'format.delimiter' {})", sql_str(&target), sql_str(&(delim as char).to_string()));
    let res = async { ctx.sql(&sql).await?.collect().await }.await;
    let out = match res {
        Err(e) => Some(format!("{{\"k\":\"csvbytes\",\"h\":{h},\"ok\":false,\"why\":{}}}", json_str(&format!("{sql}: {e}")))),
        Ok(_) => {
            let bytes = std::fs::read(&target).unwrap_or_default();
            let texts: Vec<Vec<String>> = rows.iter().map(|r| r.iter().map(|c| csv_text(c).unwrap()).collect()).collect();
            Some(format!("{{\"k\":\"csvbytes\",\"h\":{h},\"delim\":{delim},\"header\":{},\"rows\":[{}],\"bytes\":[{}],\"ok\":true}}",
                if header { format!("[{}]", cols.iter().map(|(n, _)| json_str(n)).collect::<Vec<_>>().join(",")) } else { "null".to_string() },
                texts.iter().map(|r| format!("[{}]", r.iter().map(|s| json_str(s)).collect::<Vec<_>>().join(","))).collect::<Vec<_>>().join(","),
                bytes.iter().map(|b| b.to_string()).collect::<Vec<_>>().join(",")))
        }
    };
    let _ = std::fs::remove_dir_all(&dir);
    out
}

fn fixed_tables() -> Vec<(&'static str, Table, Fmt, bool, bool)> {
    let s = |x: &str| Cell::S(x.to_string());
    let mut v = vec![];
    // W1: NULL in a Utf8 partition column next to the empty string
    v.push(("W1-null-utf8-partition", Table { cols: vec![("id".into(), Ty::I), ("p0".into(), Ty::S)], pby: vec!["p0".into()],
        batches: vec![vec![vec![Cell::I(0), Cell::N], vec![Cell::I(1), s("")], vec![Cell::I(2), s("a")]]] }, Fmt::Parquet, true, false));
    // W2: NULL in an Int64 partition column next to 0
    v.push(("W2-null-int-partition", Table { cols: vec![("id".into(), Ty::I), ("p0".into(), Ty::I)], pby: vec!["p0".into()],
        batches: vec![vec![vec![Cell::I(0), Cell::N], vec![Cell::I(1), Cell::I(0)], vec![Cell::I(2), Cell::I(5)]]] }, Fmt::Parquet, true, false));
    // W3: partition column whose NAME needs encoding
    v.push(("W3-partition-column-name-needs-encoding", Table { cols: vec![("id".into(), Ty::I), ("p\u{e9}".into(), Ty::S)], pby: vec!["p\u{e9}".into()],
        batches: vec![vec![vec![Cell::I(0), s("a")], vec![Cell::I(1), s("b")]]] }, Fmt::Parquet, false, true));
    // W4: empty-string partition value alone
    v.push(("W4-empty-string-partition", Table { cols: vec![("id".into(), Ty::I), ("p0".into(), Ty::S)], pby: vec!["p0".into()],
        batches: vec![vec![vec![Cell::I(0), s("")], vec![Cell::I(1), s("a")]]] }, Fmt::Parquet, false, false));
    // W5: hostile partition values, clean otherwise
    v.push(("W5-hostile-values", Table { cols: vec![("p1".into(), Ty::S), ("id".into(), Ty::I), ("p0".into(), Ty::S)], pby: vec!["p0".into(), "p1".into()],
        batches: vec![vec![vec![s("a/b"), Cell::I(0), s("100%")], vec![s("a=b"), Cell::I(1), s("%2F")], vec![s(".."), Cell::I(2), s("\u{65e5}\u{672c}")]],
                      vec![vec![s("a/b"), Cell::I(3), s("100%")], vec![s(" x "), Cell::I(4), s("A")], vec![s(" x "), Cell::I(5), s("a")]]] }, Fmt::Csv, false, false));
    // W6: a Parquet file whose Float64 column holds one non-NaN value and a NaN
    v.push(("W6-parquet-nan-constant-column", Table { cols: vec![("id".into(), Ty::I), ("d0".into(), Ty::F)], pby: vec![],
        batches: vec![vec![vec![Cell::I(0), Cell::F(1.5)], vec![Cell::I(1), Cell::F(f64::NAN)]]] }, Fmt::Parquet, false, false));
    v
}

fn main() {
    if std::env::var("C25_PANIC").is_err() { std::panic::set_hook(Box::new(|_| {})); }
    let args: Vec<String> = std::env::args().collect();
    let seed: u64 = arg(&args, "--seed", "1").parse().unwrap();
    let n: usize = arg(&args, "--n", "100").parse().unwrap();
    let only: String = arg(&args, "--only", "");
    let mut rng = Rng::new(seed);
    let rt = tokio::runtime::Builder::new_multi_thread().worker_threads(2).enable_all().build().unwrap();
    let base = std::env::temp_dir().join(format!("c25_{}_{}", std::process::id(), seed));
    let _ = std::fs::remove_dir_all(&base);
    std::fs::create_dir_all(&base).unwrap();
    let default_opts = |method: u8| Opts { header: true, delim: b',', quote: b'"', gzip: false, keep: false, min_par: 1, max_rows: 50000000, max_buf: 2, method, single: false };

    let mut h = 0usize;
    // ---- fixed witnesses first (every run)
    for (tag, t, fmt, nullpart, weird) in fixed_tables() {
        for method in [0u8, 1u8] {
            let o = default_opts(method);
            match std::panic::catch_unwind(std::panic::AssertUnwindSafe(|| rt.block_on(run_case(h, tag, &t, fmt, &o, &base, nullpart, weird)))) {
                Ok(Some(out)) => println!("{}", out.line),
                Ok(None) => {}
                Err(_) => println!("{{\"k\":\"panic\",\"h\":{h},\"tag\":\"{tag}\",\"nullpart\":{nullpart},\"weird_name\":{weird},\"ok\":false,\"why\":\"panic in case\"}}"),
            }
            h += 1;
        }
    }
    // ---- generated cases
    for i in 0..n {
        if !only.is_empty() && only != "gen" { break; }
        let fmt = *rng.pick(&[Fmt::Csv, Fmt::Csv, Fmt::Json, Fmt::Parquet]);
        let npart = *rng.pick(&[0usize, 0, 1, 1, 1, 2, 2, 3]);
        // a tenth of the partitioned cases carry NULLs in partition columns (listed finding), a 25th a column name that needs encoding
        let nullpart = npart > 0 && i % 10 == 9;
        let weird = npart > 0 && i % 25 == 7;
        let t = gen_table(&mut rng, npart, nullpart, weird);
        let o = gen_opts(&mut rng, fmt, npart);
        let has_null = nullpart && t.batches.iter().flatten().any(|r| t.cols.iter().enumerate().any(|(ci, (nm, _))| t.pby.contains(nm) && r[ci] == Cell::N));
        let r = std::panic::catch_unwind(std::panic::AssertUnwindSafe(|| rt.block_on(run_case(h, "gen", &t, fmt, &o, &base, has_null, weird))));
        match r {
            Ok(Some(out)) => println!("{}", out.line),
            Ok(None) => {}
            Err(_) => println!("{{\"k\":\"panic\",\"h\":{h},\"ok\":false,\"why\":\"panic in case\"}}"),
        }
        h += 1;
    }
    // ---- CSV bytes
    for i in 0..n / 2 {
        if !only.is_empty() && only != "csv" { break; }
        if let Some(l) = rt.block_on(csv_bytes_case(i, &mut rng, &base)) { println!("{l}"); }
    }
    let _ = std::fs::remove_dir_all(&base);
}
