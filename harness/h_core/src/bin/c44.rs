//! C44: files whose physical schema differs from the table schema are read faithfully.
//! Kinds of lines:
//!  "castable": arrow can_cast_types on the modelled type lattice                      (model-compared)
//!  "flat":     table schema / file schema / file rows / expression over the table schema:
//!              real DefaultPhysicalExprAdapter rewrite evaluated on the file batch ("push"),
//!              real BatchAdapter::adapt_batch ("adapt"), original expression on the adapted batch ("post"),
//!              all compared with an independent by-name reference adaptation written here
//!              (oracle) and, for schema pairs inside the modelled lattice, with the Coq model
//!  "struct":   struct columns with missing / extra / reordered / widened fields (oracle only)
//!  "e2e":      two parquet files of different schemas in one listing table, pushdown_filters on/off (oracle only)
use std::panic::{catch_unwind, AssertUnwindSafe};
use std::sync::Arc;

use arrow::array::{
    new_null_array, Array, ArrayRef, BooleanArray, Int32Array, Int64Array, LargeStringArray, RecordBatch, RecordBatchOptions,
    StringArray, StringViewArray, StructArray,
};
use arrow::compute::{can_cast_types, cast_with_options, CastOptions};
use arrow::datatypes::{DataType, Field, Fields, Schema, SchemaRef};
use datafusion_common::ScalarValue;
use datafusion_expr::Operator;
use datafusion_physical_expr::expressions::{BinaryExpr, CastExpr, Column, IsNotNullExpr, IsNullExpr, Literal, NotExpr};
use datafusion_physical_expr::projection::ProjectionExprs;
use datafusion_physical_expr::{PhysicalExpr, PhysicalExprSimplifier};
use datafusion_physical_expr_adapter::{BatchAdapterFactory, DefaultPhysicalExprAdapterFactory, PhysicalExprAdapterFactory};
use datafusion::datasource::file_format::parquet::ParquetFormat;
use datafusion::datasource::listing::{ListingOptions, ListingTable, ListingTableConfig, ListingTableUrl};
use datafusion::prelude::{SessionConfig, SessionContext};
use h_util::{arg, json_str, Rng};

// ---------------------------------------------------------------- types and values
#[derive(Clone, Copy, Debug, PartialEq, Eq)]
enum T { I32, I64, U8, LU8, Bool, U8V }

impl T {
    fn dt(self) -> DataType {
        match self {
            T::I32 => DataType::Int32, T::I64 => DataType::Int64, T::U8 => DataType::Utf8,
            T::LU8 => DataType::LargeUtf8, T::Bool => DataType::Boolean, T::U8V => DataType::Utf8View,
        }
    }
    fn name(self) -> &'static str {
        match self { T::I32 => "Int32", T::I64 => "Int64", T::U8 => "Utf8", T::LU8 => "LargeUtf8", T::Bool => "Boolean", T::U8V => "Utf8View" }
    }
    fn group(self) -> u8 { match self { T::I32 | T::I64 => 0, T::U8 | T::LU8 | T::U8V => 1, T::Bool => 2 } }
    fn modelled(self) -> bool { self != T::U8V }
}
const MODEL_TYPES: [T; 5] = [T::I32, T::I64, T::U8, T::LU8, T::Bool];

fn dt_name(dt: &DataType) -> String {
    match dt {
        DataType::Int32 => "Int32".into(), DataType::Int64 => "Int64".into(), DataType::Utf8 => "Utf8".into(),
        DataType::LargeUtf8 => "LargeUtf8".into(), DataType::Boolean => "Boolean".into(), DataType::Utf8View => "Utf8View".into(),
        o => format!("{o}"),
    }
}

#[derive(Clone, Debug, PartialEq)]
enum V { Null, I(i64), S(String), B(bool) }

fn v_json(v: &V) -> String {
    match v { V::Null => "null".into(), V::I(i) => i.to_string(), V::S(s) => json_str(s), V::B(b) => b.to_string() }
}
fn vals_json(vs: &[V]) -> String { format!("[{}]", vs.iter().map(v_json).collect::<Vec<_>>().join(",")) }

fn build_array(t: T, vals: &[V]) -> ArrayRef {
    match t {
        T::I32 => Arc::new(Int32Array::from(vals.iter().map(|v| if let V::I(i) = v { Some(*i as i32) } else { None }).collect::<Vec<_>>())),
        T::I64 => Arc::new(Int64Array::from(vals.iter().map(|v| if let V::I(i) = v { Some(*i) } else { None }).collect::<Vec<_>>())),
        T::U8 => Arc::new(StringArray::from(vals.iter().map(|v| if let V::S(s) = v { Some(s.clone()) } else { None }).collect::<Vec<_>>())),
        T::LU8 => Arc::new(LargeStringArray::from(vals.iter().map(|v| if let V::S(s) = v { Some(s.clone()) } else { None }).collect::<Vec<_>>())),
        T::U8V => Arc::new(StringViewArray::from(vals.iter().map(|v| if let V::S(s) = v { Some(s.clone()) } else { None }).collect::<Vec<_>>())),
        T::Bool => Arc::new(BooleanArray::from(vals.iter().map(|v| if let V::B(b) = v { Some(*b) } else { None }).collect::<Vec<_>>())),
    }
}

fn array_vals(a: &ArrayRef) -> Result<Vec<V>, String> {
    let n = a.len();
    let mut out = Vec::with_capacity(n);
    macro_rules! go { ($ty:ty, $f:expr) => {{
        let x = a.as_any().downcast_ref::<$ty>().ok_or("downcast")?;
        for i in 0..n { out.push(if x.is_null(i) { V::Null } else { $f(x, i) }); }
    }}; }
    match a.data_type() {
        DataType::Int32 => go!(Int32Array, |x: &Int32Array, i| V::I(x.value(i) as i64)),
        DataType::Int64 => go!(Int64Array, |x: &Int64Array, i| V::I(x.value(i))),
        DataType::Utf8 => go!(StringArray, |x: &StringArray, i| V::S(x.value(i).to_string())),
        DataType::LargeUtf8 => go!(LargeStringArray, |x: &LargeStringArray, i| V::S(x.value(i).to_string())),
        DataType::Utf8View => go!(StringViewArray, |x: &StringViewArray, i| V::S(x.value(i).to_string())),
        DataType::Boolean => go!(BooleanArray, |x: &BooleanArray, i| V::B(x.value(i))),
        DataType::Null => for _ in 0..n { out.push(V::Null) },
        DataType::Struct(fs) => {
            let x = a.as_any().downcast_ref::<StructArray>().ok_or("downcast")?;
            let kids: Vec<Vec<V>> = x.columns().iter().map(array_vals).collect::<Result<_, _>>()?;
            for i in 0..n {
                out.push(if x.is_null(i) { V::Null } else {
                    V::S(format!("{{{}}}", fs.iter().enumerate().map(|(c, f)| format!("{}:{}", f.name(), v_json(&kids[c][i]))).collect::<Vec<_>>().join(",")))
                });
            }
        }
        o => return Err(format!("unsupported result type {o}")),
    }
    Ok(out)
}

// ---------------------------------------------------------------- schemas
#[derive(Clone, Debug)]
struct F { name: String, t: T, nullable: bool }

fn schema_of(fs: &[F]) -> SchemaRef {
    Arc::new(Schema::new(fs.iter().map(|f| Field::new(&f.name, f.t.dt(), f.nullable)).collect::<Vec<_>>()))
}
fn schema_json(fs: &[F]) -> String {
    format!("[{}]", fs.iter().map(|f| format!("[{},\"{}\",{}]", json_str(&f.name), f.t.name(), f.nullable)).collect::<Vec<_>>().join(","))
}

// ---------------------------------------------------------------- expressions
#[derive(Clone, Debug)]
enum E {
    Col(String, usize),
    Lit(T, V),
    Cmp(Operator, Box<E>, Box<E>),
    And(Box<E>, Box<E>),
    Or(Box<E>, Box<E>),
    Not(Box<E>),
    IsNull(Box<E>),
    IsNotNull(Box<E>),
}

fn scalar_of(t: T, v: &V) -> ScalarValue {
    match (t, v) {
        (T::I32, V::I(i)) => ScalarValue::Int32(Some(*i as i32)), (T::I32, _) => ScalarValue::Int32(None),
        (T::I64, V::I(i)) => ScalarValue::Int64(Some(*i)), (T::I64, _) => ScalarValue::Int64(None),
        (T::U8, V::S(s)) => ScalarValue::Utf8(Some(s.clone())), (T::U8, _) => ScalarValue::Utf8(None),
        (T::LU8, V::S(s)) => ScalarValue::LargeUtf8(Some(s.clone())), (T::LU8, _) => ScalarValue::LargeUtf8(None),
        (T::U8V, V::S(s)) => ScalarValue::Utf8View(Some(s.clone())), (T::U8V, _) => ScalarValue::Utf8View(None),
        (T::Bool, V::B(b)) => ScalarValue::Boolean(Some(*b)), (T::Bool, _) => ScalarValue::Boolean(None),
    }
}

fn to_phys(e: &E) -> Arc<dyn PhysicalExpr> {
    match e {
        E::Col(n, i) => Arc::new(Column::new(n, *i)),
        E::Lit(t, v) => Arc::new(Literal::new(scalar_of(*t, v))),
        E::Cmp(op, a, b) => Arc::new(BinaryExpr::new(to_phys(a), *op, to_phys(b))),
        E::And(a, b) => Arc::new(BinaryExpr::new(to_phys(a), Operator::And, to_phys(b))),
        E::Or(a, b) => Arc::new(BinaryExpr::new(to_phys(a), Operator::Or, to_phys(b))),
        E::Not(a) => Arc::new(NotExpr::new(to_phys(a))),
        E::IsNull(a) => Arc::new(IsNullExpr::new(to_phys(a))),
        E::IsNotNull(a) => Arc::new(IsNotNullExpr::new(to_phys(a))),
    }
}

fn op_name(op: &Operator) -> Option<&'static str> {
    Some(match op { Operator::Eq => "eq", Operator::NotEq => "ne", Operator::Lt => "lt", Operator::LtEq => "le", Operator::Gt => "gt", Operator::GtEq => "ge", _ => return None })
}

fn e_json(e: &E) -> String {
    match e {
        E::Col(n, i) => format!("{{\"col\":[{},{}]}}", json_str(n), i),
        E::Lit(t, v) => format!("{{\"lit\":[\"{}\",{}]}}", t.name(), v_json(v)),
        E::Cmp(op, a, b) => format!("{{\"cmp\":[\"{}\",{},{}]}}", op_name(op).unwrap(), e_json(a), e_json(b)),
        E::And(a, b) => format!("{{\"and\":[{},{}]}}", e_json(a), e_json(b)),
        E::Or(a, b) => format!("{{\"or\":[{},{}]}}", e_json(a), e_json(b)),
        E::Not(a) => format!("{{\"not\":{}}}", e_json(a)),
        E::IsNull(a) => format!("{{\"isnull\":{}}}", e_json(a)),
        E::IsNotNull(a) => format!("{{\"isnotnull\":{}}}", e_json(a)),
    }
}

fn scalar_json(s: &ScalarValue) -> String {
    let t = dt_name(&s.data_type());
    let v = match s {
        ScalarValue::Int32(Some(i)) => i.to_string(), ScalarValue::Int64(Some(i)) => i.to_string(),
        ScalarValue::Utf8(Some(x)) | ScalarValue::LargeUtf8(Some(x)) | ScalarValue::Utf8View(Some(x)) => json_str(x),
        ScalarValue::Boolean(Some(b)) => b.to_string(),
        x if x.is_null() => "null".into(),
        x => json_str(&format!("{x:?}")),
    };
    format!("{{\"lit\":[{},{}]}}", json_str(&t), v)
}

/// the observed (rewritten) physical expression as a JSON tree
fn phys_json(e: &Arc<dyn PhysicalExpr>) -> String {
    if let Some(c) = e.downcast_ref::<Column>() { return format!("{{\"col\":[{},{}]}}", json_str(c.name()), c.index()); }
    if let Some(l) = e.downcast_ref::<Literal>() { return scalar_json(l.value()); }
    if let Some(c) = e.downcast_ref::<CastExpr>() { return format!("{{\"cast\":[{},{}]}}", phys_json(c.expr()), json_str(&dt_name(c.cast_type()))); }
    if let Some(b) = e.downcast_ref::<BinaryExpr>() {
        let (l, r) = (phys_json(b.left()), phys_json(b.right()));
        return match b.op() {
            Operator::And => format!("{{\"and\":[{l},{r}]}}"),
            Operator::Or => format!("{{\"or\":[{l},{r}]}}"),
            op => match op_name(op) { Some(n) => format!("{{\"cmp\":[\"{n}\",{l},{r}]}}"), None => format!("{{\"other\":{}}}", json_str(&format!("{e}"))) },
        };
    }
    if let Some(n) = e.downcast_ref::<NotExpr>() { return format!("{{\"not\":{}}}", phys_json(n.arg())); }
    if let Some(n) = e.downcast_ref::<IsNullExpr>() { return format!("{{\"isnull\":{}}}", phys_json(n.arg())); }
    if let Some(n) = e.downcast_ref::<IsNotNullExpr>() { return format!("{{\"isnotnull\":{}}}", phys_json(n.arg())); }
    format!("{{\"other\":{}}}", json_str(&format!("{e}")))
}

/// every NULL literal the rewriter put in: (column it stands for is unknown here) -> its data type
fn null_literal_types(e: &Arc<dyn PhysicalExpr>, out: &mut Vec<DataType>) {
    if let Some(l) = e.downcast_ref::<Literal>() { if l.value().is_null() { out.push(l.value().data_type()); } }
    for c in e.children() { null_literal_types(c, out); }
}

// ---------------------------------------------------------------- generators
const INT_EDGE32: &[i64] = &[0, 1, -1, 5, 7, 100, 2147483647, -2147483648];
const INT_EDGE64: &[i64] = &[0, 1, -1, 5, 7, 100, 2147483647, -2147483648, 2147483648, -2147483649, 5000000000, 4294967301, 9223372036854775807, -9223372036854775808];
const STRS: &[&str] = &["", "a", "b", "ab", "A", "\u{e9}", "zz", "5", "true"];
const NAMES: &[&str] = &["a", "b", "c", "d", "e", "A", "Ab"];

fn gen_val(rng: &mut Rng, t: T, nullable: bool) -> V {
    if nullable && rng.chance(1, 5) { return V::Null; }
    match t {
        T::I32 => V::I(*rng.pick(INT_EDGE32)),
        T::I64 => { let set = if rng.chance(2, 3) { INT_EDGE32 } else { INT_EDGE64 }; V::I(*rng.pick(set)) }
        T::U8 | T::LU8 | T::U8V => V::S(rng.pick(STRS).to_string()),
        T::Bool => V::B(rng.chance(1, 2)),
    }
}
fn gen_lit(rng: &mut Rng, t: T) -> V {
    if rng.chance(1, 20) { return V::Null; }
    match t {
        T::I32 => V::I(*rng.pick(INT_EDGE32)),
        T::I64 => V::I(*rng.pick(INT_EDGE64)),
        _ => gen_val(rng, t, false),
    }
}

fn sibling(rng: &mut Rng, t: T) -> T {
    match t {
        T::I32 => T::I64, T::I64 => T::I32,
        T::U8 => if rng.chance(3, 4) { T::LU8 } else { T::U8V },
        T::LU8 => if rng.chance(3, 4) { T::U8 } else { T::U8V },
        T::U8V => T::U8, T::Bool => T::Bool,
    }
}

fn shuffle<X>(rng: &mut Rng, v: &mut Vec<X>) {
    for i in (1..v.len()).rev() { let j = rng.below(i as u64 + 1) as usize; v.swap(i, j); }
}

fn flip_case(s: &str) -> String {
    s.chars().map(|c| if c.is_lowercase() { c.to_ascii_uppercase() } else { c.to_ascii_lowercase() }).collect()
}

struct Case { tbl: Vec<F>, file: Vec<F>, cols: Vec<Vec<V>>, nrows: usize, p: E }

fn gen_table(rng: &mut Rng) -> (Vec<F>, Vec<&'static str>) {
    let ncols = 1 + rng.below(5) as usize;
    let mut names: Vec<&str> = NAMES.to_vec();
    shuffle(rng, &mut names);
    let tbl: Vec<F> = (0..ncols).map(|i| F {
        name: names[i].to_string(),
        t: if rng.chance(1, 12) { T::U8V } else { *rng.pick(&MODEL_TYPES) },
        nullable: rng.chance(3, 4),
    }).collect();
    (tbl, names)
}

fn gen_file(rng: &mut Rng, tbl: &[F], names: &[&str]) -> Vec<F> {
    let ncols = tbl.len();
    let mut file: Vec<F> = vec![];
    let same = rng.chance(1, 8); // identical schema now and then
    for f in tbl {
        if same { file.push(f.clone()); continue; }
        if rng.chance(1, 5) { continue; } // missing from the file
        let t = match rng.below(20) {
            0..=11 => f.t,
            12..=17 => sibling(rng, f.t),
            _ => *rng.pick(&MODEL_TYPES), // any type, also across groups (outside the modelled lattice)
        };
        let nullable = if rng.chance(3, 4) { f.nullable } else { !f.nullable };
        let name = if rng.chance(1, 12) { flip_case(&f.name) } else { f.name.clone() }; // differs in case only: NOT the same column
        file.push(F { name, t, nullable });
    }
    if !same {
        for _ in 0..rng.below(3) {
            let name = match rng.below(4) { 0 => "x".to_string(), 1 => "y".to_string(), 2 => flip_case(&tbl[rng.below(tbl.len() as u64) as usize].name),
                                            _ => names[ncols.min(names.len() - 1)].to_string() };
            file.push(F { name, t: *rng.pick(&MODEL_TYPES), nullable: rng.chance(1, 2) });
        }
        shuffle(rng, &mut file);
    }
    // file schemas have unique names (parquet/arrow readers produce unique names); keep the first of each
    let mut seen: Vec<String> = vec![];
    file.retain(|f| if seen.contains(&f.name) { false } else { seen.push(f.name.clone()); true });
    file
}

fn gen_schemas(rng: &mut Rng) -> (Vec<F>, Vec<F>) {
    let (tbl, names) = gen_table(rng);
    let file = gen_file(rng, &tbl, &names);
    (tbl, file)
}

fn gen_expr(rng: &mut Rng, tbl: &[F], depth: u32) -> E {
    let pick_col = |rng: &mut Rng| { let i = rng.below(tbl.len() as u64) as usize; (i, E::Col(tbl[i].name.clone(), i)) };
    if depth == 0 || rng.chance(1, 3) {
        let (i, c) = pick_col(rng);
        let t = tbl[i].t;
        return match rng.below(10) {
            0 => E::IsNull(Box::new(c)),
            1 => E::IsNotNull(Box::new(c)),
            2 | 3 => {
                // column vs column of the same type when there is one
                let others: Vec<usize> = (0..tbl.len()).filter(|j| tbl[*j].t == t).collect();
                let j = *rng.pick(&others);
                E::Cmp(*rng.pick(&OPS), Box::new(c), Box::new(E::Col(tbl[j].name.clone(), j)))
            }
            4 if t == T::Bool => c,
            _ => {
                let l = E::Lit(t, gen_lit(rng, t));
                if rng.chance(1, 5) { E::Cmp(*rng.pick(&OPS), Box::new(l), Box::new(c)) } else { E::Cmp(*rng.pick(&OPS), Box::new(c), Box::new(l)) }
            }
        };
    }
    match rng.below(5) {
        0 | 1 => E::And(Box::new(gen_expr(rng, tbl, depth - 1)), Box::new(gen_expr(rng, tbl, depth - 1))),
        2 | 3 => E::Or(Box::new(gen_expr(rng, tbl, depth - 1)), Box::new(gen_expr(rng, tbl, depth - 1))),
        _ => E::Not(Box::new(gen_expr(rng, tbl, depth - 1))),
    }
}
const OPS: [Operator; 6] = [Operator::Eq, Operator::NotEq, Operator::Lt, Operator::LtEq, Operator::Gt, Operator::GtEq];

fn gen_case(rng: &mut Rng) -> Case {
    let (tbl, file) = gen_schemas(rng);
    let nrows = rng.below(7) as usize;
    let cols: Vec<Vec<V>> = file.iter().map(|f| (0..nrows).map(|_| gen_val(rng, f.t, f.nullable)).collect()).collect();
    let p = if rng.chance(1, 5) {
        let i = rng.below(tbl.len() as u64) as usize; // a projection: the bare column
        E::Col(tbl[i].name.clone(), i)
    } else {
        gen_expr(rng, &tbl, 3)
    };
    Case { tbl, file, cols, nrows, p }
}

// ---------------------------------------------------------------- running one flat case
fn make_batch(schema: &SchemaRef, arrays: Vec<ArrayRef>, nrows: usize) -> Result<RecordBatch, String> {
    RecordBatch::try_new_with_options(schema.clone(), arrays, &RecordBatchOptions::new().with_row_count(Some(nrows))).map_err(|e| e.to_string())
}

fn eval_on(e: &Arc<dyn PhysicalExpr>, b: &RecordBatch) -> Result<Vec<V>, String> {
    let cv = e.evaluate(b).map_err(|e| e.to_string())?;
    let a = cv.into_array(b.num_rows()).map_err(|e| e.to_string())?;
    array_vals(&a)
}

/// independent reference: each table column = the same-named file column (first match, exact name),
/// arrow-cast (erroring on overflow) if the types differ, NULLs if missing and nullable, else error
fn reference_adapt(tbl: &[F], file: &[F], batch: &RecordBatch) -> Result<RecordBatch, String> {
    let relaxed: Vec<F> = tbl.iter().map(|f| F { nullable: true, ..f.clone() }).collect(); // a NULL read into a non-nullable table column is passed through
    let mut arrays = vec![];
    for tf in tbl {
        let arr = match file.iter().position(|f| f.name == tf.name) {
            None => {
                if !tf.nullable { return Err(format!("non-nullable column {} missing", tf.name)); }
                new_null_array(&tf.t.dt(), batch.num_rows())
            }
            Some(j) => {
                let src = batch.column(j);
                if file[j].t == tf.t { src.clone() } else {
                    cast_with_options(src, &tf.t.dt(), &CastOptions { safe: false, ..Default::default() }).map_err(|e| e.to_string())?
                }
            }
        };
        arrays.push(arr);
    }
    make_batch(&schema_of(&relaxed), arrays, batch.num_rows())
}

fn batch_rows(b: &RecordBatch) -> Result<Vec<Vec<V>>, String> {
    let cols: Vec<Vec<V>> = b.columns().iter().map(array_vals).collect::<Result<_, _>>()?;
    Ok((0..b.num_rows()).map(|r| cols.iter().map(|c| c[r].clone()).collect()).collect())
}
fn rows_json(rows: &[Vec<V>]) -> String { format!("[{}]", rows.iter().map(|r| vals_json(r)).collect::<Vec<_>>().join(",")) }
fn opt_json<X>(r: &Result<X, String>, f: impl Fn(&X) -> String) -> String { match r { Ok(x) => f(x), Err(_) => "null".into() } }
fn err_json<X>(r: &Result<X, String>) -> String { match r { Ok(_) => "null".into(), Err(e) => json_str(&e.chars().take(300).collect::<String>()) } }

fn panic_msg(p: Box<dyn std::any::Any + Send>) -> String {
    p.downcast_ref::<String>().cloned().or_else(|| p.downcast_ref::<&str>().map(|s| s.to_string())).unwrap_or_default()
}

fn run_flat(c: &Case) -> String {
    let tbl_s = schema_of(&c.tbl);
    let file_s = schema_of(&c.file);
    let arrays: Vec<ArrayRef> = c.file.iter().zip(&c.cols).map(|(f, vs)| build_array(f.t, vs)).collect();
    let file_batch = make_batch(&file_s, arrays, c.nrows).expect("file batch");
    let p = to_phys(&c.p);

    // the real rewriter
    let rewritten: Result<Arc<dyn PhysicalExpr>, String> = DefaultPhysicalExprAdapterFactory
        .create(tbl_s.clone(), file_s.clone()).and_then(|a| a.rewrite(p.clone())).map_err(|e| e.to_string());
    let push = rewritten.clone().and_then(|e| eval_on(&e, &file_batch));
    // the scan path of the parquet opener: rewrite, then simplify against the FILE schema
    let simplified: Result<Arc<dyn PhysicalExpr>, String> = rewritten.clone().and_then(|e| PhysicalExprSimplifier::new(&file_s).simplify(e).map_err(|e| e.to_string()));
    let push_simplified = simplified.clone().and_then(|e| eval_on(&e, &file_batch));
    // the real batch adapter (BatchAdapterFactory); it may panic, see the known finding
    let ba: Result<Result<RecordBatch, String>, String> = catch_unwind(AssertUnwindSafe(|| {
        BatchAdapterFactory::new(tbl_s.clone()).make_adapter(&file_s).and_then(|a| a.adapt_batch(&file_batch)).map_err(|e| e.to_string())
    })).map_err(panic_msg);
    // the projection as the scan builds it: identity projection of the table schema, rewritten + simplified, projected
    let scan: Result<RecordBatch, String> = (|| {
        let adapter = DefaultPhysicalExprAdapterFactory.create(tbl_s.clone(), file_s.clone())?;
        let simplifier = PhysicalExprSimplifier::new(&file_s);
        let proj = ProjectionExprs::from_indices(&(0..tbl_s.fields().len()).collect::<Vec<_>>(), &tbl_s);
        let proj = proj.try_map_exprs(|e| simplifier.simplify(adapter.rewrite(e)?))?;
        proj.make_projector(&file_s)?.project_batch(&file_batch)
    })().map_err(|e| e.to_string());
    let adapt_panic: Option<String> = ba.as_ref().err().cloned();
    let adapted: Result<RecordBatch, String> = match &ba { Ok(r) => r.clone(), Err(_) => scan.clone() };
    let post = adapted.clone().and_then(|b| eval_on(&p, &b));
    // reference
    let reference = reference_adapt(&c.tbl, &c.file, &file_batch);
    let post_ref = reference.clone().and_then(|b| eval_on(&p, &b));

    let mut why: Vec<String> = vec![];
    let adapted_rows = adapted.clone().and_then(|b| batch_rows(&b));
    match (&reference, &adapted) {
        (Ok(r), Ok(a)) => {
            let tys_ok = a.schema().fields().len() == tbl_s.fields().len()
                && a.schema().fields().iter().zip(tbl_s.fields()).all(|(x, y)| x.name() == y.name() && x.data_type() == y.data_type());
            if !tys_ok { why.push(format!("adapted batch schema {:?} is not the table schema", a.schema())); }
            else if r.columns() != a.columns() { why.push("adapted batch differs from by-name reference adaptation".into()); }
        }
        (Ok(_), Err(e)) => why.push(format!("adapt_batch failed although every column is adaptable: {e}")),
        (Err(e), Ok(_)) => why.push(format!("adapt_batch succeeded although the reference adaptation fails: {e}")),
        (Err(_), Err(_)) => {}
    }
    match (&reference, &scan) {
        (Ok(r), Ok(a)) => if r.columns() != a.columns() { why.push("scan-path projection (rewrite+simplify of the identity projection) differs from by-name reference adaptation".into()); },
        (Ok(_), Err(e)) => why.push(format!("scan-path projection failed although every column is adaptable: {e}")),
        (Err(e), Ok(_)) => why.push(format!("scan-path projection succeeded although the reference adaptation fails: {e}")),
        (Err(_), Err(_)) => {}
    }
    if let Ok(want) = &post_ref {
        match &push {
            Ok(got) => if got != want { why.push("rewritten expression on the file rows differs from the expression on the adapted rows".into()); },
            Err(e) => why.push(format!("rewritten expression fails on the file rows although adaptation succeeds: {e}")),
        }
        match &push_simplified {
            Ok(got) => if got != want { why.push("rewritten+simplified expression on the file rows differs from the expression on the adapted rows".into()); },
            Err(e) => why.push(format!("rewritten+simplified expression fails on the file rows although adaptation succeeds: {e}")),
        }
        if let Ok(got) = &post { if got != want { why.push("expression on adapt_batch output differs from expression on the reference adaptation".into()); } }
    }
    let only_known_panic = why.is_empty() && adapt_panic.as_deref().map(|m| m.contains("PhysicalExpr Column references column")).unwrap_or(false);
    if let Some(m) = &adapt_panic { why.push(format!("BatchAdapterFactory::make_adapter/adapt_batch panicked: {}", m.chars().take(200).collect::<String>())); }
    // NULL literals introduced for missing columns must have a table column's type
    let mut null_types_ok = true;
    if let Ok(e) = &rewritten {
        let mut nts = vec![]; null_literal_types(e, &mut nts);
        let mut orig = vec![]; null_literal_types(&p, &mut orig);
        if nts.len() > orig.len() {
            for t in &nts { if !c.tbl.iter().any(|f| &f.t.dt() == t) { null_types_ok = false; } }
        }
    }
    if !null_types_ok { why.push("NULL literal for a missing column has a type no table column has".into()); }

    let modelled = c.tbl.iter().all(|f| f.t.modelled()) && c.file.iter().all(|f| f.t.modelled())
        && c.tbl.iter().all(|tf| c.file.iter().find(|f| f.name == tf.name).map(|f| f.t.group() == tf.t.group()).unwrap_or(true));
    let n_missing = c.tbl.iter().filter(|tf| !c.file.iter().any(|f| f.name == tf.name)).count();
    let n_cast = c.tbl.iter().filter(|tf| c.file.iter().any(|f| f.name == tf.name && f.t != tf.t)).count();
    let reordered = c.tbl.iter().enumerate().any(|(i, tf)| c.file.iter().position(|f| f.name == tf.name).map(|j| j != i).unwrap_or(false));
    let file_rows: Vec<Vec<V>> = (0..c.nrows).map(|r| c.cols.iter().map(|col| col[r].clone()).collect()).collect();
    format!(
        "{{\"k\":\"flat\",{}\"tbl\":{},\"file\":{},\"rows\":{},\"p\":{},\"rewritten\":{},\"rewrite_err\":{},\"push\":{},\"push_err\":{},\"adapt\":{},\"adapt_err\":{},\"post\":{},\"ref_ok\":{},\"modelled\":{},\"missing\":{},\"casts\":{},\"reordered\":{},\"ok\":{},\"why\":{}}}",
        match (&adapt_panic, only_known_panic) { (Some(m), true) => format!("\"key\":\"batch-adapter-simplifies-with-target-schema\",\"adapt_panic\":{},", json_str(m)), (Some(m), false) => format!("\"adapt_panic\":{},", json_str(m)), _ => String::new() },
        schema_json(&c.tbl), schema_json(&c.file), rows_json(&file_rows), e_json(&c.p),
        opt_json(&rewritten, |e| phys_json(e)), err_json(&rewritten),
        opt_json(&push, |v| vals_json(v)), err_json(&push),
        opt_json(&adapted_rows, |r| rows_json(r)), err_json(&adapted),
        opt_json(&post, |v| vals_json(v)), reference.is_ok(), modelled, n_missing, n_cast, reordered,
        why.is_empty(), json_str(&why.join("; ")))
}

// ---------------------------------------------------------------- fixed witnesses (run first on every run)
fn f(name: &str, t: T, nullable: bool) -> F { F { name: name.to_string(), t, nullable } }
fn col(tbl: &[F], i: usize) -> E { E::Col(tbl[i].name.clone(), i) }

fn fixed_cases() -> Vec<Case> {
    let mut out = vec![];
    // witness of the known finding: the file has an extra leading column, so the table's only column sits at file index 1
    let tblw = vec![f("a", T::I32, true)];
    out.push(Case { tbl: tblw.clone(), file: vec![f("x", T::I32, true), f("a", T::I32, true)], cols: vec![vec![V::I(7)], vec![V::I(1)]], nrows: 1,
                    p: E::Cmp(Operator::Eq, Box::new(col(&tblw, 0)), Box::new(E::Lit(T::I32, V::I(1)))) });
    // reordered + widened + missing nullable + extra; large Int64 literal
    let tbl = vec![f("a", T::I64, true), f("b", T::U8, true), f("c", T::Bool, true)];
    let file = vec![f("x", T::I32, false), f("b", T::LU8, true), f("a", T::I32, true)];
    let cols = vec![vec![V::I(1), V::I(2), V::I(3)], vec![V::S("a".into()), V::Null, V::S("zz".into())], vec![V::I(5), V::I(2147483647), V::Null]];
    let p = E::Or(Box::new(E::Cmp(Operator::Lt, Box::new(col(&tbl, 0)), Box::new(E::Lit(T::I64, V::I(4294967301))))), Box::new(E::IsNull(Box::new(col(&tbl, 2)))));
    out.push(Case { tbl: tbl.clone(), file: file.clone(), cols: cols.clone(), nrows: 3, p });
    // comparison with a missing column and with the string column
    let p = E::And(Box::new(E::Cmp(Operator::Eq, Box::new(col(&tbl, 1)), Box::new(E::Lit(T::U8, V::S("a".into()))))), Box::new(E::Not(Box::new(col(&tbl, 2)))));
    out.push(Case { tbl: tbl.clone(), file, cols, nrows: 3, p });
    // narrowing with overflow: adaptation must fail
    let tbl2 = vec![f("a", T::I32, true)];
    let file2 = vec![f("a", T::I64, true)];
    out.push(Case { tbl: tbl2.clone(), file: file2.clone(), cols: vec![vec![V::I(1), V::I(5000000000)]], nrows: 2, p: E::Cmp(Operator::Gt, Box::new(col(&tbl2, 0)), Box::new(E::Lit(T::I32, V::I(0)))) });
    // missing non-nullable column
    let tbl3 = vec![f("a", T::I32, true), f("b", T::I32, false)];
    let file3 = vec![f("a", T::I32, true)];
    out.push(Case { tbl: tbl3.clone(), file: file3.clone(), cols: vec![vec![V::I(1)]], nrows: 1, p: E::Cmp(Operator::Eq, Box::new(col(&tbl3, 1)), Box::new(E::Lit(T::I32, V::I(1)))) });
    out.push(Case { tbl: tbl3.clone(), file: file3, cols: vec![vec![V::I(1)]], nrows: 1, p: E::Cmp(Operator::Eq, Box::new(col(&tbl3, 0)), Box::new(E::Lit(T::I32, V::I(1)))) });
    // names differing in case only are different columns
    let tbl4 = vec![f("a", T::I32, true), f("A", T::U8, true)];
    let file4 = vec![f("A", T::U8, true), f("B", T::I32, true)];
    out.push(Case { tbl: tbl4.clone(), file: file4, cols: vec![vec![V::S("x".into())], vec![V::I(3)]], nrows: 1, p: E::IsNull(Box::new(col(&tbl4, 0))) });
    // nullable file column read into a non-nullable table column: with and without a NULL
    let tbl5 = vec![f("a", T::I64, false)];
    let file5 = vec![f("a", T::I64, true)];
    out.push(Case { tbl: tbl5.clone(), file: file5.clone(), cols: vec![vec![V::I(1), V::Null]], nrows: 2, p: E::IsNull(Box::new(col(&tbl5, 0))) });
    out.push(Case { tbl: tbl5.clone(), file: file5, cols: vec![vec![V::I(1), V::I(2)]], nrows: 2, p: E::IsNull(Box::new(col(&tbl5, 0))) });
    out
}

// ---------------------------------------------------------------- end to end: parquet files of different schemas in one listing table
fn qid(n: &str) -> String { format!("\"{}\"", n) }
fn sql_ty(t: T) -> &'static str { match t { T::I32 => "INT", T::I64 => "BIGINT", T::Bool => "BOOLEAN", _ => "VARCHAR" } }
fn sql_lit(t: T, v: &V) -> String {
    match v {
        V::Null => format!("CAST(NULL AS {})", sql_ty(t)),
        V::I(i) => format!("CAST('{}' AS {})", i, sql_ty(t)),
        V::S(s) => format!("'{}'", s.replace('\'', "''")),
        V::B(b) => b.to_string(),
    }
}
fn sql_op(op: &Operator) -> &'static str {
    match op { Operator::Eq => "=", Operator::NotEq => "<>", Operator::Lt => "<", Operator::LtEq => "<=", Operator::Gt => ">", _ => ">=" }
}
fn sql_expr(e: &E) -> String {
    match e {
        E::Col(n, _) => qid(n),
        E::Lit(t, v) => sql_lit(*t, v),
        E::Cmp(op, a, b) => format!("({} {} {})", sql_expr(a), sql_op(op), sql_expr(b)),
        E::And(a, b) => format!("({} AND {})", sql_expr(a), sql_expr(b)),
        E::Or(a, b) => format!("({} OR {})", sql_expr(a), sql_expr(b)),
        E::Not(a) => format!("(NOT {})", sql_expr(a)),
        E::IsNull(a) => format!("({} IS NULL)", sql_expr(a)),
        E::IsNotNull(a) => format!("({} IS NOT NULL)", sql_expr(a)),
    }
}

struct E2e { tbl: Vec<F>, files: Vec<(Vec<F>, Vec<Vec<V>>, usize)>, p: E }

fn file_batch_of(file: &[F], cols: &[Vec<V>], nrows: usize) -> RecordBatch {
    let arrays: Vec<ArrayRef> = file.iter().zip(cols).map(|(f, vs)| build_array(f.t, vs)).collect();
    make_batch(&schema_of(file), arrays, nrows).expect("file batch")
}

fn gen_e2e(rng: &mut Rng) -> E2e {
    loop {
        let (tbl, names) = gen_table(rng);
        let mut files = vec![];
        for _ in 0..2 {
            let file = gen_file(rng, &tbl, &names);
            if file.is_empty() { continue; }
            let nrows = 1 + rng.below(6) as usize;
            let cols: Vec<Vec<V>> = file.iter().map(|f| (0..nrows).map(|_| gen_val(rng, f.t, f.nullable)).collect()).collect();
            // the scan rejects a NULL read into a table column declared non-nullable (RecordBatch validation): keep such files out
            let strict_ok = reference_adapt(&tbl, &file, &file_batch_of(&file, &cols, nrows))
                .map(|b| tbl.iter().zip(b.columns()).all(|(f, a)| f.nullable || a.null_count() == 0)).unwrap_or(false);
            if strict_ok { files.push((file, cols, nrows)); }
        }
        if files.len() == 2 {
            let p = gen_expr(rng, &tbl, 2);
            return E2e { tbl, files, p };
        }
    }
}

async fn e2e_query(dir: &str, tbl: &SchemaRef, sql: &str, pushdown: bool) -> Result<(Vec<String>, bool), String> {
    let mut cfg = SessionConfig::new().with_target_partitions(2);
    cfg.options_mut().execution.parquet.pushdown_filters = pushdown;
    cfg.options_mut().execution.parquet.reorder_filters = pushdown;
    let ctx = SessionContext::new_with_config(cfg);
    let lopts = ListingOptions::new(Arc::new(ParquetFormat::default())).with_file_extension(".parquet");
    let lcfg = ListingTableConfig::new(ListingTableUrl::parse(dir).map_err(|e| e.to_string())?).with_listing_options(lopts).with_schema(tbl.clone());
    let table = ListingTable::try_new(lcfg).map_err(|e| e.to_string())?;
    ctx.register_table("t", Arc::new(table)).map_err(|e| e.to_string())?;
    let bs = ctx.sql(sql).await.map_err(|e| e.to_string())?.collect().await.map_err(|e| e.to_string())?;
    let mut rows = vec![];
    let mut types_ok = true;
    for b in &bs {
        if !(b.schema().fields().len() == tbl.fields().len() && b.schema().fields().iter().zip(tbl.fields()).all(|(x, y)| x.name() == y.name() && x.data_type() == y.data_type())) { types_ok = false; }
        for r in batch_rows(b)? { rows.push(vals_json(&r)); }
    }
    rows.sort();
    Ok((rows, types_ok))
}

fn run_e2e(rt: &tokio::runtime::Runtime, base: &std::path::Path, idx: usize, c: &E2e) -> String {
    let dir = base.join(format!("e{idx}"));
    let _ = std::fs::remove_dir_all(&dir);
    std::fs::create_dir_all(&dir).unwrap();
    let p = to_phys(&c.p);
    let mut want: Vec<String> = vec![];
    for (k, (file, cols, nrows)) in c.files.iter().enumerate() {
        let batch = file_batch_of(file, cols, *nrows);
        let fh = std::fs::File::create(dir.join(format!("f{k}.parquet"))).unwrap();
        let mut w = datafusion::parquet::arrow::ArrowWriter::try_new(fh, batch.schema(), None).unwrap();
        w.write(&batch).unwrap();
        w.close().unwrap();
        let adapted = reference_adapt(&c.tbl, file, &batch).expect("reference");
        let sel = eval_on(&p, &adapted).expect("predicate on reference");
        for (r, row) in batch_rows(&adapted).unwrap().iter().enumerate() { if sel[r] == V::B(true) { want.push(vals_json(row)); } }
    }
    want.sort();
    let sql = format!("SELECT * FROM t WHERE {}", sql_expr(&c.p));
    let tbl_s = schema_of(&c.tbl);
    let url = format!("{}/", dir.to_string_lossy());
    let off = rt.block_on(e2e_query(&url, &tbl_s, &sql, false));
    let on = rt.block_on(e2e_query(&url, &tbl_s, &sql, true));
    let _ = std::fs::remove_dir_all(&dir);
    let mut why: Vec<String> = vec![];
    for (nm, r) in [("pushdown_filters=false", &off), ("pushdown_filters=true", &on)] {
        match r {
            Ok((rows, tys)) => {
                if rows != &want { why.push(format!("{nm}: rows differ from adapting every file by name and filtering")); }
                if !tys { why.push(format!("{nm}: result schema is not the table schema")); }
            }
            Err(e) => why.push(format!("{nm}: query failed although every file is adaptable: {}", e.chars().take(300).collect::<String>())),
        }
    }
    let lj = |v: &Vec<String>| format!("[{}]", v.join(","));
    format!("{{\"k\":\"e2e\",\"tbl\":{},\"files\":[{}],\"rows\":[{}],\"p\":{},\"sql\":{},\"want\":{},\"got_off\":{},\"got_on\":{},\"nwant\":{},\"ok\":{},\"why\":{}}}",
        schema_json(&c.tbl), c.files.iter().map(|f| schema_json(&f.0)).collect::<Vec<_>>().join(","),
        c.files.iter().map(|f| rows_json(&(0..f.2).map(|r| f.1.iter().map(|col| col[r].clone()).collect()).collect::<Vec<Vec<V>>>())).collect::<Vec<_>>().join(","),
        e_json(&c.p), json_str(&sql), lj(&want),
        match &off { Ok((r, _)) => lj(r), Err(_) => "null".into() }, match &on { Ok((r, _)) => lj(r), Err(_) => "null".into() },
        want.len(), why.is_empty(), json_str(&why.join("; ")))
}

// ---------------------------------------------------------------- struct columns (oracle only)
#[derive(Clone, Debug)]
struct SF { name: String, t: T }

struct SCase { tf: Vec<SF>, ff: Vec<SF>, file_has_k: bool, k_first: bool, srows: Vec<Option<Vec<V>>>, kvals: Vec<V>, field: String, ft: T, shape: u8, op: Operator, lit: V }

fn struct_dt(fs: &[SF]) -> DataType { DataType::Struct(fs.iter().map(|f| Field::new(&f.name, f.t.dt(), true)).collect::<Vec<_>>().into()) }
fn sfields_json(fs: &[SF]) -> String { format!("[{}]", fs.iter().map(|f| format!("[{},\"{}\"]", json_str(&f.name), f.t.name())).collect::<Vec<_>>().join(",")) }

fn gen_struct_case(rng: &mut Rng) -> SCase {
    let pool: [(&str, T); 5] = [("f1", T::I32), ("f2", T::U8), ("f3", T::Bool), ("f4", T::I64), ("F1", T::U8)];
    let mut idx: Vec<usize> = (0..pool.len()).collect();
    shuffle(rng, &mut idx);
    let nt = 1 + rng.below(4) as usize;
    let tf: Vec<SF> = idx[..nt].iter().map(|i| SF { name: pool[*i].0.to_string(), t: if rng.chance(1, 3) { sibling(rng, pool[*i].1) } else { pool[*i].1 } }).collect();
    let no_overlap = rng.chance(1, 15);
    let mut ff: Vec<SF> = vec![];
    for f in &tf {
        if no_overlap || rng.chance(1, 4) { continue; }
        ff.push(SF { name: f.name.clone(), t: if rng.chance(1, 3) { sibling(rng, f.t) } else { f.t } });
    }
    if !no_overlap && ff.is_empty() { ff.push(tf[0].clone()); }
    for i in &idx[nt..] { if rng.chance(1, 2) || ff.is_empty() { ff.push(SF { name: pool[*i].0.to_string(), t: pool[*i].1 }); } }
    if ff.is_empty() { ff.push(SF { name: "zz".into(), t: T::I32 }); }
    shuffle(rng, &mut ff);
    let nrows = rng.below(6) as usize;
    let srows: Vec<Option<Vec<V>>> = (0..nrows).map(|_| if rng.chance(1, 6) { None } else { Some(ff.iter().map(|f| gen_val(rng, f.t, true)).collect()) }).collect();
    let kvals: Vec<V> = (0..nrows).map(|_| gen_val(rng, T::I32, true)).collect();
    let fi = rng.below(tf.len() as u64) as usize;
    let ft = tf[fi].t;
    SCase { field: tf[fi].name.clone(), ft, tf, ff, file_has_k: rng.chance(2, 3), k_first: rng.chance(1, 2), srows, kvals,
            shape: rng.below(4) as u8, op: *rng.pick(&OPS), lit: gen_lit(rng, ft) }
}

fn struct_array(fs: &[SF], rows: &[Option<Vec<V>>]) -> ArrayRef {
    let children: Vec<ArrayRef> = fs.iter().enumerate().map(|(c, f)| build_array(f.t, &rows.iter().map(|r| match r { Some(vs) => vs[c].clone(), None => V::Null }).collect::<Vec<_>>())).collect();
    let fields: Fields = fs.iter().map(|f| Field::new(&f.name, f.t.dt(), true)).collect::<Vec<_>>().into();
    let nulls = arrow::buffer::NullBuffer::from(rows.iter().map(|r| r.is_some()).collect::<Vec<bool>>());
    Arc::new(StructArray::try_new_with_length(fields, children, Some(nulls), rows.len()).unwrap())
}

/// independent reference for a struct column: fields by exact name, cast, NULL children for missing fields, struct-level NULLs kept
fn reference_struct(tf: &[SF], ff: &[SF], src: &StructArray) -> Result<ArrayRef, String> {
    if !tf.iter().any(|t| ff.iter().any(|f| f.name == t.name)) { return Err("no common field".into()); }
    let mut children = vec![];
    for t in tf {
        children.push(match ff.iter().position(|f| f.name == t.name) {
            Some(j) => cast_with_options(src.column(j), &t.t.dt(), &CastOptions { safe: false, ..Default::default() }).map_err(|e| e.to_string())?,
            None => new_null_array(&t.t.dt(), src.len()),
        });
    }
    let fields: Fields = tf.iter().map(|f| Field::new(&f.name, f.t.dt(), true)).collect::<Vec<_>>().into();
    Ok(Arc::new(StructArray::try_new_with_length(fields, children, src.nulls().cloned(), src.len()).map_err(|e| e.to_string())?))
}

fn run_struct(c: &SCase) -> String {
    let tbl_s: SchemaRef = Arc::new(Schema::new(vec![Field::new("k", DataType::Int32, true), Field::new("s", struct_dt(&c.tf), true)]));
    let sarr = struct_array(&c.ff, &c.srows);
    let karr = build_array(T::I32, &c.kvals);
    let mut ffields = vec![Field::new("s", struct_dt(&c.ff), true)];
    let mut farrays = vec![sarr.clone()];
    if c.file_has_k { if c.k_first { ffields.insert(0, Field::new("k", DataType::Int32, true)); farrays.insert(0, karr.clone()); } else { ffields.push(Field::new("k", DataType::Int32, true)); farrays.push(karr.clone()); } }
    let file_s: SchemaRef = Arc::new(Schema::new(ffields));
    let n = c.srows.len();
    let file_batch = make_batch(&file_s, farrays, n).expect("file batch");
    // expression over the table schema
    let scol: Arc<dyn PhysicalExpr> = Arc::new(Column::new("s", 1));
    let gf = |src: Arc<dyn PhysicalExpr>| -> Result<Arc<dyn PhysicalExpr>, String> {
        Ok(Arc::new(datafusion_physical_expr::ScalarFunctionExpr::try_new(datafusion::functions::core::get_field(),
            vec![src, Arc::new(Literal::new(ScalarValue::Utf8(Some(c.field.clone()))))], &tbl_s, Arc::new(datafusion_common::config::ConfigOptions::default())).map_err(|e| e.to_string())?))
    };
    let (p, desc): (Arc<dyn PhysicalExpr>, String) = match c.shape {
        0 => (Arc::new(IsNullExpr::new(scol.clone())), "s IS NULL".into()),
        1 => (Arc::new(IsNullExpr::new(gf(scol.clone()).expect("get_field"))), format!("s.{} IS NULL", c.field)),
        2 => (gf(scol.clone()).expect("get_field"), format!("s.{}", c.field)),
        _ => (Arc::new(BinaryExpr::new(gf(scol.clone()).expect("get_field"), c.op, Arc::new(Literal::new(scalar_of(c.ft, &c.lit))))), format!("s.{} {} {}", c.field, sql_op(&c.op), v_json(&c.lit))),
    };
    let rewritten: Result<Arc<dyn PhysicalExpr>, String> = DefaultPhysicalExprAdapterFactory.create(tbl_s.clone(), file_s.clone()).and_then(|a| a.rewrite(p.clone())).map_err(|e| e.to_string());
    let push = rewritten.clone().and_then(|e| eval_on(&e, &file_batch));
    let adapted: Result<RecordBatch, String> = BatchAdapterFactory::new(tbl_s.clone()).make_adapter(&file_s).and_then(|a| a.adapt_batch(&file_batch)).map_err(|e| e.to_string());
    let post = adapted.clone().and_then(|b| eval_on(&p, &b));
    let reference: Result<RecordBatch, String> = reference_struct(&c.tf, &c.ff, sarr.as_any().downcast_ref::<StructArray>().unwrap())
        .and_then(|s| make_batch(&tbl_s, vec![if c.file_has_k { karr.clone() } else { new_null_array(&DataType::Int32, n) }, s], n));
    let post_ref = reference.clone().and_then(|b| eval_on(&p, &b));
    let mut why: Vec<String> = vec![];
    match (&reference, &adapted) {
        (Ok(r), Ok(a)) => {
            if a.schema().fields().iter().map(|f| f.data_type().clone()).collect::<Vec<_>>() != tbl_s.fields().iter().map(|f| f.data_type().clone()).collect::<Vec<_>>() { why.push("adapted batch does not have the table's column types".into()); }
            else if batch_rows(r) != batch_rows(a) { why.push("adapted struct column differs from by-name reference adaptation".into()); }
        }
        (Ok(_), Err(e)) => why.push(format!("adapt_batch failed although the struct is adaptable: {e}")),
        (Err(e), Ok(_)) => why.push(format!("adapt_batch succeeded although the reference adaptation fails: {e}")),
        _ => {}
    }
    if let Ok(want) = &post_ref {
        match &push {
            Ok(got) => if got != want { why.push("rewritten expression on the file rows differs from the expression on the adapted rows".into()); },
            Err(e) => why.push(format!("rewritten expression fails on the file rows although adaptation succeeds: {e}")),
        }
        if let Ok(got) = &post { if got != want { why.push("expression on adapt_batch output differs from expression on the reference adaptation".into()); } }
    }
    let srows_json = format!("[{}]", c.srows.iter().map(|r| match r { Some(v) => vals_json(v), None => "null".into() }).collect::<Vec<_>>().join(","));
    format!("{{\"k\":\"struct\",\"tbl_fields\":{},\"file_fields\":{},\"file_has_k\":{},\"rows\":{},\"desc\":{},\"rewritten\":{},\"rewrite_err\":{},\"push\":{},\"push_err\":{},\"adapt\":{},\"adapt_err\":{},\"post\":{},\"want\":{},\"ref_ok\":{},\"ok\":{},\"why\":{}}}",
        sfields_json(&c.tf), sfields_json(&c.ff), c.file_has_k, srows_json, json_str(&desc),
        opt_json(&rewritten, |e| json_str(&format!("{e}"))), err_json(&rewritten), opt_json(&push, |v| vals_json(v)), err_json(&push),
        opt_json(&adapted.clone().and_then(|b| batch_rows(&b)), |r| rows_json(r)), err_json(&adapted), opt_json(&post, |v| vals_json(v)), opt_json(&post_ref, |v| vals_json(v)),
        reference.is_ok(), why.is_empty(), json_str(&why.join("; ")))
}

fn main() {
    let args: Vec<String> = std::env::args().collect();
    let seed: u64 = arg(&args, "--seed", "1").parse().unwrap();
    let n: usize = arg(&args, "--n", "300").parse().unwrap();
    std::panic::set_hook(Box::new(|_| {}));
    let mut rng = Rng::new(seed);
    for a in MODEL_TYPES { for b in MODEL_TYPES {
        println!("{{\"k\":\"castable\",\"from\":\"{}\",\"to\":\"{}\",\"obs\":{},\"ok\":true}}", a.name(), b.name(), can_cast_types(&a.dt(), &b.dt()));
    } }
    let mut cases = fixed_cases();
    let nfixed = cases.len();
    for _ in 0..n { cases.push(gen_case(&mut rng)); }
    for (i, c) in cases.iter().enumerate() {
        let line = catch_unwind(AssertUnwindSafe(|| run_flat(c))).unwrap_or_else(|p| {
            let msg = p.downcast_ref::<String>().cloned().or_else(|| p.downcast_ref::<&str>().map(|s| s.to_string())).unwrap_or_default();
            format!("{{\"k\":\"flat\",\"tbl\":{},\"file\":{},\"p\":{},\"panic\":{},\"modelled\":false,\"ok\":false,\"why\":\"panic\"}}", schema_json(&c.tbl), schema_json(&c.file), e_json(&c.p), json_str(&msg))
        });
        let line = if i < nfixed { line.replacen("{\"k\":\"flat\"", &format!("{{\"k\":\"flat\",\"fixed\":{i}"), 1) } else { line };
        println!("{line}");
    }
    // struct columns
    for _ in 0..(n / 3).max(20) {
        let c = gen_struct_case(&mut rng);
        let line = catch_unwind(AssertUnwindSafe(|| run_struct(&c))).unwrap_or_else(|p| {
            let msg = p.downcast_ref::<String>().cloned().or_else(|| p.downcast_ref::<&str>().map(|s| s.to_string())).unwrap_or_default();
            format!("{{\"k\":\"struct\",\"tbl_fields\":{},\"file_fields\":{},\"panic\":{},\"ok\":false,\"why\":\"panic\"}}", sfields_json(&c.tf), sfields_json(&c.ff), json_str(&msg))
        });
        println!("{line}");
    }
    // end to end
    let rt = tokio::runtime::Builder::new_multi_thread().worker_threads(2).enable_all().build().unwrap();
    let base = std::env::temp_dir().join(format!("c44_{}_{}", std::process::id(), seed));
    let ne2e = (n / 8).max(6);
    for i in 0..ne2e {
        let c = gen_e2e(&mut rng);
        let line = catch_unwind(AssertUnwindSafe(|| run_e2e(&rt, &base, i, &c))).unwrap_or_else(|p| {
            let msg = p.downcast_ref::<String>().cloned().or_else(|| p.downcast_ref::<&str>().map(|s| s.to_string())).unwrap_or_default();
            format!("{{\"k\":\"e2e\",\"tbl\":{},\"p\":{},\"panic\":{},\"ok\":false,\"why\":\"panic\"}}", schema_json(&c.tbl), e_json(&c.p), json_str(&msg))
        });
        println!("{line}");
    }
    let _ = std::fs::remove_dir_all(&base);
}
