//! C01: SQL query results agree with reference relational semantics (engine E1 RefSQL).
//! Generates a query AST per case (one stream per construct family, see refsql_gen::STREAMS), renders it to SQL,
//! runs it through the REAL engine (SessionContext::sql(..).collect() over MemTables with 1..3 partitions) and
//! prints one JSON line per case: tables, query JSON (for the Coq reference), SQL text, and the engine's rows
//! (ints as numbers, strings, bools, null, floats as {"f": x}) or its error string.
//! "ok" is false only when the engine panicked; the verdict (engine rows == reference rows) is computed in Coq.
//!   c01 --seed S --n N [--case ID [--explain]] [--timeout SECS]    witness corpus (ids 1000000..) + generated cases;
//!       a query that does not finish within SECS (default 20) is retried (3 attempts, fresh runtime) and reported with "hung"/"plan"
//!   c01 --probe "<sql>" --seed S --case ID              run ad-hoc SQL over the tables of case ID
#[path = "../refsql_gen.rs"]
mod refsql_gen;

use std::sync::Arc;

use arrow::array::{Array, ArrayRef, BooleanArray, Float64Array, Int64Array, StringArray};
use arrow::compute::cast;
use arrow::datatypes::{DataType, Field, Schema};
use arrow::record_batch::RecordBatch;
use datafusion::datasource::MemTable;
use datafusion::prelude::*;
use h_util::{arg, json_str, Rng};
use refsql_gen::*;

fn column(t: Ty, vals: &[&V]) -> ArrayRef {
    match t {
        Ty::Int | Ty::Rat => Arc::new(Int64Array::from(vals.iter().map(|v| match v { V::I(z) => Some(*z), _ => None }).collect::<Vec<_>>())),
        Ty::Bool => Arc::new(BooleanArray::from(vals.iter().map(|v| match v { V::B(b) => Some(*b), _ => None }).collect::<Vec<_>>())),
        Ty::Str => Arc::new(StringArray::from(vals.iter().map(|v| match v { V::S(s) => Some(s.clone()), _ => None }).collect::<Vec<_>>())),
    }
}
fn arrow_ty(t: Ty) -> DataType { match t { Ty::Int | Ty::Rat => DataType::Int64, Ty::Bool => DataType::Boolean, Ty::Str => DataType::Utf8 } }

fn register(ctx: &SessionContext, n: usize, t: &Tab) {
    let schema = Arc::new(Schema::new(t.types.iter().enumerate().map(|(i, ty)| Field::new(format!("c{i}"), arrow_ty(*ty), true)).collect::<Vec<_>>()));
    // rows dealt round-robin into `parts` partitions (a partition may stay empty)
    let mut parts: Vec<Vec<RecordBatch>> = vec![];
    for p in 0..t.parts {
        let rows: Vec<&Vec<V>> = t.rows.iter().enumerate().filter(|(i, _)| i % t.parts == p).map(|(_, r)| r).collect();
        let cols: Vec<ArrayRef> = (0..t.types.len()).map(|c| column(t.types[c], &rows.iter().map(|r| &r[c]).collect::<Vec<_>>())).collect();
        parts.push(vec![RecordBatch::try_new(schema.clone(), cols).unwrap()]);
    }
    ctx.register_table(format!("t{n}").as_str(), Arc::new(MemTable::try_new(schema, parts).unwrap())).unwrap();
}

fn cell(a: &ArrayRef, r: usize) -> Result<String, String> {
    if a.is_null(r) { return Ok("null".into()); }
    match a.data_type() {
        DataType::Null => Ok("null".into()),
        DataType::Boolean => Ok(a.as_any().downcast_ref::<BooleanArray>().unwrap().value(r).to_string()),
        DataType::Float64 | DataType::Float32 | DataType::Float16 => {
            let c = cast(a, &DataType::Float64).map_err(|e| e.to_string())?;
            let x = c.as_any().downcast_ref::<Float64Array>().unwrap().value(r);
            if x.is_finite() { Ok(format!("{{\"f\":{:?}}}", x)) } else { Ok(format!("{{\"f\":null,\"text\":\"{:?}\"}}", x)) }
        }
        DataType::Int8 | DataType::Int16 | DataType::Int32 | DataType::Int64 | DataType::UInt8 | DataType::UInt16 | DataType::UInt32 | DataType::UInt64 => {
            let c = cast(a, &DataType::Int64).map_err(|e| e.to_string())?;
            Ok(c.as_any().downcast_ref::<Int64Array>().unwrap().value(r).to_string())
        }
        DataType::Utf8 | DataType::LargeUtf8 | DataType::Utf8View => {
            let c = cast(a, &DataType::Utf8).map_err(|e| e.to_string())?;
            Ok(json_str(c.as_any().downcast_ref::<StringArray>().unwrap().value(r)))
        }
        other => Err(format!("unexpected result column type {other:?}")),
    }
}

async fn exec(ctx: &SessionContext, sql: &str, explain: bool) -> Result<String, String> {
    let df = ctx.sql(sql).await.map_err(|e| format!("plan: {e}"))?;
    if explain {
        let st = ctx.state();
        let lp = df.logical_plan().clone();
        eprintln!("--- logical\n{}", lp.display_indent());
        match st.optimize(&lp) { Ok(p) => eprintln!("--- optimized\n{}", p.display_indent()), Err(e) => eprintln!("optimize error {e}") }
        if let Ok(pp) = st.create_physical_plan(&lp).await { eprintln!("--- physical\n{}", datafusion::physical_plan::displayable(pp.as_ref()).indent(false)); }
    }
    let out = df.collect().await.map_err(|e| format!("exec: {e}"))?;
    let mut rows = vec![];
    for bt in &out {
        for r in 0..bt.num_rows() {
            let mut cs = vec![];
            for c in 0..bt.num_columns() { cs.push(cell(bt.column(c), r)?); }
            rows.push(format!("[{}]", cs.join(",")));
        }
    }
    Ok(format!("[{}]", rows.join(",")))
}

fn tables_json(tabs: &[Tab]) -> String {
    format!("[{}]", tabs.iter().map(|t| format!("{{\"types\":[{}],\"parts\":{},\"rows\":[{}]}}",
        t.types.iter().map(|x| format!("\"{}\"", ty_name(*x))).collect::<Vec<_>>().join(","), t.parts,
        t.rows.iter().map(|r| format!("[{}]", r.iter().map(v_json).collect::<Vec<_>>().join(","))).collect::<Vec<_>>().join(","))).collect::<Vec<_>>().join(","))
}

fn i(z: i64) -> V { V::I(z) }
fn st(x: &str) -> V { V::S(x.to_string()) }
fn bx(e: E) -> Box<E> { Box::new(e) }
fn c0(k: usize) -> E { E::Col(0, k) }
/// Fixed witness corpus: one query per listed known finding of property C01 (known_findings.json), run on every
/// invocation before the generated cases (ids 1000000 + k, stream "witness:<KF>"): (name, tables, query, target_partitions, batch_size)
fn witnesses() -> Vec<(&'static str, Vec<Tab>, Q, usize, usize)> {
    let n = V::Null;
    let t_kf1 = Tab { types: vec![Ty::Int, Ty::Str, Ty::Bool], parts: 1, rows: vec![
        vec![i(2), st(""), n.clone()], vec![i(2), n.clone(), V::B(true)], vec![n.clone(), n.clone(), n.clone()],
        vec![i(3), n.clone(), V::B(true)], vec![i(2), st("b"), V::B(true)]] };
    // SELECT * FROM t0 a WHERE (a.c1 NOT IN (SELECT b.c1 FROM t0 b)) OR (a.c0 = 99)     SQL: no row
    let kf1 = Q::Filter(E::Or(bx(E::InSub(true, bx(c0(1)), Box::new(Q::Project(vec![c0(1)], Box::new(Q::Table(0)))))), bx(E::Cmp("=", bx(c0(0)), bx(E::Lit(i(99), Ty::Int))))), Box::new(Q::Table(0)));
    let t_l = Tab { types: vec![Ty::Int, Ty::Int], parts: 1, rows: vec![vec![i(2), i(0)], vec![i(2), i(1)]] };
    let t_r = Tab { types: vec![Ty::Int, Ty::Int], parts: 1, rows: vec![vec![i(3), i(0)], vec![n.clone(), i(0)], vec![i(2), i(0)], vec![i(-1), i(0)]] };
    // (SELECT c0 FROM t0) EXCEPT ALL (SELECT c0 FROM t1)                                 SQL: {2}
    let kf2 = Q::SetOp(SetOp::Except, true, Box::new(Q::Project(vec![c0(0)], Box::new(Q::Table(0)))), Box::new(Q::Project(vec![c0(0)], Box::new(Q::Table(1)))));
    // SELECT * FROM t0 a WHERE CAST(NULL AS BIGINT) NOT IN (SELECT 1 FROM t1 b)          SQL: no row
    let kf3 = Q::Filter(E::InSub(true, bx(E::Lit(V::Null, Ty::Int)), Box::new(Q::Project(vec![E::Lit(i(1), Ty::Int)], Box::new(Q::Table(1))))), Box::new(Q::Table(0)));
    let t_kf4 = Tab { types: vec![Ty::Int, Ty::Int], parts: 3, rows: vec![
        vec![i(2), n.clone()], vec![i(1), i(3)], vec![i(1), i(1)], vec![i(2), i(1)], vec![i(2), i(2)], vec![i(2), i(1)], vec![i(-1), n.clone()], vec![i(0), i(1)]] };
    // SELECT b.c0 FROM t0 a LEFT JOIN t0 b ON a.c1 = b.c1 AND b.c0 = 0 ORDER BY b.c0 ASC NULLS FIRST      SQL: NULLs first
    let on4 = E::And(bx(E::Cmp("=", bx(c0(1)), bx(c0(3)))), bx(E::Cmp("=", bx(c0(2)), bx(E::Lit(i(0), Ty::Int)))));
    let kf4 = Q::Sort(vec![(c0(0), false, true)], Box::new(Q::Project(vec![c0(2)], Box::new(Q::Join(JK::Left, on4, Box::new(Q::Table(0)), Box::new(Q::Table(0)))))));
    let t5a = Tab { types: vec![Ty::Int, Ty::Int, Ty::Str], parts: 3, rows: vec![
        vec![i(2), i(-1), st("a")], vec![i(2), i(2), st("")], vec![i(2), i(1), n.clone()], vec![n.clone(), i(1), st("b")], vec![i(-1), i(2), n.clone()], vec![i(1), n.clone(), st("a")]] };
    let t5b = Tab { types: vec![Ty::Int, Ty::Int, Ty::Str], parts: 1, rows: vec![
        vec![n.clone(), i(3), st("c")], vec![n.clone(), i(-1), st("a")], vec![n.clone(), i(-1), n.clone()], vec![n.clone(), i(1), st("")]] };
    // SELECT b.c2 FROM t1 a RIGHT JOIN t0 b ON a.c0 = b.c1 WHERE (b.c2 IS DISTINCT FROM 'a') AND (a.c1 IS NOT DISTINCT FROM b.c1)   SQL: no row
    let p5 = E::And(bx(E::Distinct(false, bx(c0(5)), bx(E::Lit(st("a"), Ty::Str)))), bx(E::Distinct(true, bx(c0(1)), bx(c0(4)))));
    let kf5 = Q::Project(vec![c0(5)], Box::new(Q::Filter(p5, Box::new(Q::Join(JK::Right, E::Cmp("=", bx(c0(0)), bx(c0(4))), Box::new(Q::Table(1)), Box::new(Q::Table(0)))))));
    let t6 = Tab { types: vec![Ty::Int, Ty::Str, Ty::Str], parts: 2, rows: vec![
        vec![i(0), st("c"), st("a")], vec![n.clone(), st("c"), st("c")], vec![i(2), n.clone(), n.clone()], vec![i(2), st("a"), n.clone()],
        vec![i(-1), st("a"), n.clone()], vec![i(2), n.clone(), n.clone()], vec![i(2), st("b"), st("a")], vec![n.clone(), st("b"), st("a")]] };
    // SELECT * FROM (SELECT * FROM t0 b WHERE 'b' > b.c2 OR b.c0 < b.c0) a WHERE EXISTS (SELECT d.c0 FROM t0 d WHERE d.c2 = a.c1)
    // target_partitions 3, batch_size 2: intermittently never finishes (all threads parked)
    let sub6 = Q::Project(vec![c0(0)], Box::new(Q::Filter(E::Cmp("=", bx(c0(2)), bx(E::Col(1, 1))), Box::new(Q::Table(0)))));
    let in6 = Q::Filter(E::Or(bx(E::Cmp(">", bx(E::Lit(st("b"), Ty::Str)), bx(c0(2)))), bx(E::Cmp("<", bx(c0(0)), bx(c0(0))))), Box::new(Q::Table(0)));
    let kf6 = Q::Filter(E::Exists(false, Box::new(sub6)), Box::new(in6));
    vec![
        ("KF6", vec![t6], kf6, 3, 2),
        ("KF1", vec![t_kf1.clone()], kf1, 1, 8192),
        ("KF2", vec![t_l.clone(), t_r.clone()], kf2, 2, 8192),
        ("KF3", vec![t_kf1, t_r], kf3, 2, 8192),
        ("KF4", vec![t_kf4], kf4, 1, 3),
        ("KF5", vec![t5a, t5b], kf5, 1, 8192),
    ]
}

enum Attempt { Done(Result<String, String>), Panic(String), Hang }

/// one execution of `sql` over fresh MemTables in a fresh runtime; gives up after `secs` seconds (the engine can dead-lock)
fn attempt(tabs: &[Tab], sql: &str, tp: usize, bs: usize, explain: bool, secs: u64) -> Attempt {
    let rt = tokio::runtime::Builder::new_multi_thread().worker_threads(2).enable_all().build().unwrap();
    let (tx, rx) = std::sync::mpsc::channel();
    let (tabs2, sql2) = (tabs.to_vec(), sql.to_string());
    let h = rt.spawn(async move {
        let ctx = SessionContext::new_with_config(SessionConfig::new().with_target_partitions(tp).with_batch_size(bs));
        for (i, t) in tabs2.iter().enumerate() { register(&ctx, i, t); }
        let r = exec(&ctx, &sql2, explain).await;
        let _ = tx.send(r);
    });
    match rx.recv_timeout(std::time::Duration::from_secs(secs)) {
        Ok(r) => Attempt::Done(r),
        Err(std::sync::mpsc::RecvTimeoutError::Timeout) => { rt.shutdown_background(); Attempt::Hang }
        Err(std::sync::mpsc::RecvTimeoutError::Disconnected) => {
            let msg = match rt.block_on(h) {
                Err(e) if e.is_panic() => { let p = e.into_panic(); p.downcast_ref::<String>().cloned().or_else(|| p.downcast_ref::<&str>().map(|s| s.to_string())).unwrap_or_default() }
                _ => "task ended without a result".to_string(),
            };
            Attempt::Panic(msg)
        }
    }
}

/// physical plan of `sql` (planned only, not executed)
fn plan_text(tabs: &[Tab], sql: &str, tp: usize, bs: usize) -> String {
    let rt = tokio::runtime::Builder::new_multi_thread().worker_threads(2).enable_all().build().unwrap();
    let (tabs2, sql2) = (tabs.to_vec(), sql.to_string());
    let r = rt.block_on(async move {
        tokio::time::timeout(std::time::Duration::from_secs(15), async move {
            let ctx = SessionContext::new_with_config(SessionConfig::new().with_target_partitions(tp).with_batch_size(bs));
            for (i, t) in tabs2.iter().enumerate() { register(&ctx, i, t); }
            let df = ctx.sql(&sql2).await.map_err(|e| e.to_string())?;
            let pp = df.create_physical_plan().await.map_err(|e| e.to_string())?;
            Ok::<String, String>(format!("{}", datafusion::physical_plan::displayable(pp.as_ref()).indent(false)))
        }).await
    });
    rt.shutdown_background();
    match r { Ok(Ok(s)) => s, Ok(Err(e)) => format!("planning failed: {e}"), Err(_) => "planning timed out".into() }
}

const ATTEMPTS: usize = 3;
fn run_case(id: u64, stream: &str, tabs: &[Tab], q: &Q, tp: usize, bs: usize, probe: &str, explain: bool, secs: u64) -> usize {
    let widths: Vec<usize> = tabs.iter().map(|t| t.types.len()).collect();
    let sql = if probe.is_empty() { to_sql(q, &widths) } else { probe.to_string() };
    let qj = q_json(q, &widths);
    let mut hung = 0;
    let mut res = Attempt::Hang;
    for _ in 0..ATTEMPTS {
        res = attempt(tabs, &sql, tp, bs, explain, secs);
        if let Attempt::Hang = res { hung += 1; } else { break; }
    }
    let (out, ok) = match res {
        Attempt::Done(Ok(rows)) => (format!("{{\"rows\":{rows}}}"), true),
        Attempt::Done(Err(e)) => (format!("{{\"err\":{}}}", json_str(&e)), true),
        Attempt::Panic(msg) => (format!("{{\"err\":{}}}", json_str(&format!("panic: {msg}"))), false),
        Attempt::Hang => (format!("{{\"err\":{}}}", json_str(&format!("timeout: the query did not finish within {secs} s in any of {ATTEMPTS} attempts"))), true),
    };
    let plan = if hung > 0 { format!(",\"hung\":{hung},\"hang_secs\":{secs},\"plan\":{}", json_str(&plan_text(tabs, &sql, tp, bs))) } else { String::new() };
    println!("{{\"id\":{id},\"stream\":\"{stream}\",\"tp\":{tp},\"bs\":{bs},\"tables\":{},\"q\":{qj},\"sql\":{},\"out\":{out},\"ok\":{ok}{plan}}}",
        tables_json(tabs), json_str(&sql));
    hung
}

fn main() {
    let args: Vec<String> = std::env::args().collect();
    let seed: u64 = arg(&args, "--seed", "1").parse().unwrap();
    let n: u64 = arg(&args, "--n", "100").parse().unwrap();
    let only: i64 = arg(&args, "--case", "-1").parse().unwrap();
    let explain = args.iter().any(|a| a == "--explain");
    let probe = arg(&args, "--probe", "");
    let secs: u64 = arg(&args, "--timeout", "20").parse().unwrap();
    for (k, (name, tabs, q, tp, bs)) in witnesses().into_iter().enumerate() {
        let id = 1_000_000 + k as u64;
        if only >= 0 && id as i64 != only { continue; }
        // the KF6 witness hangs only intermittently: run it up to 8 times, stop at the first run that hung
        let reps = if name == "KF6" && only < 0 { 8 } else { 1 };
        for _ in 0..reps {
            if run_case(id, &format!("witness:{name}"), &tabs, &q, tp, bs, &probe, explain, secs) > 0 { break; }
        }
    }
    let mut rng = Rng::new(seed);
    for id in 0..n {
        let stream = STREAMS[(id % STREAMS.len() as u64) as usize];
        let tabs = Gen::gen_tables(&mut rng);
        let tp = 1 + rng.below(3) as usize;
        let bs = *rng.pick(&[8192usize, 8192, 2, 3]);
        let (q, widths) = { let mut g = Gen { rng: &mut rng, tabs: tabs.clone() }; let q = g.query(stream); (q, g.tab_widths()) };
        if only >= 0 && id as i64 != only { continue; }
        let _ = widths;
        let _ = run_case(id, stream, &tabs, &q, tp, bs, &probe, explain, secs);
    }
}
