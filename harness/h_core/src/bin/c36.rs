//! C36: physical plans survive protobuf serialisation unchanged.
//! Streams (one JSON object per line, "k" = stream):
//!   op   : fixed witnesses first, then directly built operators covering every variant of the enum-like tables
//!          (HashJoinExec JoinType x PartitionMode x NullEquality (+ filter sides, projection incl. the empty one, fetch),
//!          SymmetricHashJoinExec, AggregateExec modes, SortExec / SortPreservingMerge options x fetch, window frames, limits, repartitioning ...):
//!          physical_plan_to_bytes -> physical_plan_from_bytes; ok = same displayable().indent(true) text, same schema, same rows when executed.
//!          Each case also reports the wire tags observed in the encoded PhysicalPlanNode and the variants read back from the decoded operator
//!          ("obs": table, variant, tag, back) for the correspondence with the generated tables.
//!   plan : physical plans of a SQL corpus and of refsql_gen (C01) queries under several session configurations, over MemTables and parquet
//!          listing tables; same oracle (+ the JSON form).
//!   c36 --seed S --n N
#[path = "../refsql_gen.rs"]
mod refsql_gen;

use std::panic::{catch_unwind, AssertUnwindSafe};
use std::sync::Arc;

use arrow::array::{ArrayRef, BooleanArray, Int64Array, StringArray};
use arrow::compute::SortOptions;
use arrow::datatypes::{DataType, Field, Schema, SchemaRef};
use arrow::record_batch::RecordBatch;
use arrow::util::display::{ArrayFormatter, FormatOptions};
use datafusion::common::{JoinSide, JoinType, NullEquality, ScalarValue};
use datafusion::datasource::memory::MemorySourceConfig;
use datafusion::datasource::MemTable;
use datafusion::logical_expr::{Operator, WindowFrame, WindowFrameBound, WindowFrameUnits, WindowFunctionDefinition};
use datafusion::physical_expr::aggregate::AggregateExprBuilder;
use datafusion::physical_expr::expressions::{binary, col, lit, Column};
use datafusion::physical_expr::{LexOrdering, PhysicalExpr, PhysicalSortExpr};
use datafusion::physical_plan::aggregates::{AggregateExec, AggregateMode, PhysicalGroupBy};
use datafusion::physical_plan::coalesce_partitions::CoalescePartitionsExec;
use datafusion::physical_plan::filter::FilterExec;
use datafusion::physical_plan::joins::utils::{ColumnIndex, JoinFilter};
use datafusion::physical_plan::joins::{CrossJoinExec, HashJoinExec, NestedLoopJoinExec, PartitionMode, SortMergeJoinExec, StreamJoinPartitionMode, SymmetricHashJoinExec};
use datafusion::physical_plan::limit::{GlobalLimitExec, LocalLimitExec};
use datafusion::physical_plan::projection::ProjectionExec;
use datafusion::physical_plan::repartition::RepartitionExec;
use datafusion::physical_plan::sorts::sort::SortExec;
use datafusion::physical_plan::sorts::sort_preserving_merge::SortPreservingMergeExec;
use datafusion::physical_plan::union::UnionExec;
use datafusion::physical_plan::windows::{create_window_expr, BoundedWindowAggExec, WindowAggExec};
use datafusion::physical_plan::{displayable, ExecutionPlan, ExecutionPlanProperties, InputOrderMode, Partitioning};
use datafusion::prelude::*;
use datafusion_proto::bytes::{physical_plan_from_bytes, physical_plan_from_json, physical_plan_to_bytes, physical_plan_to_json};
use datafusion_proto::physical_plan::{AsExecutionPlan, DefaultPhysicalExtensionCodec};
use datafusion_proto::protobuf as pb;
use h_util::{arg, json_str, Rng};
use refsql_gen::*;

/// prefix of at most n bytes that ends on a character boundary
fn cut(s: &str, mut n: usize) -> &str { if n >= s.len() { return s; } while !s.is_char_boundary(n) { n -= 1; } &s[..n] }
fn kind_name(s: &str) -> String { s.chars().take_while(|c| c.is_ascii_alphanumeric() || *c == '_').collect() }
fn dbg_kind<T: std::fmt::Debug>(v: &T) -> String { kind_name(&format!("{v:?}")) }
fn panic_msg(p: Box<dyn std::any::Any + Send>) -> String {
    p.downcast_ref::<String>().cloned().or_else(|| p.downcast_ref::<&str>().map(|s| s.to_string())).unwrap_or_else(|| "panic".into())
}

// ------------------------------------------------------------------------------------------------ inputs
fn left_schema() -> SchemaRef { Arc::new(Schema::new(vec![Field::new("a", DataType::Int64, true), Field::new("b", DataType::Int64, true), Field::new("s", DataType::Utf8, true)])) }
fn right_schema() -> SchemaRef { Arc::new(Schema::new(vec![Field::new("x", DataType::Int64, true), Field::new("y", DataType::Int64, true)])) }
fn left_batches() -> Vec<Vec<RecordBatch>> {
    let b1 = RecordBatch::try_new(left_schema(), vec![
        Arc::new(Int64Array::from(vec![Some(1), Some(2), None, Some(2), Some(5)])) as ArrayRef,
        Arc::new(Int64Array::from(vec![Some(10), None, Some(3), Some(-4), Some(0)])),
        Arc::new(StringArray::from(vec![Some("a"), Some(""), None, Some("ab"), Some("a")]))]).unwrap();
    let b2 = RecordBatch::try_new(left_schema(), vec![
        Arc::new(Int64Array::from(vec![Some(3), None, Some(1)])) as ArrayRef,
        Arc::new(Int64Array::from(vec![Some(7), Some(7), Some(1)])),
        Arc::new(StringArray::from(vec![Some("b"), Some("a"), None]))]).unwrap();
    vec![vec![b1], vec![b2]]
}
fn right_batches() -> Vec<Vec<RecordBatch>> {
    let b1 = RecordBatch::try_new(right_schema(), vec![
        Arc::new(Int64Array::from(vec![Some(1), Some(2), None, Some(4), Some(2)])) as ArrayRef,
        Arc::new(Int64Array::from(vec![Some(5), None, Some(2), Some(4), Some(9)]))]).unwrap();
    vec![vec![b1]]
}
fn left() -> Arc<dyn ExecutionPlan> { MemorySourceConfig::try_new_exec(&left_batches(), left_schema(), None).unwrap() }
fn right() -> Arc<dyn ExecutionPlan> { MemorySourceConfig::try_new_exec(&right_batches(), right_schema(), None).unwrap() }
fn left1() -> Arc<dyn ExecutionPlan> { Arc::new(CoalescePartitionsExec::new(left())) }
fn c(name: &str, s: &SchemaRef) -> Arc<dyn PhysicalExpr> { col(name, s).unwrap() }

fn rows_of(batches: &[RecordBatch]) -> Vec<String> {
    let fo = FormatOptions::default().with_null("NULL");
    let mut rows = vec![];
    for b in batches {
        let fs: Vec<ArrayFormatter> = b.columns().iter().map(|c| ArrayFormatter::try_new(c.as_ref(), &fo).unwrap()).collect();
        for r in 0..b.num_rows() { rows.push(fs.iter().map(|f| f.value(r).to_string()).collect::<Vec<_>>().join("|")); }
    }
    rows
}

// ------------------------------------------------------------------------------------------------ the oracle
struct Out { ok: bool, skipped: Option<String>, why: Option<String>, text: String, bytes: usize, rows: i64, back: Option<Arc<dyn ExecutionPlan>>, node: Option<pb::PhysicalPlanNode>, diff: Option<Vec<(String, String)>> }

async fn check(ctx: &SessionContext, fresh: &SessionContext, plan: &Arc<dyn ExecutionPlan>, exec: bool, ordered: bool) -> Out {
    let text = format!("{}", displayable(plan.as_ref()).indent(true));
    let mut out = Out { ok: true, skipped: None, why: None, text: text.clone(), bytes: 0, rows: -1, back: None, node: None, diff: None };
    let codec = DefaultPhysicalExtensionCodec {};
    out.node = pb::PhysicalPlanNode::try_from_physical_plan(plan.clone(), &codec).ok();
    let bytes = match physical_plan_to_bytes(plan.clone()) { Ok(b) => b, Err(e) => { out.skipped = Some(format!("encoding failed: {e}")); return out; } };
    out.bytes = bytes.len();
    let fail = |o: &mut Out, w: String| { if o.ok { o.ok = false; o.why = Some(w); } };
    let back = match physical_plan_from_bytes(&bytes, fresh.task_ctx().as_ref()) { Ok(b) => b, Err(e) => { fail(&mut out, format!("decoding failed: {e}")); return out; } };
    let t2 = format!("{}", displayable(back.as_ref()).indent(true));
    if t2 != text {
        let (la, lb): (Vec<&str>, Vec<&str>) = (text.lines().collect(), t2.lines().collect());
        if la.len() == lb.len() { out.diff = Some(la.iter().zip(lb.iter()).filter(|(x, y)| x != y).take(12).map(|(x, y)| (x.trim_start().to_string(), y.trim_start().to_string())).collect()); }
        fail(&mut out, format!("displayable().indent(true) differs after the round trip:\n{t2}"));
    }
    if back.schema() != plan.schema() { fail(&mut out, format!("schema differs after the round trip: {:?} vs {:?}", back.schema(), plan.schema())); }
    if back.output_partitioning().partition_count() != plan.output_partitioning().partition_count() { fail(&mut out, "output partition count differs".to_string()); }
    match physical_plan_to_json(plan.clone()) {
        Ok(js) => match physical_plan_from_json(&js, fresh.task_ctx().as_ref()) {
            Ok(b2) => { let t3 = format!("{}", displayable(b2.as_ref()).indent(true)); if t3 != text { fail(&mut out, format!("JSON round trip changes the plan:\n{t3}")); } }
            Err(e) => fail(&mut out, format!("decoding the JSON form failed: {e}")),
        },
        Err(e) => fail(&mut out, format!("binary encoding succeeded but JSON encoding failed: {e}")),
    }
    out.back = Some(back.clone());
    let limited = text.contains("LimitExec") || text.contains("fetch=") || text.contains("TopK");
    if exec && out.ok {
        // a panic of the engine while EXECUTING a plan is not a serialisation matter: it counts as an execution error of that side
        use futures::FutureExt;
        let flat = |r: Result<datafusion::common::Result<Vec<RecordBatch>>, Box<dyn std::any::Any + Send>>| match r { Ok(x) => x, Err(p) => Err(datafusion::common::DataFusionError::Execution(format!("panic: {}", panic_msg(p)))) };
        let r1 = flat(AssertUnwindSafe(datafusion::physical_plan::collect(plan.clone(), ctx.task_ctx())).catch_unwind().await);
        let r2 = flat(AssertUnwindSafe(datafusion::physical_plan::collect(back, fresh.task_ctx())).catch_unwind().await);
        match (r1, r2) {
            (Ok(a), Ok(b)) => {
                let (mut x, mut y) = (rows_of(&a), rows_of(&b));
                out.rows = x.len() as i64;
                if !ordered { x.sort(); y.sort(); }
                // a LIMIT / OFFSET over a sort with ties may legitimately keep different rows on every execution: compare the row count only
                if limited && !ordered { if x.len() != y.len() { fail(&mut out, format!("row counts differ: original {} / decoded {}", x.len(), y.len())); } }
                else if x != y { fail(&mut out, format!("results differ: original {} rows {:?} / decoded {} rows {:?}", x.len(), &x[..x.len().min(6)], y.len(), &y[..y.len().min(6)])); }
            }
            (Err(_), Err(_)) => {}
            (Ok(_), Err(e)) => fail(&mut out, format!("the decoded plan fails to execute: {e}")),
            (Err(e), Ok(_)) => fail(&mut out, format!("the original plan fails to execute but the decoded one runs: {e}")),
        }
    }
    out
}

// ------------------------------------------------------------------------------------------------ observations of enum tags
struct Obs { table: &'static str, variant: String, tag: i64, back: Option<String> }
fn obs_json(o: &[Obs]) -> String {
    format!("[{}]", o.iter().map(|x| format!("{{\"table\":\"{}\",\"variant\":\"{}\",\"tag\":{},\"back\":{}}}", x.table, x.variant, x.tag,
        x.back.as_ref().map(|b| json_str(b)).unwrap_or("null".into()))).collect::<Vec<_>>().join(","))
}
fn diff_json(d: &Option<Vec<(String, String)>>) -> String {
    match d { Some(d) => format!("[{}]", d.iter().map(|(x, y)| format!("[{},{}]", json_str(cut(&x, 1500)), json_str(cut(&y, 1500)))).collect::<Vec<_>>().join(",")), None => "null".into() }
}
fn down<T: ExecutionPlan>(p: &Option<Arc<dyn ExecutionPlan>>) -> Option<&T> { p.as_ref().and_then(|x| x.downcast_ref::<T>()) }

fn observe(plan: &Arc<dyn ExecutionPlan>, out: &Out) -> Vec<Obs> {
    use pb::physical_plan_node::PhysicalPlanType as T;
    let mut v = vec![];
    let Some(node) = &out.node else { return v };
    let a: &dyn ExecutionPlan = plan.as_ref();
    match (node.physical_plan_type.as_ref(), a) {
        (Some(T::HashJoin(n)), a) if a.is::<HashJoinExec>() => {
            let o = a.downcast_ref::<HashJoinExec>().unwrap();
            let b = down::<HashJoinExec>(&out.back);
            v.push(Obs { table: "PJoinType", variant: dbg_kind(o.join_type()), tag: n.join_type as i64, back: b.map(|x| dbg_kind(x.join_type())) });
            v.push(Obs { table: "PartitionMode", variant: dbg_kind(o.partition_mode()), tag: n.partition_mode as i64, back: b.map(|x| dbg_kind(x.partition_mode())) });
            v.push(Obs { table: "PNullEquality", variant: dbg_kind(&o.null_equality()), tag: n.null_equality as i64, back: b.map(|x| dbg_kind(&x.null_equality())) });
            if let (Some(f), Some(pf)) = (o.filter(), n.filter.as_ref()) {
                for (i, ci) in f.column_indices().iter().enumerate() {
                    let bk = b.and_then(|x| x.filter()).and_then(|bf| bf.column_indices().get(i).map(|z| dbg_kind(&z.side)));
                    v.push(Obs { table: "PJoinSide", variant: dbg_kind(&ci.side), tag: pf.column_indices[i].side as i64, back: bk });
                }
            }
        }
        (Some(T::SymmetricHashJoin(n)), a) if a.is::<SymmetricHashJoinExec>() => {
            let o = a.downcast_ref::<SymmetricHashJoinExec>().unwrap();
            let b = down::<SymmetricHashJoinExec>(&out.back);
            v.push(Obs { table: "SymJoinType", variant: dbg_kind(o.join_type()), tag: n.join_type as i64, back: b.map(|x| dbg_kind(x.join_type())) });
            v.push(Obs { table: "SymNullEquality", variant: dbg_kind(&o.null_equality()), tag: n.null_equality as i64, back: b.map(|x| dbg_kind(&x.null_equality())) });
            v.push(Obs { table: "StreamJoinPartitionMode", variant: dbg_kind(&o.partition_mode()), tag: n.partition_mode as i64, back: b.map(|x| dbg_kind(&x.partition_mode())) });
            if let (Some(f), Some(pf)) = (o.filter(), n.filter.as_ref()) {
                for (i, ci) in f.column_indices().iter().enumerate() {
                    let bk = b.and_then(|x| x.filter()).and_then(|bf| bf.column_indices().get(i).map(|z| dbg_kind(&z.side)));
                    v.push(Obs { table: "SymJoinSide", variant: dbg_kind(&ci.side), tag: pf.column_indices[i].side as i64, back: bk });
                }
            }
        }
        (Some(T::Aggregate(n)), a) if a.is::<AggregateExec>() => {
            let o = a.downcast_ref::<AggregateExec>().unwrap();
            let b = down::<AggregateExec>(&out.back);
            v.push(Obs { table: "AggregateMode", variant: dbg_kind(o.mode()), tag: n.mode as i64, back: b.map(|x| dbg_kind(x.mode())) });
        }
        (Some(T::Window(n)), a) => {
            let frames = |p: &dyn ExecutionPlan| -> Vec<Arc<WindowFrame>> {
                if let Some(w) = p.downcast_ref::<BoundedWindowAggExec>() { w.window_expr().iter().map(|e| e.get_window_frame().clone()).collect() }
                else if let Some(w) = p.downcast_ref::<WindowAggExec>() { w.window_expr().iter().map(|e| e.get_window_frame().clone()).collect() } else { vec![] }
            };
            let of = frames(a);
            let bf = out.back.as_ref().map(|b| frames(b.as_ref())).unwrap_or_default();
            for (i, f) in of.iter().enumerate() {
                let Some(pf) = n.window_expr.get(i).and_then(|w| w.window_frame.as_ref()) else { continue };
                v.push(Obs { table: "PWindowFrameUnits", variant: dbg_kind(&f.units), tag: pf.window_frame_units as i64, back: bf.get(i).map(|x| dbg_kind(&x.units)) });
                if let Some(sb) = &pf.start_bound { v.push(Obs { table: "PWindowFrameBound", variant: dbg_kind(&f.start_bound), tag: sb.window_frame_bound_type as i64, back: bf.get(i).map(|x| dbg_kind(&x.start_bound)) }); }
                if let Some(pb::window_frame::EndBound::Bound(eb)) = &pf.end_bound { v.push(Obs { table: "PWindowFrameBound", variant: dbg_kind(&f.end_bound), tag: eb.window_frame_bound_type as i64, back: bf.get(i).map(|x| dbg_kind(&x.end_bound)) }); }
            }
        }
        _ => {}
    }
    v
}


fn olist(p: Option<&[usize]>) -> String { match p { Some(v) => format!("[{}]", v.iter().map(|x| x.to_string()).collect::<Vec<_>>().join(",")), None => "null".into() } }
fn oint(p: Option<usize>) -> String { p.map(|x| x.to_string()).unwrap_or("null".into()) }
/// the option block of a HashJoinExec: operator, wire node, decoded operator
fn observe_hj(plan: &Arc<dyn ExecutionPlan>, out: &Out) -> String {
    use pb::physical_plan_node::PhysicalPlanType as T;
    let (Some(node), Some(o)) = (&out.node, plan.downcast_ref::<HashJoinExec>()) else { return "null".into() };
    let Some(T::HashJoin(n)) = node.physical_plan_type.as_ref() else { return "null".into() };
    let side = |x: &HashJoinExec| format!("{{\"jt\":\"{:?}\",\"pm\":\"{:?}\",\"ne\":\"{:?}\",\"na\":{},\"proj\":{},\"fetch\":{}}}", x.join_type(), x.partition_mode(), x.null_equality(),
        x.null_aware, olist(x.projection.as_deref()), oint(x.fetch()));
    let b = down::<HashJoinExec>(&out.back).map(side).unwrap_or("null".into());
    format!("{{\"op\":{},\"wire\":{{\"jt\":{},\"pm\":{},\"ne\":{},\"na\":{},\"proj\":[{}],\"fetch\":{}}},\"back\":{b}}}", side(o), n.join_type, n.partition_mode, n.null_equality, n.null_aware,
        n.projection.iter().map(|x| x.to_string()).collect::<Vec<_>>().join(","), n.fetch.map(|x| x.to_string()).unwrap_or("null".into()))
}
/// sort options of the top SortPreservingMergeExec / SortExec: operator, wire flags, decoded operator
fn observe_sort(plan: &Arc<dyn ExecutionPlan>, out: &Out) -> String {
    use pb::physical_plan_node::PhysicalPlanType as T;
    let Some(node) = &out.node else { return "[]".into() };
    fn find_sort(p: &Arc<dyn ExecutionPlan>) -> Option<Vec<SortOptions>> {
        if let Some(s) = p.downcast_ref::<SortExec>() { return Some(s.expr().iter().map(|e| e.options).collect()); }
        p.children().first().and_then(|c| find_sort(c))
    }
    fn find_node(n: &pb::PhysicalPlanNode) -> Option<&pb::SortExecNode> {
        match n.physical_plan_type.as_ref()? { T::Sort(s) => Some(s), T::SortPreservingMerge(m) => find_node(m.input.as_ref()?), T::Merge(m) => find_node(m.input.as_ref()?), _ => None }
    }
    let (Some(o), Some(w)) = (find_sort(plan), find_node(node)) else { return "[]".into() };
    let b = out.back.as_ref().and_then(find_sort).unwrap_or_default();
    let mut v = vec![];
    for (i, so) in o.iter().enumerate() {
        let Some(pb::physical_expr_node::ExprType::Sort(ps)) = w.expr.get(i).and_then(|e| e.expr_type.as_ref()) else { continue };
        let Some(bo) = b.get(i) else { continue };
        v.push(format!("{{\"desc\":{},\"nf\":{},\"w_asc\":{},\"w_nf\":{},\"b_desc\":{},\"b_nf\":{}}}", so.descending, so.nulls_first, ps.asc, ps.nulls_first, bo.descending, bo.nulls_first));
    }
    format!("[{}]", v.join(","))
}

// ------------------------------------------------------------------------------------------------ operator cases
const JOIN_TYPES: [JoinType; 10] = [JoinType::Inner, JoinType::Left, JoinType::Right, JoinType::Full, JoinType::LeftSemi, JoinType::RightSemi,
    JoinType::LeftAnti, JoinType::RightAnti, JoinType::LeftMark, JoinType::RightMark];

fn join_filter(sides: &[JoinSide]) -> JoinFilter {
    // a.b > y  (+ an intermediate column without a side when asked for)
    let mut fields = vec![Field::new("b", DataType::Int64, true), Field::new("y", DataType::Int64, true)];
    let mut idx = vec![ColumnIndex { index: 1, side: sides[0] }, ColumnIndex { index: 1, side: sides[1] }];
    if sides.len() > 2 { fields.push(Field::new("z", DataType::Int64, true)); idx.push(ColumnIndex { index: 0, side: sides[2] }); }
    let schema = Arc::new(Schema::new(fields));
    let e = binary(c("b", &schema), Operator::Gt, c("y", &schema), &schema).unwrap();
    JoinFilter::new(e, idx, schema)
}

fn sort_exprs(s: &SchemaRef, spec: &[(&str, bool, bool)]) -> LexOrdering {
    LexOrdering::new(spec.iter().map(|(n, desc, nf)| PhysicalSortExpr { expr: c(n, s), options: SortOptions { descending: *desc, nulls_first: *nf } }).collect::<Vec<_>>()).unwrap()
}

fn sum_agg(ctx: &SessionContext, schema: &SchemaRef, colname: &str) -> Arc<datafusion::physical_expr::aggregate::AggregateFunctionExpr> {
    let f = ctx.state().aggregate_functions().get("sum").cloned().unwrap();
    Arc::new(AggregateExprBuilder::new(f, vec![c(colname, schema)]).schema(schema.clone()).alias(format!("sum({colname})")).build().unwrap())
}

/// (name, known-finding key, plan, execute?, compare in order?)
type Case = (String, &'static str, Arc<dyn ExecutionPlan>, bool, bool);

fn op_cases(ctx: &SessionContext) -> Vec<Case> {
    let mut v: Vec<Case> = vec![];
    let (ls, rs) = (left_schema(), right_schema());
    let on = || vec![(c("a", &ls), c("x", &rs))];
    let mut push = |name: String, r: datafusion::common::Result<Arc<dyn ExecutionPlan>>, exec: bool, ordered: bool| {
        match r { Ok(p) => v.push((name, "", p, exec, ordered)), Err(e) => eprintln!("cannot build {name}: {e}") }
    };
    // ---- HashJoinExec: JoinType x PartitionMode x NullEquality
    for jt in JOIN_TYPES {
        for pm in [PartitionMode::CollectLeft, PartitionMode::Partitioned, PartitionMode::Auto] {
            for ne in [NullEquality::NullEqualsNothing, NullEquality::NullEqualsNull] {
                let (l, r): (Arc<dyn ExecutionPlan>, Arc<dyn ExecutionPlan>) = match pm {
                    PartitionMode::Partitioned => (Arc::new(RepartitionExec::try_new(left(), Partitioning::Hash(vec![c("a", &ls)], 2)).unwrap()),
                                                   Arc::new(RepartitionExec::try_new(right(), Partitioning::Hash(vec![c("x", &rs)], 2)).unwrap())),
                    _ => (left1(), right()),
                };
                let r = HashJoinExec::try_new(l, r, on(), None, &jt, None, pm, ne, false).map(|x| Arc::new(x) as Arc<dyn ExecutionPlan>);
                push(format!("HashJoinExec {jt:?} {pm:?} {ne:?}"), r, !matches!(pm, PartitionMode::Auto), false);
            }
        }
    }
    // filter sides, projections (None / empty / some), fetch
    for (k, sides) in [vec![JoinSide::Left, JoinSide::Right], vec![JoinSide::Right, JoinSide::Left], vec![JoinSide::Left, JoinSide::Right, JoinSide::None]].into_iter().enumerate() {
        let f = if sides[0] == JoinSide::Right { let mut f = join_filter(&sides); f = JoinFilter::new(f.expression().clone(), vec![ColumnIndex { index: 1, side: JoinSide::Right }, ColumnIndex { index: 1, side: JoinSide::Left }], f.schema().clone()); f } else { join_filter(&sides) };
        let r = HashJoinExec::try_new(left1(), right(), on(), Some(f), &JoinType::Inner, None, PartitionMode::CollectLeft, NullEquality::NullEqualsNothing, false).map(|x| Arc::new(x) as Arc<dyn ExecutionPlan>);
        push(format!("HashJoinExec filter sides #{k} {sides:?}"), r, sides.len() == 2, false);
    }
    for proj in [Some(vec![]), Some(vec![0usize]), Some(vec![4, 1]), Some(vec![0, 1, 2, 3, 4])] {
        let r = HashJoinExec::try_new(left1(), right(), on(), None, &JoinType::Inner, proj.clone(), PartitionMode::CollectLeft, NullEquality::NullEqualsNothing, false).map(|x| Arc::new(x) as Arc<dyn ExecutionPlan>);
        push(format!("HashJoinExec projection {proj:?}"), r, true, false);
    }
    for fetch in [Some(0usize), Some(2), Some(1 << 40)] {
        let r = HashJoinExec::try_new(left1(), right(), on(), None, &JoinType::Left, None, PartitionMode::CollectLeft, NullEquality::NullEqualsNothing, false)
            .map(|x| x.with_fetch(fetch).unwrap_or_else(|| Arc::new(x) as Arc<dyn ExecutionPlan>));
        push(format!("HashJoinExec fetch {fetch:?}"), r, false, false);
    }
    let r = HashJoinExec::try_new(left1(), right(), on(), None, &JoinType::LeftAnti, None, PartitionMode::CollectLeft, NullEquality::NullEqualsNothing, true).map(|x| Arc::new(x) as Arc<dyn ExecutionPlan>);
    push("HashJoinExec null_aware LeftAnti".into(), r, true, false);
    // ---- SymmetricHashJoinExec
    for jt in JOIN_TYPES {
        for (ne, mode) in [(NullEquality::NullEqualsNothing, StreamJoinPartitionMode::SinglePartition), (NullEquality::NullEqualsNull, StreamJoinPartitionMode::Partitioned)] {
            let (l, r): (Arc<dyn ExecutionPlan>, Arc<dyn ExecutionPlan>) = match mode {
                StreamJoinPartitionMode::Partitioned => (Arc::new(RepartitionExec::try_new(left(), Partitioning::Hash(vec![c("a", &ls)], 2)).unwrap()),
                                                         Arc::new(RepartitionExec::try_new(right(), Partitioning::Hash(vec![c("x", &rs)], 2)).unwrap())),
                _ => (left1(), right()),
            };
            let f = if matches!(jt, JoinType::Inner | JoinType::Full) { Some(join_filter(&[JoinSide::Left, JoinSide::Right])) } else { None };
            let r = SymmetricHashJoinExec::try_new(l, r, on(), f, &jt, ne, None, None, mode).map(|x| Arc::new(x) as Arc<dyn ExecutionPlan>);
            push(format!("SymmetricHashJoinExec {jt:?} {ne:?} {mode:?}"), r, true, false);
        }
    }
    let r = SymmetricHashJoinExec::try_new(left1(), right(), on(), Some(join_filter(&[JoinSide::Left, JoinSide::Right, JoinSide::None])), &JoinType::Inner, NullEquality::NullEqualsNothing, None, None, StreamJoinPartitionMode::SinglePartition).map(|x| Arc::new(x) as Arc<dyn ExecutionPlan>);
    push("SymmetricHashJoinExec filter with a side-less column".into(), r, false, false);
    // ---- other joins
    for jt in JOIN_TYPES {
        let r = NestedLoopJoinExec::try_new(left1(), right(), Some(join_filter(&[JoinSide::Left, JoinSide::Right])), &jt, None).map(|x| Arc::new(x) as Arc<dyn ExecutionPlan>);
        push(format!("NestedLoopJoinExec {jt:?}"), r, true, false);
        if !matches!(jt, JoinType::RightMark) {
            let sl: Arc<dyn ExecutionPlan> = Arc::new(SortExec::new(sort_exprs(&ls, &[("a", false, false)]), left1()));
            let sr: Arc<dyn ExecutionPlan> = Arc::new(SortExec::new(sort_exprs(&rs, &[("x", false, false)]), right()));
            let r = SortMergeJoinExec::try_new(sl, sr, on(), None, jt, vec![SortOptions { descending: false, nulls_first: false }], NullEquality::NullEqualsNull).map(|x| Arc::new(x) as Arc<dyn ExecutionPlan>);
            push(format!("SortMergeJoinExec {jt:?}"), r, true, false);
        }
    }
    push("CrossJoinExec".into(), Ok(Arc::new(CrossJoinExec::new(left1(), right()))), true, false);
    // ---- sorts: options x fetch x preserve_partitioning
    for (desc, nf) in [(false, false), (false, true), (true, false), (true, true)] {
        for fetch in [None, Some(1usize), Some(3)] {
            for pp in [false, true] {
                let s = SortExec::new(sort_exprs(&ls, &[("a", desc, nf), ("b", !desc, nf)]), left()).with_preserve_partitioning(pp).with_fetch(fetch);
                let plan: Arc<dyn ExecutionPlan> = if pp { Arc::new(SortPreservingMergeExec::new(sort_exprs(&ls, &[("a", desc, nf), ("b", !desc, nf)]), Arc::new(s)).with_fetch(fetch)) } else { Arc::new(CoalescePartitionsExec::new(Arc::new(s))) };
                push(format!("SortExec desc={desc} nulls_first={nf} fetch={fetch:?} preserve_partitioning={pp}"), Ok(plan), true, pp);
            }
        }
    }
    // ---- aggregates: every mode
    let gb = PhysicalGroupBy::new_single(vec![(c("s", &ls), "s".to_string())]);
    let partial = || AggregateExec::try_new(AggregateMode::Partial, gb.clone(), vec![sum_agg(ctx, &ls, "a")], vec![None], left(), ls.clone()).map(Arc::new);
    for mode in [AggregateMode::Partial, AggregateMode::Final, AggregateMode::FinalPartitioned, AggregateMode::Single, AggregateMode::SinglePartitioned, AggregateMode::PartialReduce] {
        let r: datafusion::common::Result<Arc<dyn ExecutionPlan>> = (|| {
            Ok(match mode {
                AggregateMode::Partial => partial()? as Arc<dyn ExecutionPlan>,
                AggregateMode::Single => Arc::new(AggregateExec::try_new(mode, gb.clone(), vec![sum_agg(ctx, &ls, "a")], vec![None], left1(), ls.clone())?),
                AggregateMode::SinglePartitioned => {
                    let inp: Arc<dyn ExecutionPlan> = Arc::new(RepartitionExec::try_new(left(), Partitioning::Hash(vec![c("s", &ls)], 2))?);
                    Arc::new(AggregateExec::try_new(mode, gb.clone(), vec![sum_agg(ctx, &ls, "a")], vec![None], inp, ls.clone())?)
                }
                _ => {
                    let p = partial()?;
                    let ps = p.schema();
                    let fgb = PhysicalGroupBy::new_single(vec![(c("s", &ps), "s".to_string())]);
                    let inp: Arc<dyn ExecutionPlan> = match mode {
                        AggregateMode::FinalPartitioned => Arc::new(RepartitionExec::try_new(p, Partitioning::Hash(vec![c("s", &ps)], 2))?),
                        AggregateMode::Final => Arc::new(CoalescePartitionsExec::new(p)),
                        _ => p,
                    };
                    Arc::new(AggregateExec::try_new(mode, fgb, vec![sum_agg(ctx, &ls, "a")], vec![None], inp, ls.clone())?)
                }
            })
        })();
        push(format!("AggregateExec {mode:?}"), r, true, false);
    }
    // ---- windows: every frame unit x bound kind
    let st = ctx.state();
    let sum = WindowFunctionDefinition::AggregateUDF(st.aggregate_functions().get("sum").cloned().unwrap());
    let rn = WindowFunctionDefinition::WindowUDF(st.window_functions().get("row_number").cloned().unwrap());
    let u = |n: u64| ScalarValue::UInt64(Some(n));
    use WindowFrameBound as B;
    let mut frames: Vec<WindowFrame> = vec![];
    for units in [WindowFrameUnits::Rows, WindowFrameUnits::Groups] {
        for (s, e) in [(B::Preceding(u(2)), B::CurrentRow), (B::CurrentRow, B::Following(u(3))), (B::Preceding(ScalarValue::UInt64(None)), B::Following(ScalarValue::UInt64(None))),
                       (B::Preceding(u(5)), B::Preceding(u(1))), (B::Following(u(1)), B::Following(u(4))), (B::CurrentRow, B::CurrentRow)] {
            frames.push(WindowFrame::new_bounds(units, s, e));
        }
    }
    frames.push(WindowFrame::new_bounds(WindowFrameUnits::Range, B::Preceding(ScalarValue::Int64(Some(10))), B::Following(ScalarValue::Int64(Some(5)))));
    frames.push(WindowFrame::new_bounds(WindowFrameUnits::Range, B::Preceding(ScalarValue::Int64(None)), B::CurrentRow));
    frames.push(WindowFrame::new(Some(true)));
    for (i, fr) in frames.into_iter().enumerate() {
        let sorted: Arc<dyn ExecutionPlan> = Arc::new(SortExec::new(sort_exprs(&ls, &[("s", false, true), ("a", false, true)]), left1()));
        let ob = vec![PhysicalSortExpr { expr: c("a", &ls), options: SortOptions { descending: false, nulls_first: true } }];
        let bounded = !fr.end_bound.is_unbounded();
        let r: datafusion::common::Result<Arc<dyn ExecutionPlan>> = (|| {
            let w = create_window_expr(&sum, format!("w{i}"), &[c("b", &ls)], &[c("s", &ls)], &ob, Arc::new(fr.clone()), ls.clone(), i % 2 == 1, false, None)?;
            Ok(if bounded { Arc::new(BoundedWindowAggExec::try_new(vec![w], sorted, InputOrderMode::Sorted, true)?) as Arc<dyn ExecutionPlan> }
               else { Arc::new(WindowAggExec::try_new(vec![w], sorted, true)?) })
        })();
        push(format!("window sum frame {fr:?}"), r, true, false);
    }
    for iom in [InputOrderMode::Linear, InputOrderMode::Sorted, InputOrderMode::PartiallySorted(vec![0])] {
        let r: datafusion::common::Result<Arc<dyn ExecutionPlan>> = (|| {
            let sorted: Arc<dyn ExecutionPlan> = Arc::new(SortExec::new(sort_exprs(&ls, &[("s", false, true), ("a", false, true)]), left1()));
            let parts: Vec<Arc<dyn PhysicalExpr>> = if matches!(iom, InputOrderMode::PartiallySorted(_)) { vec![c("s", &ls), c("b", &ls)] } else { vec![c("s", &ls)] };
            let w = create_window_expr(&rn, "rn".into(), &[], &parts, &[], Arc::new(WindowFrame::new_bounds(WindowFrameUnits::Rows, B::Preceding(ScalarValue::UInt64(None)), B::CurrentRow)), ls.clone(), false, false, None)?;
            Ok(Arc::new(BoundedWindowAggExec::try_new(vec![w], sorted, iom.clone(), true)?) as Arc<dyn ExecutionPlan>)
        })();
        push(format!("BoundedWindowAggExec row_number {iom:?}"), r, true, false);
    }
    // ---- limits, filter, projection, repartitioning, union
    for (skip, fetch) in [(0usize, Some(2usize)), (1, None), (2, Some(0)), (0, None)] {
        push(format!("GlobalLimitExec skip={skip} fetch={fetch:?}"), Ok(Arc::new(GlobalLimitExec::new(right(), skip, fetch))), true, false);
    }
    push("LocalLimitExec 1".into(), Ok(Arc::new(LocalLimitExec::new(right(), 1))), true, false);
    let pred = binary(c("a", &ls), Operator::Gt, lit(1i64), &ls).unwrap();
    push("FilterExec".into(), FilterExec::try_new(pred.clone(), left()).map(|x| Arc::new(x) as Arc<dyn ExecutionPlan>), true, false);
    push("FilterExec with selectivity".into(), FilterExec::try_new(pred.clone(), left()).and_then(|x| x.with_default_selectivity(37)).map(|x| Arc::new(x) as Arc<dyn ExecutionPlan>), true, false);
    push("ProjectionExec".into(), ProjectionExec::try_new(vec![(binary(c("a", &ls), Operator::Plus, c("b", &ls), &ls).unwrap(), "a+b".to_string()), (c("s", &ls), "S".to_string())], left()).map(|x| Arc::new(x) as Arc<dyn ExecutionPlan>), true, false);
    for p in [Partitioning::RoundRobinBatch(3), Partitioning::Hash(vec![c("a", &ls), c("s", &ls)], 4), Partitioning::UnknownPartitioning(2)] {
        let name = format!("RepartitionExec {p:?}");
        push(name, RepartitionExec::try_new(left(), p).map(|x| Arc::new(x) as Arc<dyn ExecutionPlan>), true, false);
    }
    push("RepartitionExec preserve order".into(), RepartitionExec::try_new(Arc::new(SortExec::new(sort_exprs(&ls, &[("a", true, true)]), left()).with_preserve_partitioning(true)), Partitioning::RoundRobinBatch(3)).map(|x| Arc::new(x.with_preserve_order()) as Arc<dyn ExecutionPlan>), true, false);
    push("UnionExec".into(), UnionExec::try_new(vec![left(), left1()]), true, false);
    let _ = Column::new("a", 0);
    v
}

fn witness_cases(_ctx: &SessionContext) -> Vec<Case> { vec![] }

async fn run_op(ctx: &SessionContext, id: usize, case: &Case) {
    let (name, key, plan, exec, ordered) = case;
    let fresh = SessionContext::new();
    let out = check(ctx, &fresh, plan, *exec, *ordered).await;
    let obs = observe(plan, &out);
    let mut t = out.text.clone(); if t.len() > 1500 { let k = cut(&t, 1500).len(); t.truncate(k); t.push_str("..."); }
    let (hj, so) = (observe_hj(plan, &out), observe_sort(plan, &out));
    println!("{{\"k\":\"op\",\"id\":{id},\"name\":{},\"key\":{},\"hj\":{hj},\"sort\":{so},\"diff\":{},\"bytes\":{},\"rows\":{},\"skipped\":{},\"why\":{},\"plan\":{},\"obs\":{},\"ok\":{}}}",
        json_str(name), json_str(key), diff_json(&out.diff), out.bytes, out.rows, out.skipped.as_ref().map(|s| json_str(cut(&s, 400))).unwrap_or("null".into()),
        out.why.as_ref().map(|s| json_str(cut(&s, 1500))).unwrap_or("null".into()), json_str(&t), obs_json(&obs), out.ok);
}

// ------------------------------------------------------------------------------------------------ SQL plans
fn column(t: Ty, vals: &[&V]) -> ArrayRef {
    match t {
        Ty::Int | Ty::Rat => Arc::new(Int64Array::from(vals.iter().map(|v| match v { V::I(z) => Some(*z), _ => None }).collect::<Vec<_>>())),
        Ty::Bool => Arc::new(BooleanArray::from(vals.iter().map(|v| match v { V::B(b) => Some(*b), _ => None }).collect::<Vec<_>>())),
        Ty::Str => Arc::new(StringArray::from(vals.iter().map(|v| match v { V::S(s) => Some(s.clone()), _ => None }).collect::<Vec<_>>())),
    }
}
fn arrow_ty(t: Ty) -> DataType { match t { Ty::Int | Ty::Rat => DataType::Int64, Ty::Bool => DataType::Boolean, Ty::Str => DataType::Utf8 } }
fn tab_schema(t: &Tab) -> SchemaRef { Arc::new(Schema::new(t.types.iter().enumerate().map(|(i, ty)| Field::new(format!("c{i}"), arrow_ty(*ty), true)).collect::<Vec<_>>())) }
fn tab_parts(t: &Tab) -> Vec<Vec<RecordBatch>> {
    let schema = tab_schema(t);
    (0..t.parts).map(|p| {
        let rows: Vec<&Vec<V>> = t.rows.iter().enumerate().filter(|(i, _)| i % t.parts == p).map(|(_, r)| r).collect();
        let cols: Vec<ArrayRef> = (0..t.types.len()).map(|c| column(t.types[c], &rows.iter().map(|r| &r[c]).collect::<Vec<_>>())).collect();
        vec![RecordBatch::try_new(schema.clone(), cols).unwrap()]
    }).collect()
}
fn write_table(dir: &str, name: &str, t: &Tab) -> String {
    let tdir = format!("{dir}/{name}");
    std::fs::create_dir_all(&tdir).unwrap();
    for (p, bs) in tab_parts(t).into_iter().enumerate() {
        let f = std::fs::File::create(format!("{tdir}/part-{p}.parquet")).unwrap();
        let mut w = datafusion::parquet::arrow::ArrowWriter::try_new(f, tab_schema(t), None).unwrap();
        w.write(&bs[0]).unwrap();
        w.close().unwrap();
    }
    tdir
}

#[derive(Clone)]
struct Conf { name: &'static str, tp: usize, parquet: bool, prefer_hash_join: bool, repartition_joins: bool, hash_join_threshold: Option<usize>, dyn_filters: bool }
const CONFS: [Conf; 5] = [
    Conf { name: "mem tp=1", tp: 1, parquet: false, prefer_hash_join: true, repartition_joins: true, hash_join_threshold: None, dyn_filters: true },
    Conf { name: "mem tp=3 partitioned joins", tp: 3, parquet: false, prefer_hash_join: true, repartition_joins: true, hash_join_threshold: Some(0), dyn_filters: true },
    Conf { name: "mem tp=2 sort-merge joins", tp: 2, parquet: false, prefer_hash_join: false, repartition_joins: true, hash_join_threshold: None, dyn_filters: false },
    Conf { name: "parquet tp=2", tp: 2, parquet: true, prefer_hash_join: true, repartition_joins: true, hash_join_threshold: None, dyn_filters: true },
    Conf { name: "parquet tp=4 no join repartition", tp: 4, parquet: true, prefer_hash_join: true, repartition_joins: false, hash_join_threshold: None, dyn_filters: true },
];

async fn mk_ctx(conf: &Conf, names: &[String], tabs: &[Tab], dir: &str, tag: &str) -> SessionContext {
    let mut cfg = SessionConfig::new().with_target_partitions(conf.tp).with_repartition_joins(conf.repartition_joins);
    cfg.options_mut().optimizer.prefer_hash_join = conf.prefer_hash_join;
    cfg.options_mut().optimizer.enable_dynamic_filter_pushdown = conf.dyn_filters;
    if let Some(t) = conf.hash_join_threshold { cfg.options_mut().optimizer.hash_join_single_partition_threshold = t; cfg.options_mut().optimizer.hash_join_single_partition_threshold_rows = t; }
    let ctx = SessionContext::new_with_config(cfg);
    for (n, t) in names.iter().zip(tabs) {
        if conf.parquet {
            let d = write_table(dir, &format!("{tag}_{n}"), t);
            ctx.register_parquet(n.as_str(), d.as_str(), ParquetReadOptions::default()).await.unwrap();
        } else {
            ctx.register_table(n.as_str(), Arc::new(MemTable::try_new(tab_schema(t), tab_parts(t)).unwrap())).unwrap();
        }
    }
    ctx
}

fn corpus() -> Vec<&'static str> {
    // over a(c0 BIGINT, c1 BIGINT, c2 VARCHAR, c3 BOOLEAN) and b(c0 BIGINT, c1 BIGINT, c2 VARCHAR)
    vec![
        "SELECT c0, sum(c1) OVER (PARTITION BY c3 ORDER BY c0, c1 ROWS BETWEEN 1 PRECEDING AND 1 FOLLOWING) FROM a",
        "SELECT c0, count(*) OVER (ORDER BY c0 RANGE BETWEEN 2 PRECEDING AND CURRENT ROW), row_number() OVER (ORDER BY c0 DESC NULLS LAST, c1) FROM a",
        "SELECT c0, min(c1) OVER (ORDER BY c0 GROUPS BETWEEN UNBOUNDED PRECEDING AND 1 FOLLOWING), lag(c1, 1) IGNORE NULLS OVER (ORDER BY c0, c1) FROM a",
        "SELECT first_value(c1) OVER (PARTITION BY c2 ORDER BY c0), last_value(c1) OVER (PARTITION BY c2 ORDER BY c0 ROWS BETWEEN UNBOUNDED PRECEDING AND UNBOUNDED FOLLOWING) FROM a",
        "SELECT unnest(make_array(c0, c1, 7)) AS u, c2 FROM a",
        "WITH RECURSIVE r AS (SELECT 1 AS n UNION ALL SELECT n + 1 FROM r WHERE n < 5) SELECT * FROM r",
        "SELECT a.c0, b.c1 FROM a JOIN b ON a.c0 = b.c0",
        "SELECT a.c0, b.c1 FROM a LEFT JOIN b ON a.c0 = b.c0 AND a.c1 > b.c1",
        "SELECT a.c0, b.c1 FROM a RIGHT JOIN b ON a.c0 = b.c0",
        "SELECT a.c0, b.c1 FROM a FULL JOIN b ON a.c0 = b.c0 WHERE a.c2 IS DISTINCT FROM b.c2",
        "SELECT a.c0, b.c1 FROM a JOIN b ON a.c0 IS NOT DISTINCT FROM b.c0",
        "SELECT a.c0 FROM a, b WHERE a.c1 < b.c1",
        "SELECT c0 FROM a WHERE c0 IN (SELECT c0 FROM b)",
        "SELECT c0 FROM a WHERE c0 NOT IN (SELECT c1 FROM b)",
        "SELECT c0 FROM a WHERE EXISTS (SELECT 1 FROM b WHERE b.c0 = a.c0 AND b.c1 > a.c1)",
        "SELECT c0 FROM a WHERE NOT EXISTS (SELECT 1 FROM b WHERE b.c0 = a.c0)",
        "SELECT c0, (SELECT max(c1) FROM b WHERE b.c0 = a.c0) FROM a",
        "SELECT c0, (SELECT max(c1) FROM b) FROM a",
        "SELECT * FROM a CROSS JOIN b",
        "SELECT a.c0 FROM a LEFT SEMI JOIN b ON a.c0 = b.c0",
        "SELECT a.c0 FROM a LEFT ANTI JOIN b ON a.c0 = b.c0",
        "SELECT b.c1 FROM a RIGHT SEMI JOIN b ON a.c0 = b.c0",
        "SELECT b.c1 FROM a RIGHT ANTI JOIN b ON a.c0 = b.c0",
        "SELECT c2, count(*), sum(c1), avg(c1), min(c0), max(c0), count(DISTINCT c1) FROM a GROUP BY c2 HAVING count(*) > 0 ORDER BY c2 NULLS FIRST",
        "SELECT c2, c3, sum(c0) FROM a GROUP BY ROLLUP (c2, c3)",
        "SELECT c2, c3, sum(c0), grouping(c2) FROM a GROUP BY GROUPING SETS ((c2), (c3), ())",
        "SELECT c2, max(c0) FROM a GROUP BY c2 ORDER BY max(c0) DESC LIMIT 2",
        "SELECT c0 FROM a UNION SELECT c0 FROM b",
        "SELECT c0 FROM a UNION ALL SELECT c1 FROM b",
        "SELECT c3 AS r0 FROM a UNION ALL SELECT column1 FROM (VALUES (TRUE), (FALSE))",
        "SELECT (c0 <> CAST(NULL AS BIGINT)) AS r0, c1 IS NULL AS r1 FROM a UNION ALL SELECT v.c0 AS r0, v.c0 AS r1 FROM (VALUES (TRUE, 3), (TRUE, 2)) AS v(c0, c1)",
        "SELECT c0 FROM a INTERSECT SELECT c0 FROM b",
        "SELECT c0 FROM a EXCEPT SELECT c0 FROM b",
        "SELECT DISTINCT c2 FROM a",
        "SELECT DISTINCT ON (c2) c2, c0 FROM a ORDER BY c2, c0 DESC",
        "SELECT c0 FROM a ORDER BY c0 DESC NULLS FIRST LIMIT 3 OFFSET 1",
        "SELECT c0, c1 FROM a ORDER BY c1 NULLS FIRST, c0 DESC",
        "SELECT c0 FROM a ORDER BY c0 LIMIT 2",
        "SELECT c0 FROM a LIMIT 0",
        "SELECT a.c0, b.c1 FROM a JOIN b ON a.c0 = b.c0 ORDER BY b.c1 DESC LIMIT 2",
        "SELECT CASE WHEN c0 > 1 THEN 'big' WHEN c0 IS NULL THEN NULL ELSE 'small' END, CAST(c0 AS INT), TRY_CAST(c2 AS DOUBLE), c0 BETWEEN 1 AND 2, c2 LIKE 'a%', c2 ILIKE '_b', -c0, NOT c3 FROM a",
        "SELECT c0 IN (1, 2, NULL), c0 NOT IN (3), c3 IS TRUE, c3 IS NOT FALSE, c3 IS UNKNOWN, c2 || 'z', c0 & 3, c0 | 1, c0 ^ 2, c0 << 1, c0 >> 1, c0 % 2, c0 / 2 FROM a",
        "SELECT abs(c0), coalesce(c2, 'none'), nullif(c0, 1), date_trunc('day', TIMESTAMP '2024-01-02 03:04:05'), INTERVAL '1' DAY, DATE '2020-02-29', 1.5e0, DECIMAL '1.25' FROM a",
        "SELECT * FROM (VALUES (1, 'a'), (2, NULL)) AS v(k, t)",
        "SELECT array_agg(c0 ORDER BY c1 DESC), string_agg(c2, ',' ORDER BY c0, c1) FROM a",
        "SELECT sum(c0) FILTER (WHERE c3), count(*) FILTER (WHERE c1 > 0) FROM a",
        "SELECT c2 ~ '^a', c2 !~* 'B' FROM a",
        "SELECT * FROM generate_series(1, 5)",
        "EXPLAIN SELECT c0 FROM a",
        "EXPLAIN ANALYZE SELECT c0 FROM a",
        "COPY (SELECT c0, c2 FROM a) TO '/tmp/c36_copy_out.csv' STORED AS CSV OPTIONS ('format.delimiter' ';')",
        "COPY (SELECT c0 FROM a) TO '/tmp/c36_copy_out.parquet' STORED AS PARQUET",
        "COPY (SELECT c0 FROM a) TO '/tmp/c36_copy_out.json' STORED AS JSON",
        "INSERT INTO b SELECT c0, c1, c2 FROM a",
    ]
}

fn fixed_tables() -> Vec<Tab> {
    let n = V::Null;
    let i = |z: i64| V::I(z);
    let s = |x: &str| V::S(x.to_string());
    vec![
        Tab { types: vec![Ty::Int, Ty::Int, Ty::Str, Ty::Bool], parts: 2, rows: vec![
            vec![i(1), i(10), s("a"), V::B(true)], vec![i(2), n.clone(), s("ab"), V::B(false)], vec![i(2), i(-3), n.clone(), n.clone()], vec![n.clone(), i(4), s(""), V::B(true)],
            vec![i(3), i(0), s("a"), V::B(false)], vec![i(5), i(7), s("b"), n.clone()], vec![i(1), i(1), s("ab"), V::B(true)]] },
        Tab { types: vec![Ty::Int, Ty::Int, Ty::Str], parts: 1, rows: vec![
            vec![i(1), i(5), s("a")], vec![i(2), n.clone(), s("b")], vec![n.clone(), i(2), n.clone()], vec![i(4), i(4), s("")], vec![i(2), i(9), s("ab")]] },
    ]
}

async fn sql_case(conf: Conf, names: Vec<String>, tabs: Vec<Tab>, dir: String, id: String, stream: String, sql: String) {
    let ctx = mk_ctx(&conf, &names, &tabs, &dir, &format!("{id}_o")).await;
    let fresh = mk_ctx(&conf, &names, &tabs, &dir, &format!("{id}_o")).await;
    let head = format!("\"k\":\"plan\",\"id\":\"{id}\",\"stream\":\"{stream}\",\"conf\":\"{}\",\"sql\":{}", conf.name, json_str(&sql));
    let df = match ctx.sql(&sql).await { Ok(d) => d, Err(e) => { println!("{{{head},\"plan_err\":{},\"nodes\":[],\"ok\":true}}", json_str(cut(&e.to_string(), 300))); return; } };
    let exec = !(sql.starts_with("COPY") || sql.starts_with("INSERT") || sql.starts_with("EXPLAIN"));
    let plan = match df.create_physical_plan().await { Ok(p) => p, Err(e) => { println!("{{{head},\"plan_err\":{},\"nodes\":[],\"ok\":true}}", json_str(cut(&e.to_string(), 300))); return; } };
    let ordered = false;   // SQL results are compared as multisets (ties make the order of equal keys unspecified)
    let out = check(&ctx, &fresh, &plan, exec, ordered).await;
    let mut kinds: Vec<String> = out.text.lines().map(|l| kind_name(l.trim_start())).collect(); kinds.sort(); kinds.dedup();
    let mut t = out.text.clone(); if t.len() > 12000 { let k = cut(&t, 12000).len(); t.truncate(k); t.push_str("..."); }
    println!("{{{head},\"plan_err\":null,\"nodes\":[{}],\"diff\":{},\"bytes\":{},\"rows\":{},\"skipped\":{},\"why\":{},\"plan\":{},\"ok\":{}}}",
        kinds.iter().map(|k| format!("\"{k}\"")).collect::<Vec<_>>().join(","), diff_json(&out.diff), out.bytes, out.rows,
        out.skipped.as_ref().map(|s| json_str(cut(&s, 400))).unwrap_or("null".into()),
        out.why.as_ref().map(|s| json_str(cut(&s, 12000))).unwrap_or("null".into()), if out.ok && out.skipped.is_none() { "null".to_string() } else { json_str(&t) }, out.ok);
}

fn run_sql_case(conf: Conf, names: Vec<String>, tabs: Vec<Tab>, dir: String, id: String, stream: String, sql: String) {
    let rt = tokio::runtime::Builder::new_multi_thread().worker_threads(2).enable_all().build().unwrap();
    let (id2, stream2, sql2, cn) = (id.clone(), stream.clone(), sql.clone(), conf.name);
    let h = rt.spawn(async move { tokio::time::timeout(std::time::Duration::from_secs(30), sql_case(conf, names, tabs, dir, id2, stream2, sql2)).await });
    let head = format!("\"k\":\"plan\",\"id\":\"{id}\",\"stream\":\"{stream}\",\"conf\":\"{cn}\",\"sql\":{}", json_str(&sql));
    match rt.block_on(h) {
        Ok(Ok(())) => {}
        Ok(Err(_)) => println!("{{{head},\"plan_err\":\"timeout: case did not finish in 30 s\",\"nodes\":[],\"ok\":true}}"),
        Err(e) => {
            let msg = if e.is_panic() { panic_msg(e.into_panic()) } else { "task cancelled".into() };
            println!("{{{head},\"plan_err\":null,\"nodes\":[],\"bytes\":0,\"rows\":-1,\"skipped\":null,\"why\":{},\"plan\":null,\"ok\":false}}", json_str(&format!("panic: {msg}")));
        }
    }
    rt.shutdown_background();
}

fn main() {
    let args: Vec<String> = std::env::args().collect();
    let seed: u64 = arg(&args, "--seed", "1").parse().unwrap();
    let n: u64 = arg(&args, "--n", "40").parse().unwrap();
    let dir = arg(&args, "--dir", &format!("/tmp/c36_{}", std::process::id()));
    if std::env::var("HARNESS_BACKTRACE").is_err() { std::panic::set_hook(Box::new(|_| {})); }
    let _ = std::fs::remove_dir_all(&dir);
    std::fs::create_dir_all(&dir).unwrap();

    // operators
    {
        let rt = tokio::runtime::Builder::new_multi_thread().worker_threads(2).enable_all().build().unwrap();
        let ctx = SessionContext::new();
        let mut cases = witness_cases(&ctx);
        cases.extend(op_cases(&ctx));
        for (id, case) in cases.iter().enumerate() {
            let r = catch_unwind(AssertUnwindSafe(|| rt.block_on(async { tokio::time::timeout(std::time::Duration::from_secs(30), run_op(&ctx, id, case)).await })));
            match r {
                Ok(Ok(())) => {}
                Ok(Err(_)) => println!("{{\"k\":\"op\",\"id\":{id},\"name\":{},\"key\":\"\",\"bytes\":0,\"rows\":-1,\"skipped\":\"timeout\",\"why\":null,\"plan\":\"\",\"obs\":[],\"ok\":true}}", json_str(&case.0)),
                Err(p) => println!("{{\"k\":\"op\",\"id\":{id},\"name\":{},\"key\":\"\",\"bytes\":0,\"rows\":-1,\"skipped\":null,\"why\":{},\"plan\":\"\",\"obs\":[],\"ok\":false}}", json_str(&case.0), json_str(&format!("panic: {}", panic_msg(p)))),
            }
        }
        rt.shutdown_background();
    }
    // SQL corpus under every configuration
    let ft = fixed_tables();
    let fnames = vec!["a".to_string(), "b".to_string()];
    for (k, sql) in corpus().into_iter().enumerate() {
        for (ci, conf) in CONFS.iter().enumerate() {
            run_sql_case(conf.clone(), fnames.clone(), ft.clone(), dir.clone(), format!("corpus-{k}-{ci}"), "corpus".into(), sql.to_string());
        }
    }
    // C01 generator
    let mut rng = Rng::new(seed);
    for cid in 0..n {
        let stream = STREAMS[(cid % STREAMS.len() as u64) as usize];
        let tabs = Gen::gen_tables(&mut rng);
        let conf = CONFS[rng.below(CONFS.len() as u64) as usize].clone();
        let (q, widths) = { let mut g = Gen { rng: &mut rng, tabs: tabs.clone() }; let q = g.query(stream); (q, g.tab_widths()) };
        let sql = to_sql(&q, &widths);
        let names: Vec<String> = (0..tabs.len()).map(|i| format!("t{i}")).collect();
        run_sql_case(conf, names, tabs, dir.clone(), format!("gen-{cid}"), stream.to_string(), sql);
    }
    let _ = std::fs::remove_dir_all(&dir);
}
