fn main() { let _ = datafusion_proto::bytes::physical_plan_to_bytes; println!("placeholder"); }
