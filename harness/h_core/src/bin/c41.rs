//! C41: bound query parameters behave like the equivalent literals.
//! Takes the C01 query stream (refsql_gen, same seeds -> same queries), replaces a random subset of the literal
//! occurrences (and LIMIT / OFFSET counts) by placeholders, and executes on the REAL engine
//!   lit      the literal SQL text                                              ctx.sql(lit).collect()
//!   list     positional placeholders $1..$k + DataFrame::with_param_values(ParamValues::List) (exact types, typed NULLs)
//!   coerce   the same with coercible values: Int32 for BIGINT, Utf8View for VARCHAR, untyped NULL
//!   map      named placeholders $pa1.. + ParamValues::Map
//!   prepare  PREPARE p(<types>) AS <sql>; EXECUTE p(<values>)
//!   infer    PREPARE p AS <sql> (types inferred); EXECUTE p(<values>)
//!   short    positional list with the last value missing: must be rejected
//! One JSON line per case: tables, literal query JSON `q`, parameterized query JSON `pq` (placeholder k = the string
//! literal "@@Pk@@" / the LIMIT or OFFSET count 9000000000+k), parameter values, the SQL texts, every variant's outcome,
//! and "ok" = the direct oracle: every variant returns the same bag of rows as the literal text (an error iff the literal
//! text errors); a differing top-k under ORDER BY .. LIMIT is left to the reference ("topk": true).
//!   c41 --seed S --n N [--case ID] [--timeout SECS]
#[path = "../refsql_gen.rs"]
mod refsql_gen;
#[path = "../refsql_run.rs"]
mod refsql_run;

use std::collections::HashMap;

use datafusion::common::{ParamValues, ScalarValue};
use h_util::{arg, json_str, Rng};
use refsql_gen::*;
use refsql_run::*;

#[derive(Clone, Debug)]
struct Param { k: usize, v: V, ty: Ty, sites: Vec<String> }

struct Inst<'a> { rng: &'a mut Rng, all: bool, skip: Vec<usize>, params: Vec<Param>, ctx: Vec<&'static str>, depth: usize, nsites: usize }

const LIM_BASE: u64 = 9_000_000_000;

impl<'a> Inst<'a> {
    fn site(&self, kind: &str) -> String {
        let mut s = self.ctx.last().map(|x| x.to_string()).unwrap_or_else(|| "top".into());
        if !kind.is_empty() { s = format!("{s}/{kind}"); }
        if self.depth > 0 { s = format!("subquery/{s}"); }
        s
    }
    /// decide whether the literal (v, ty) at this site becomes a placeholder; returns its index
    fn choose(&mut self, v: &V, ty: Ty, kind: &str) -> Option<usize> {
        self.nsites += 1;
        if self.all && self.skip.contains(&(self.nsites - 1)) { return None; }
        if !(self.all || self.rng.chance(1, 2)) { return None; }
        let site = self.site(kind);
        if !self.all && self.rng.chance(1, 3) {
            // reuse a placeholder that already carries the same value (a placeholder may occur several times)
            if let Some(p) = self.params.iter_mut().find(|p| p.v == *v && p.ty == ty) { p.sites.push(site); return Some(p.k); }
        }
        let k = self.params.len() + 1;
        self.params.push(Param { k, v: v.clone(), ty, sites: vec![site] });
        Some(k)
    }
    fn e(&mut self, e: &mut E, kind: &'static str) {
        match e {
            E::Col(..) => {}
            E::Lit(v, t) => { if let Some(k) = self.choose(&v.clone(), *t, kind) { *e = E::Lit(V::S(format!("@@P{k}@@")), Ty::Str); } }
            E::Arith(_, a, b) | E::Cmp(_, a, b) | E::And(a, b) | E::Or(a, b) | E::Distinct(_, a, b) | E::Nullif(a, b) => { self.e(a, kind); self.e(b, kind); }
            E::Not(a) | E::IsNull(_, a) => self.e(a, kind),
            E::Between(_, a, lo, hi) => { self.e(a, kind); self.e(lo, "between"); self.e(hi, "between"); }
            E::InList(_, a, l) => { self.e(a, kind); for x in l.iter_mut() { self.e(x, "inlist"); } }
            E::Case(ws, els) => { for (w, t) in ws.iter_mut() { self.e(w, "case"); self.e(t, "case"); } if let Some(x) = els { self.e(x, "case"); } }
            E::Coalesce(l) => for x in l.iter_mut() { self.e(x, kind); },
            E::Scalar(q) | E::Exists(_, q) => { self.depth += 1; self.q(q); self.depth -= 1; }
            E::InSub(_, a, q) => { self.e(a, kind); self.depth += 1; self.q(q); self.depth -= 1; }
        }
    }
    fn with<F: FnOnce(&mut Self)>(&mut self, c: &'static str, f: F) { self.ctx.push(c); f(self); self.ctx.pop(); }
    fn q(&mut self, q: &mut Q) {
        match q {
            Q::Table(_) | Q::Values(..) => {}
            Q::Filter(p, q1) => { self.with("where", |s| s.e(p, "")); self.q(q1); }
            Q::Project(es, q1) => { self.with("select", |s| for x in es.iter_mut() { s.e(x, ""); }); self.q(q1); }
            Q::Join(k, on, l, r) => { if *k != JK::Cross { self.with("join_on", |s| s.e(on, "")); } self.q(l); self.q(r); }
            Q::Semi(_, on, l, r) => { self.with("join_on", |s| s.e(on, "")); self.q(l); self.q(r); }
            Q::Group(ks, aggs, h, q1) => {
                self.with("group_key", |s| for x in ks.iter_mut() { s.e(x, ""); });
                self.with("agg_arg", |s| for (a, x) in aggs.iter_mut() { if *a != Agg::CountStar { s.e(x, ""); } });
                if let Some(h) = h { self.with("having", |s| s.e(h, "")); }
                self.q(q1);
            }
            Q::Distinct(q1) => self.q(q1),
            Q::SetOp(_, _, l, r) => { self.q(l); self.q(r); }
            Q::Sort(ks, q1) => { self.with("order_by", |s| for (x, _, _) in ks.iter_mut() { s.e(x, ""); }); self.q(q1); }
            Q::Limit(off, lim, q1) => {
                self.ctx.push("limit");
                if let Some(n) = lim { if let Some(k) = self.choose(&V::I(*n as i64), Ty::Int, "limit") { *n = LIM_BASE + k as u64; } }
                if let Some(k) = self.choose(&V::I(*off as i64), Ty::Int, "offset") { *off = LIM_BASE + k as u64; }
                self.ctx.pop();
                self.q(q1);
            }
        }
    }
}

/// SQL text of the instrumented query with placeholder k written as name(k)
fn placeholder_sql(pq: &Q, widths: &[usize], nparams: usize, name: &dyn Fn(usize) -> String) -> String {
    let mut s = to_sql(pq, widths);
    for k in (1..=nparams).rev() {
        s = s.replace(&format!("'@@P{k}@@'"), &name(k));
        s = s.replace(&format!("LIMIT {} ", LIM_BASE + k as u64), &format!("LIMIT {} ", name(k)));
        s = s.replace(&format!("OFFSET {}", LIM_BASE + k as u64), &format!("OFFSET {}", name(k)));
    }
    s
}

fn scalar(v: &V, t: Ty, coerce: bool) -> ScalarValue {
    match (v, t) {
        (V::Null, _) if coerce => ScalarValue::Null,
        (V::Null, Ty::Int) | (V::Null, Ty::Rat) => ScalarValue::Int64(None),
        (V::Null, Ty::Str) => ScalarValue::Utf8(None),
        (V::Null, Ty::Bool) => ScalarValue::Boolean(None),
        (V::I(z), _) => if coerce { ScalarValue::Int32(Some(*z as i32)) } else { ScalarValue::Int64(Some(*z)) },
        (V::S(s), _) => if coerce { ScalarValue::Utf8View(Some(s.clone())) } else { ScalarValue::Utf8(Some(s.clone())) },
        (V::B(b), _) => ScalarValue::Boolean(Some(*b)),
    }
}

type Res = Result<(Vec<String>, Vec<(String, String)>), (String, String)>;

async fn run_literal(tabs: Vec<Tab>, tp: usize, bs: usize, sql: String) -> Res {
    let ctx = new_ctx(&tabs, tp, bs);
    let df = ctx.sql(&sql).await.map_err(|e| ("plan".to_string(), e.to_string()))?;
    collect_df(df).await
}
async fn run_params(tabs: Vec<Tab>, tp: usize, bs: usize, sql: String, pv: ParamValues) -> Res {
    let ctx = new_ctx(&tabs, tp, bs);
    let df = ctx.sql(&sql).await.map_err(|e| ("plan".to_string(), e.to_string()))?;
    let df = df.with_param_values(pv).map_err(|e| ("bind".to_string(), e.to_string()))?;
    collect_df(df).await
}
async fn run_prepare(tabs: Vec<Tab>, tp: usize, bs: usize, prep: String, exec: String) -> Res {
    let ctx = new_ctx(&tabs, tp, bs);
    let df = ctx.sql(&prep).await.map_err(|e| ("prepare".to_string(), e.to_string()))?;
    df.collect().await.map_err(|e| ("prepare".to_string(), e.to_string()))?;
    let df = ctx.sql(&exec).await.map_err(|e| ("bind".to_string(), e.to_string()))?;
    collect_df(df).await
}

fn is_topk(q: &Q) -> bool { matches!(q, Q::Limit(_, _, inner) if matches!(**inner, Q::Sort(..))) }

fn i(z: i64) -> V { V::I(z) }
fn st(x: &str) -> V { V::S(x.to_string()) }
fn bx(e: E) -> Box<E> { Box::new(e) }
fn c0(k: usize) -> E { E::Col(0, k) }
fn li(z: i64) -> E { E::Lit(i(z), Ty::Int) }

/// Fixed witness corpus (ids 1000000 + k): every literal of the query becomes its own placeholder, except the listed sites
/// (ordinal numbers in walk order).  KF1..KF3: one witness per finding proposed for known_findings.json (property C41).
fn witnesses() -> Vec<(&'static str, Vec<Tab>, Q, Vec<usize>)> {
    let n = V::Null;
    let t0 = Tab { types: vec![Ty::Int, Ty::Str, Ty::Bool], parts: 2, rows: vec![
        vec![i(1), st("a"), V::B(true)], vec![i(2), st("b"), n.clone()], vec![i(3), n.clone(), V::B(false)], vec![n.clone(), st("c"), V::B(true)], vec![i(2), st("a"), V::B(false)]] };
    let t1 = Tab { types: vec![Ty::Int, Ty::Int], parts: 1, rows: vec![vec![i(1), i(10)], vec![i(2), n.clone()], vec![n.clone(), i(30)], vec![i(2), i(20)]] };
    // W1  SELECT c0 + $1, CASE WHEN c1 = $2 THEN $3 ELSE $4 END FROM t0 WHERE c0 IN ($5, $6) ORDER BY 1 LIMIT $7 OFFSET $8
    let w1 = Q::Limit(0, Some(2), Box::new(Q::Sort(vec![(c0(0), false, false), (c0(1), false, true)], Box::new(Q::Project(vec![
        E::Arith("+", bx(c0(0)), bx(li(10))),
        E::Case(vec![(E::Cmp("=", bx(c0(1)), bx(E::Lit(st("a"), Ty::Str))), li(1))], Some(bx(li(0))))],
        Box::new(Q::Filter(E::InList(false, bx(c0(0)), vec![li(1), li(2)]), Box::new(Q::Table(0)))))))));
    // W2  placeholders inside IN / scalar subqueries and on both sides of a join
    let sub = Q::Project(vec![c0(0)], Box::new(Q::Filter(E::Cmp(">=", bx(c0(1)), bx(li(20))), Box::new(Q::Table(1)))));
    let w2 = Q::Filter(E::And(bx(E::InSub(false, bx(c0(0)), Box::new(sub))), bx(E::Cmp("<", bx(c0(3)), bx(li(3))))),
        Box::new(Q::Join(JK::Left, E::And(bx(E::Cmp("=", bx(c0(0)), bx(c0(3)))), bx(E::Cmp(">", bx(c0(4)), bx(li(5))))),
            Box::new(Q::Filter(E::Cmp("<>", bx(c0(1)), bx(E::Lit(st("c"), Ty::Str))), Box::new(Q::Table(0)))), Box::new(Q::Table(1)))));
    // W3  NULL parameters: c0 = $1 (NULL), COALESCE(c1, $2), NOT IN ($3 NULL, 1)
    let w3 = Q::Project(vec![E::Coalesce(vec![c0(1), E::Lit(st("z"), Ty::Str)]), E::Cmp("=", bx(c0(0)), bx(E::Lit(n.clone(), Ty::Int)))],
        Box::new(Q::Filter(E::Or(bx(E::InList(true, bx(c0(0)), vec![E::Lit(n.clone(), Ty::Int), li(1)])), bx(E::IsNull(false, bx(c0(1))))), Box::new(Q::Table(0)))));
    // KF1  SELECT count(*), sum(c1) FROM t1 HAVING (($1 NOT BETWEEN $2 AND $3) AND $4)       $4 = NULL
    let kf1 = Q::Group(vec![], vec![(Agg::CountStar, li(1)), (Agg::Sum, c0(1))],
        Some(E::And(bx(E::Between(true, bx(li(2)), bx(li(2)), bx(li(2)))), bx(E::Lit(n.clone(), Ty::Bool)))), Box::new(Q::Table(1)));
    // KF2  (SELECT COALESCE($1, $2, $3) FROM t0) EXCEPT (SELECT COALESCE('a', CAST(NULL AS VARCHAR)) FROM t1)
    let kf2 = Q::SetOp(SetOp::Except, false,
        Box::new(Q::Project(vec![E::Coalesce(vec![E::Lit(st("b"), Ty::Str), E::Lit(st("a"), Ty::Str), E::Lit(st("a"), Ty::Str)])], Box::new(Q::Table(0)))),
        Box::new(Q::Project(vec![E::Coalesce(vec![E::Lit(st("a"), Ty::Str), E::Lit(n.clone(), Ty::Str)])], Box::new(Q::Table(1)))));
    // KF3  SELECT * FROM t0 WHERE ($1 <= $2) OR (c0 <> c0)      PREPARE p AS .. infers type Null for $1, $2
    let kf3 = Q::Filter(E::Or(bx(E::Cmp("<=", bx(li(2)), bx(li(-1)))), bx(E::Cmp("<>", bx(c0(0)), bx(c0(0))))), Box::new(Q::Table(0)));
    vec![("KF1", vec![t0.clone(), t1.clone()], kf1, vec![]), ("KF2", vec![t0.clone(), t1.clone()], kf2, vec![3, 4]), ("KF3", vec![t0.clone()], kf3, vec![]),
         ("W1", vec![t0.clone()], w1, vec![]), ("W2", vec![t0.clone(), t1], w2, vec![]), ("W3", vec![t0], w3, vec![])]
}

fn run_case(id: u64, stream: &str, tabs: &[Tab], q: &Q, tp: usize, bs: usize, prng: &mut Rng, all: bool, skip: &[usize], secs: u64) {
    let widths: Vec<usize> = tabs.iter().map(|t| t.types.len()).collect();
    let mut pq = q.clone();
    let (params, nsites) = { let mut ins = Inst { rng: prng, all, skip: skip.to_vec(), params: vec![], ctx: vec![], depth: 0, nsites: 0 }; ins.q(&mut pq); (ins.params, ins.nsites) };
    let np = params.len();
    let lit_sql = to_sql(q, &widths);
    let pos_sql = placeholder_sql(&pq, &widths, np, &|k| format!("${k}"));
    let nam_sql = placeholder_sql(&pq, &widths, np, &|k| format!("$pa{k}"));
    let types_sql = params.iter().map(|p| ty_sql(p.ty)).collect::<Vec<_>>().join(", ");
    let vals_sql = params.iter().map(|p| v_sql(&p.v, p.ty)).collect::<Vec<_>>().join(", ");
    let prep_sql = if np > 0 { format!("PREPARE p({types_sql}) AS {pos_sql}") } else { format!("PREPARE p AS {pos_sql}") };
    let infer_sql = format!("PREPARE p AS {pos_sql}");
    let exec_sql = if np > 0 { format!("EXECUTE p({vals_sql})") } else { "EXECUTE p".to_string() };

    let mut outs: Vec<(&'static str, Out, usize)> = vec![];
    let tv = tabs.to_vec();
    { let (t, s) = (tv.clone(), lit_sql.clone()); let (o, h) = run_job(secs, || { let (t, s) = (t.clone(), s.clone()); move || run_literal(t, tp, bs, s) }); outs.push(("lit", o, h)); }
    for (name, coerce) in [("list", false), ("coerce", true)] {
        let pv: Vec<ScalarValue> = params.iter().map(|p| scalar(&p.v, p.ty, coerce)).collect();
        let (t, s) = (tv.clone(), pos_sql.clone());
        let (o, h) = run_job(secs, || { let (t, s, pv) = (t.clone(), s.clone(), pv.clone()); move || run_params(t, tp, bs, s, ParamValues::from(pv)) });
        outs.push((name, o, h));
    }
    {
        let pv: HashMap<String, ScalarValue> = params.iter().map(|p| (format!("pa{}", p.k), scalar(&p.v, p.ty, false))).collect();
        let (t, s) = (tv.clone(), nam_sql.clone());
        let (o, h) = run_job(secs, || { let (t, s, pv) = (t.clone(), s.clone(), pv.clone()); move || run_params(t, tp, bs, s, ParamValues::from(pv)) });
        outs.push(("map", o, h));
    }
    for (name, prep) in [("prepare", prep_sql.clone()), ("infer", infer_sql.clone())] {
        let (t, p, x) = (tv.clone(), prep.clone(), exec_sql.clone());
        let (o, h) = run_job(secs, || { let (t, p, x) = (t.clone(), p.clone(), x.clone()); move || run_prepare(t, tp, bs, p, x) });
        outs.push((name, o, h));
    }
    if np > 0 {
        let pv: Vec<ScalarValue> = params.iter().take(np - 1).map(|p| scalar(&p.v, p.ty, false)).collect();
        let (t, s) = (tv.clone(), pos_sql.clone());
        let (o, h) = run_job(secs, || { let (t, s, pv) = (t.clone(), s.clone(), pv.clone()); move || run_params(t, tp, bs, s, ParamValues::from(pv)) });
        outs.push(("short", o, h));
    }

    // ---- direct oracle
    let lit = outs[0].1.clone();
    let topk = is_topk(q);
    let mut ok = true;
    let mut diffs: Vec<String> = vec![];
    let mut topk_diff = false;
    for (name, o, _) in outs.iter().skip(1) {
        if *name == "short" {
            // a missing value must be rejected when binding (never executed with a default)
            match o { Out::Err(..) | Out::Hang => {} _ => { ok = false; diffs.push("short: a missing parameter value was not rejected".into()); } }
            continue;
        }
        match (&lit, o) {
            (_, Out::Hang) | (Out::Hang, _) => {}
            (_, Out::Panic(m)) => { ok = false; diffs.push(format!("{name}: panic {m}")); }
            (Out::Panic(_), _) => {}
            (Out::Rows(a, _), Out::Rows(b, _)) => {
                if bag(a) != bag(b) { if topk && a.len() == b.len() { topk_diff = true; diffs.push(format!("{name}: different top-k")); } else { ok = false; diffs.push(format!("{name}: rows differ")); } }
            }
            (Out::Err(..), Out::Err(..)) => {}
            (Out::Rows(..), Out::Err(stage, e)) => { ok = false; diffs.push(format!("{name}: error at {stage} where the literal text succeeds: {}", e.chars().take(160).collect::<String>())); }
            (Out::Err(_, e), Out::Rows(..)) => { ok = false; diffs.push(format!("{name}: succeeds where the literal text fails: {}", e.chars().take(160).collect::<String>())); }
        }
    }
    if let Out::Panic(m) = &lit { ok = false; diffs.push(format!("lit: panic {m}")); }
    let hung: usize = outs.iter().map(|(_, _, h)| *h).sum();
    println!("{{\"id\":{id},\"stream\":\"{stream}\",\"tp\":{tp},\"bs\":{bs},\"tables\":{},\"q\":{},\"pq\":{},\"nsites\":{nsites},\"params\":[{}],\"sql\":{{\"lit\":{},\"list\":{},\"map\":{},\"prepare\":{},\"execute\":{}}},\"outs\":{{{}}},\"topk\":{topk_diff},\"hung\":{hung},\"diffs\":[{}],\"ok\":{ok}}}",
        tables_json(tabs), q_json(q, &widths), q_json(&pq, &widths),
        params.iter().map(|p| format!("{{\"k\":{},\"v\":{},\"ty\":\"{}\",\"sites\":[{}]}}", p.k, v_json(&p.v), ty_name(p.ty), p.sites.iter().map(|s| json_str(s)).collect::<Vec<_>>().join(","))).collect::<Vec<_>>().join(","),
        json_str(&lit_sql), json_str(&pos_sql), json_str(&nam_sql), json_str(&prep_sql), json_str(&exec_sql),
        outs.iter().map(|(n, o, _)| format!("\"{n}\":{}", o.json())).collect::<Vec<_>>().join(","),
        diffs.iter().map(|d| json_str(d)).collect::<Vec<_>>().join(","));
}

fn main() {
    let args: Vec<String> = std::env::args().collect();
    let seed: u64 = arg(&args, "--seed", "1").parse().unwrap();
    let n: u64 = arg(&args, "--n", "100").parse().unwrap();
    let only: i64 = arg(&args, "--case", "-1").parse().unwrap();
    let secs: u64 = arg(&args, "--timeout", "20").parse().unwrap();
    let mut prng = Rng::new(seed ^ 0x4341_3431);
    for (k, (name, tabs, q, skip)) in witnesses().into_iter().enumerate() {
        let id = 1_000_000 + k as u64;
        if only >= 0 && id as i64 != only { continue; }
        run_case(id, &format!("witness:{name}"), &tabs, &q, 2, 8192, &mut prng, true, &skip, secs);
    }
    // the query stream is C01's (same generator, same consumption of the PRNG); placeholders are chosen by a second PRNG
    let mut rng = Rng::new(seed);
    for id in 0..n {
        let stream = STREAMS[(id % STREAMS.len() as u64) as usize];
        let tabs = Gen::gen_tables(&mut rng);
        let tp = 1 + rng.below(3) as usize;
        let bs = *rng.pick(&[8192usize, 8192, 2, 3]);
        let q = { let mut g = Gen { rng: &mut rng, tabs: tabs.clone() }; g.query(stream) };
        let mut crng = Rng::new(prng.next() ^ id);
        if only >= 0 && id as i64 != only { continue; }
        run_case(id, stream, &tabs, &q, tp, bs, &mut crng, false, &[], secs);
    }
}
