//! C04 -- expression simplification never changes an expression's value.
//!
//! Generates well-typed expression trees (depth <= 5) over a fixed schema of nullable / non-nullable
//! Int8 / Int32 / Int64 / Boolean / Utf8 columns with boundary literals; half of the cases instantiate the
//! left-hand side of one simplifier rule with random sub-expressions.  Each expression `e` is run through the REAL
//!   * `ExprSimplifier::new(ctx).simplify(e)`                                   (mode "plain")
//!   * `ExprSimplifier::new(ctx).with_guarantees(g).simplify(e)`                (mode "guar"; rows satisfy g)
//!   * `PhysicalExprSimplifier::new(schema).simplify(create_physical_expr(e))`  (mode "phys")
//! and original and simplified are evaluated by the REAL engine (`create_physical_expr(..).evaluate`) on the
//! exhaustive small-domain table of the columns the expression uses plus random rows.  Direct oracle (model
//! independent): on every row on which `e` evaluates without error `e'` gives the same value and the result
//! arrays have the same data type.  The first differing row is the failing input.
//! For the correspondence the pair is also printed as RefSQL terms (JSON read by lib/props/C04.py) together
//! with the per-column domains and the engine's values of `e` on the product rows.
use std::panic::{catch_unwind, AssertUnwindSafe};
use std::sync::Arc;

use datafusion::arrow::array::*;
use datafusion::arrow::datatypes::{DataType, Field, Schema};
use datafusion::arrow::record_batch::RecordBatch;
use datafusion::common::{DFSchema, ScalarValue};
use datafusion::functions::expr_fn::{coalesce, nullif};
use datafusion::logical_expr::execution_props::ExecutionProps;
use datafusion::logical_expr::expr::{InList, ScalarFunction};
use datafusion::logical_expr::interval_arithmetic::{Interval, NullableInterval};
use datafusion::logical_expr::physical_planning_context::PhysicalPlanningContext;
use datafusion::logical_expr::simplify::SimplifyContext;
use datafusion::logical_expr::{
    binary_expr, cast, col, in_list, lit, try_cast, Between, BinaryExpr, Case, Cast, Expr, ExprSchemable, Like,
    Operator, TryCast,
};
use datafusion::optimizer::simplify_expressions::ExprSimplifier;
use datafusion::physical_expr::simplifier::PhysicalExprSimplifier;
use datafusion::physical_expr::{create_physical_expr, PhysicalExpr};
use h_util::{arg, json_str, Rng};

// ------------------------------------------------------------------ schema
#[derive(Clone, Copy, PartialEq, Eq, Debug)]
enum Ty {
    I8,
    I32,
    I64,
    Bool,
    Str,
}
impl Ty {
    fn dt(self) -> DataType {
        match self {
            Ty::I8 => DataType::Int8,
            Ty::I32 => DataType::Int32,
            Ty::I64 => DataType::Int64,
            Ty::Bool => DataType::Boolean,
            Ty::Str => DataType::Utf8,
        }
    }
    fn range(self) -> (i128, i128) {
        match self {
            Ty::I8 => (i8::MIN as i128, i8::MAX as i128),
            Ty::I32 => (i32::MIN as i128, i32::MAX as i128),
            Ty::I64 => (i64::MIN as i128, i64::MAX as i128),
            _ => (0, 0),
        }
    }
    fn is_int(self) -> bool {
        matches!(self, Ty::I8 | Ty::I32 | Ty::I64)
    }
}
const COLS: [(&str, Ty, bool); 10] = [
    ("a8", Ty::I8, true),
    ("b8", Ty::I8, false),
    ("a32", Ty::I32, true),
    ("b32", Ty::I32, false),
    ("a64", Ty::I64, true),
    ("b64", Ty::I64, false),
    ("p", Ty::Bool, true),
    ("q", Ty::Bool, false),
    ("s", Ty::Str, true),
    ("t", Ty::Str, false),
];
const INT_TYS: [Ty; 3] = [Ty::I8, Ty::I32, Ty::I64];

#[derive(Clone, PartialEq, Debug)]
enum V {
    Null,
    I(i128),
    B(bool),
    S(String),
    Other(String),
}
impl V {
    fn json(&self) -> String {
        match self {
            V::Null => "null".into(),
            V::I(x) => x.to_string(),
            V::B(b) => b.to_string(),
            V::S(s) => json_str(s),
            V::Other(s) => format!("{{\"other\":{}}}", json_str(s)),
        }
    }
}
fn sv_to_v(s: &ScalarValue) -> V {
    use ScalarValue::*;
    match s {
        Null => V::Null,
        Int8(x) => x.map(|x| V::I(x as i128)).unwrap_or(V::Null),
        Int16(x) => x.map(|x| V::I(x as i128)).unwrap_or(V::Null),
        Int32(x) => x.map(|x| V::I(x as i128)).unwrap_or(V::Null),
        Int64(x) => x.map(|x| V::I(x as i128)).unwrap_or(V::Null),
        UInt8(x) => x.map(|x| V::I(x as i128)).unwrap_or(V::Null),
        UInt16(x) => x.map(|x| V::I(x as i128)).unwrap_or(V::Null),
        UInt32(x) => x.map(|x| V::I(x as i128)).unwrap_or(V::Null),
        UInt64(x) => x.map(|x| V::I(x as i128)).unwrap_or(V::Null),
        Boolean(x) => x.map(V::B).unwrap_or(V::Null),
        Utf8(x) | LargeUtf8(x) | Utf8View(x) => x.clone().map(V::S).unwrap_or(V::Null),
        other => {
            if other.is_null() {
                V::Null
            } else {
                V::Other(format!("{other:?}"))
            }
        }
    }
}
fn int_lit(ty: Ty, v: Option<i128>) -> Expr {
    match ty {
        Ty::I8 => lit(ScalarValue::Int8(v.map(|x| x as i8))),
        Ty::I32 => lit(ScalarValue::Int32(v.map(|x| x as i32))),
        Ty::I64 => lit(ScalarValue::Int64(v.map(|x| x as i64))),
        _ => unreachable!(),
    }
}
fn null_lit(ty: Ty) -> Expr {
    match ty {
        Ty::Bool => lit(ScalarValue::Boolean(None)),
        Ty::Str => lit(ScalarValue::Utf8(None)),
        t => int_lit(t, None),
    }
}
fn str_lit(s: &str) -> Expr {
    lit(ScalarValue::Utf8(Some(s.to_string())))
}

struct Ctx {
    schema: Arc<Schema>,
    df: Arc<DFSchema>,
    props: ExecutionProps,
}
fn ctx() -> Ctx {
    let schema = Arc::new(Schema::new(
        COLS.iter().map(|(n, t, nl)| Field::new(*n, t.dt(), *nl)).collect::<Vec<_>>(),
    ));
    let df = Arc::new(DFSchema::try_from(schema.as_ref().clone()).unwrap());
    Ctx { schema, df, props: ExecutionProps::new() }
}

// ------------------------------------------------------------------ generator
struct Gen<'a> {
    r: &'a mut Rng,
    cols: Vec<usize>, // columns this expression may use
}
fn bx(e: Expr) -> Box<Expr> {
    Box::new(e)
}
fn bin(l: Expr, op: Operator, r: Expr) -> Expr {
    binary_expr(l, op, r)
}
const CMPS: [Operator; 6] = [Operator::Eq, Operator::NotEq, Operator::Lt, Operator::LtEq, Operator::Gt, Operator::GtEq];

impl<'a> Gen<'a> {
    fn col_of(&mut self, ty: Ty) -> Option<Expr> {
        let c: Vec<usize> = self.cols.iter().copied().filter(|i| COLS[*i].1 == ty).collect();
        if c.is_empty() {
            None
        } else {
            Some(col(COLS[*self.r.pick(&c)].0))
        }
    }
    fn any_int_ty(&mut self) -> Ty {
        let c: Vec<Ty> = self.cols.iter().map(|i| COLS[*i].1).filter(|t| t.is_int()).collect();
        if !c.is_empty() && self.r.chance(4, 5) {
            *self.r.pick(&c)
        } else {
            *self.r.pick(&INT_TYS)
        }
    }
    fn int_val(&mut self, ty: Ty) -> i128 {
        let (lo, hi) = ty.range();
        match self.r.below(12) {
            0 => lo,
            1 => hi,
            2 => lo + 1,
            3 => hi - 1,
            4 | 5 => 0,
            6 | 7 => 1,
            8 => -1,
            9 => 2,
            10 => self.r.range(-3, 5) as i128,
            _ => (self.r.range(-100, 100) as i128).clamp(lo, hi),
        }
    }
    fn lit_of(&mut self, ty: Ty, allow_null: bool) -> Expr {
        if allow_null && self.r.chance(1, 10) {
            return null_lit(ty);
        }
        match ty {
            Ty::Bool => lit(self.r.chance(1, 2)),
            Ty::Str => str_lit(*self.r.pick(&["", "a", "b", "ab", "a%", "%"])),
            t => {
                let v = self.int_val(t);
                int_lit(t, Some(v))
            }
        }
    }
    fn leaf(&mut self, ty: Ty) -> Expr {
        if self.r.chance(3, 4) {
            if let Some(c) = self.col_of(ty) {
                return c;
            }
        }
        self.lit_of(ty, true)
    }
    fn any_ty(&mut self) -> Ty {
        match self.r.below(10) {
            0..=3 => self.any_int_ty(),
            4..=7 => Ty::Bool,
            _ => Ty::Str,
        }
    }
    fn gen(&mut self, ty: Ty, d: u32) -> Expr {
        if d == 0 || self.r.chance(1, 5) {
            return self.leaf(ty);
        }
        match ty {
            Ty::Bool => self.gen_bool(d),
            Ty::Str => self.gen_str(d),
            t => self.gen_int(t, d),
        }
    }
    fn case_of(&mut self, ty: Ty, d: u32) -> Expr {
        let n = 1 + self.r.below(2);
        let mut wt = vec![];
        for _ in 0..n {
            let w = if self.r.chance(1, 6) { self.lit_of(Ty::Bool, true) } else { self.gen(Ty::Bool, d - 1) };
            let t = self.gen(ty, d - 1);
            wt.push((bx(w), bx(t)));
        }
        let els = if self.r.chance(2, 3) { Some(bx(self.gen(ty, d - 1))) } else { None };
        Expr::Case(Case { expr: None, when_then_expr: wt, else_expr: els })
    }
    fn gen_int(&mut self, ty: Ty, d: u32) -> Expr {
        match self.r.below(16) {
            0..=4 => {
                let op = *self.r.pick(&[Operator::Plus, Operator::Minus, Operator::Multiply, Operator::Divide, Operator::Modulo]);
                let a = self.gen(ty, d - 1);
                let b = if matches!(op, Operator::Divide | Operator::Modulo) && self.r.chance(2, 3) {
                    let v = *self.r.pick(&[1i128, 2, -1, 3, 0, 1]);
                    int_lit(ty, Some(v))
                } else if self.r.chance(1, 3) {
                    let v = *self.r.pick(&[0i128, 1, 1, 0, 2, -1]);
                    int_lit(ty, Some(v))
                } else {
                    self.gen(ty, d - 1)
                };
                if self.r.chance(1, 4) && !matches!(op, Operator::Divide | Operator::Modulo | Operator::Minus) {
                    bin(b, op, a)
                } else {
                    bin(a, op, b)
                }
            }
            5 => Expr::Negative(bx(self.gen(ty, d - 1))),
            6..=8 => {
                let op = *self.r.pick(&[Operator::BitwiseAnd, Operator::BitwiseOr, Operator::BitwiseXor]);
                let a = self.gen(ty, d - 1);
                let b = self.gen(ty, d - 1);
                bin(a, op, b)
            }
            9 => {
                let op = *self.r.pick(&[Operator::BitwiseShiftLeft, Operator::BitwiseShiftRight]);
                let a = self.gen(ty, d - 1);
                let k = *self.r.pick(&[0i128, 0, 1, 3]);
                bin(a, op, int_lit(ty, Some(k)))
            }
            10 | 11 => {
                let from = *self.r.pick(&INT_TYS);
                if from == ty {
                    return self.gen(ty, d - 1);
                }
                let a = self.gen(from, d - 1);
                if self.r.chance(1, 3) {
                    try_cast(a, ty.dt())
                } else {
                    cast(a, ty.dt())
                }
            }
            12 | 13 => self.case_of(ty, d),
            14 => {
                let a = self.gen(ty, d - 1);
                let b = self.gen(ty, d - 1);
                coalesce(vec![a, b])
            }
            _ => {
                let a = self.gen(ty, d - 1);
                let b = self.gen(ty, d - 1);
                nullif(a, b)
            }
        }
    }
    fn gen_str(&mut self, d: u32) -> Expr {
        match self.r.below(4) {
            0 | 1 => self.case_of(Ty::Str, d),
            2 => {
                let a = self.gen(Ty::Str, d - 1);
                let b = self.gen(Ty::Str, d - 1);
                coalesce(vec![a, b])
            }
            _ => {
                let a = self.gen(Ty::Str, d - 1);
                let b = self.gen(Ty::Str, d - 1);
                nullif(a, b)
            }
        }
    }
    /// comparison operands: same type, or a narrower integer column cast up against a wider literal
    fn cmp_operands(&mut self, d: u32) -> (Expr, Expr) {
        let ty = self.any_ty();
        if ty.is_int() && self.r.chance(1, 3) {
            // cast(narrow) vs wider literal (unwrap_cast)
            let wide = if ty == Ty::I64 { Ty::I32 } else { ty };
            let (narrow, wide) = if wide == Ty::I8 { (Ty::I8, *self.r.pick(&[Ty::I32, Ty::I64])) } else { (*self.r.pick(&[Ty::I8, wide]), Ty::I64) };
            if narrow != wide {
                let a = self.gen(narrow, d.saturating_sub(2));
                let c = if self.r.chance(1, 4) { try_cast(a, wide.dt()) } else { cast(a, wide.dt()) };
                // literal of the wide type: in and out of the narrow range
                let (lo, hi) = narrow.range();
                let v = match self.r.below(8) {
                    0 => hi,
                    1 => hi + 1,
                    2 => lo,
                    3 => lo - 1,
                    _ => self.int_val(wide),
                };
                let (wlo, whi) = wide.range();
                return (c, int_lit(wide, Some(v.clamp(wlo, whi))));
            }
        }
        let a = self.gen(ty, d - 1);
        let b = if self.r.chance(1, 2) { self.lit_of(ty, true) } else { self.gen(ty, d - 1) };
        (a, b)
    }
    fn lit_list(&mut self, ty: Ty, n: u64) -> Vec<Expr> {
        (0..n).map(|_| self.lit_of(ty, true)).collect()
    }
    fn gen_bool(&mut self, d: u32) -> Expr {
        match self.r.below(24) {
            0..=5 => {
                let (a, b) = self.cmp_operands(d);
                let ty_bool = matches!(a.get_type(ctx().df.as_ref()), Ok(DataType::Boolean));
                let op = if ty_bool { *self.r.pick(&[Operator::Eq, Operator::NotEq]) } else { *self.r.pick(&CMPS) };
                if self.r.chance(1, 5) {
                    bin(b, op, a)
                } else {
                    bin(a, op, b)
                }
            }
            6..=8 => {
                let a = self.gen(Ty::Bool, d - 1);
                let b = self.gen(Ty::Bool, d - 1);
                bin(a, Operator::And, b)
            }
            9..=11 => {
                let a = self.gen(Ty::Bool, d - 1);
                let b = self.gen(Ty::Bool, d - 1);
                bin(a, Operator::Or, b)
            }
            12 | 13 => Expr::Not(bx(self.gen(Ty::Bool, d - 1))),
            14 => {
                let ty = self.any_ty();
                let a = self.gen(ty, d - 1);
                if self.r.chance(1, 2) {
                    Expr::IsNull(bx(a))
                } else {
                    Expr::IsNotNull(bx(a))
                }
            }
            15 => {
                let a = bx(self.gen(Ty::Bool, d - 1));
                match self.r.below(6) {
                    0 => Expr::IsTrue(a),
                    1 => Expr::IsFalse(a),
                    2 => Expr::IsUnknown(a),
                    3 => Expr::IsNotTrue(a),
                    4 => Expr::IsNotFalse(a),
                    _ => Expr::IsNotUnknown(a),
                }
            }
            16 => {
                let ty = self.any_ty();
                let a = self.gen(ty, d - 1);
                let b = self.gen(ty, d - 1);
                let op = if self.r.chance(1, 2) { Operator::IsDistinctFrom } else { Operator::IsNotDistinctFrom };
                bin(a, op, b)
            }
            17 => {
                let ty = self.any_int_ty();
                let a = self.gen(ty, d - 1);
                let lo = self.lit_of(ty, true);
                let hi = self.lit_of(ty, true);
                Expr::Between(Between::new(bx(a), self.r.chance(1, 3), bx(lo), bx(hi)))
            }
            18 | 19 => {
                let ty = if self.r.chance(3, 4) { self.any_int_ty() } else { Ty::Str };
                let a = self.gen(ty, d.saturating_sub(2));
                let n = self.r.below(5);
                let l = self.lit_list(ty, n);
                in_list(a, l, self.r.chance(1, 3))
            }
            20 | 21 => self.case_of(Ty::Bool, d),
            22 => {
                let a = self.gen(Ty::Str, d.saturating_sub(2));
                let p = str_lit(*self.r.pick(&["%", "a", "a%", "%%", "a%%b", "_", "ab", "", "%a"]));
                Expr::Like(Like::new(self.r.chance(1, 3), bx(a), bx(p), None, false))
            }
            _ => {
                let a = self.gen(Ty::Str, d.saturating_sub(2));
                let p = str_lit(*self.r.pick(&["^a$", "a", "^a", "a|b", "^(a|b)$", "", "^$", "^ab$", ".*"]));
                let op = *self.r.pick(&[Operator::RegexMatch, Operator::RegexNotMatch, Operator::RegexIMatch, Operator::RegexNotIMatch]);
                bin(a, op, p)
            }
        }
    }

    /// instantiate the left-hand side of one simplifier rule; returns (pattern name, expression)
    fn pattern(&mut self, d: u32) -> (&'static str, Expr) {
        use Operator::*;
        let sd = d.saturating_sub(2).max(1);
        let a = self.gen(Ty::Bool, sd);
        let b = self.gen(Ty::Bool, sd);
        let c = self.gen(Ty::Bool, sd);
        let ity = self.any_int_ty();
        let x = self.gen(ity, sd);
        let y = self.gen(ity, sd);
        let xc = self.col_of(ity).unwrap_or_else(|| x.clone());
        let l1 = self.lit_of(ity, false);
        let l2 = self.lit_of(ity, false);
        let zero = int_lit(ity, Some(0));
        let one = int_lit(ity, Some(1));
        let tru = lit(true);
        let fls = lit(false);
        let nul = null_lit(Ty::Bool);
        let any_ty = self.any_ty();
        let z = self.gen(any_ty, sd);
        let n1 = self.r.below(4);
        let n2 = self.r.below(4);
        let li1 = self.lit_list(ity, n1);
        let mut li2 = self.lit_list(ity, n2);
        if !li1.is_empty() && self.r.chance(1, 2) {
            li2.push(li1[0].clone());
        }
        let k = self.r.below(84);
        match k {
            0 => ("eq_self", bin(z.clone(), Eq, z)),
            1 => ("ne_self", bin(z.clone(), NotEq, z)),
            2 => ("eq_true", bin(a, Eq, tru)),
            3 => ("eq_false", bin(a, Eq, fls)),
            4 => ("eq_null", bin(a, Eq, nul)),
            5 => ("true_eq", bin(tru, Eq, a)),
            6 => ("ne_true", bin(a, NotEq, tru)),
            7 => ("ne_false", bin(fls, NotEq, a)),
            8 => ("and_true", bin(a, And, tru)),
            9 => ("and_false", bin(a, And, fls)),
            10 => ("and_null", bin(a, And, nul)),
            11 => ("or_true", bin(a, Or, tru)),
            12 => ("or_false", bin(fls, Or, a)),
            13 => ("or_null", bin(nul, Or, a)),
            14 => ("and_self", bin(a.clone(), And, a)),
            15 => ("or_self", bin(bin(a.clone(), Or, b), Or, a)),
            16 => ("and_not_self", bin(a.clone(), And, Expr::Not(bx(a)))),
            17 => ("not_self_or", bin(Expr::Not(bx(a.clone())), Or, a)),
            18 => ("and_absorb", bin(a.clone(), And, bin(a, Or, b))),
            19 => ("or_absorb", bin(bin(a.clone(), And, b), Or, a)),
            20 => ("or_common", bin(bin(a.clone(), And, b), Or, bin(a, And, c))),
            21 => ("not_and", Expr::Not(bx(bin(a, And, b)))),
            22 => ("not_or", Expr::Not(bx(bin(a, Or, b)))),
            23 => ("not_not", Expr::Not(bx(Expr::Not(bx(a))))),
            24 => ("not_cmp", Expr::Not(bx(bin(x, *self.r.pick(&CMPS), y)))),
            25 => ("not_inlist", Expr::Not(bx(in_list(x, li1, self.r.chance(1, 2))))),
            26 => ("not_between", Expr::Not(bx(Expr::Between(Between::new(bx(x), self.r.chance(1, 2), bx(l1), bx(l2)))))),
            27 => ("not_isnull", Expr::Not(bx(Expr::IsNull(bx(z))))),
            28 => ("ge_and_le", bin(bin(x.clone(), GtEq, l1.clone()), And, bin(x, LtEq, l1))),
            29 => ("ge_and_le_expr", bin(bin(x.clone(), GtEq, y.clone()), And, bin(x, LtEq, y))),
            30 => ("eq_and_ne", bin(bin(x.clone(), Eq, l1), And, bin(x, NotEq, l2))),
            31 => ("ne_and_eq", bin(bin(l2, NotEq, x.clone()), And, bin(x, Eq, l1))),
            32 => ("case_when_true", Expr::Case(Case { expr: None, when_then_expr: vec![(bx(a), bx(x.clone())), (bx(tru), bx(y))], else_expr: Some(bx(x)) })),
            33 => ("case_when_false", Expr::Case(Case { expr: None, when_then_expr: vec![(bx(fls), bx(x))], else_expr: if self.r.chance(1, 2) { Some(bx(y)) } else { None } })),
            34 => ("case_when_null", Expr::Case(Case { expr: None, when_then_expr: vec![(bx(nul), bx(x))], else_expr: Some(bx(y)) })),
            35 => ("case_true_false", Expr::Case(Case { expr: None, when_then_expr: vec![(bx(a), bx(tru))], else_expr: Some(bx(fls)) })),
            36 => ("case_bool", Expr::Case(Case { expr: None, when_then_expr: vec![(bx(a), bx(b))], else_expr: if self.r.chance(1, 2) { Some(bx(c)) } else { None } })),
            37 => ("case_bool_lits", Expr::Case(Case {
                expr: None,
                when_then_expr: vec![(bx(a), bx(self.lit_of(Ty::Bool, true))), (bx(b), bx(self.lit_of(Ty::Bool, true))), (bx(c), bx(self.lit_of(Ty::Bool, true)))],
                else_expr: if self.r.chance(1, 2) { Some(bx(self.lit_of(Ty::Bool, true))) } else { None },
            })),
            38 => ("case_lit_eq", bin(
                Expr::Case(Case { expr: None, when_then_expr: vec![(bx(a), bx(l1.clone())), (bx(b), bx(l2.clone()))], else_expr: if self.r.chance(1, 2) { Some(bx(self.lit_of(ity, true))) } else { None } }),
                if self.r.chance(1, 2) { Eq } else { NotEq },
                if self.r.chance(1, 2) { l1 } else { self.lit_of(ity, true) },
            )),
            39 => ("between", Expr::Between(Between::new(bx(x), self.r.chance(1, 2), bx(l1), bx(l2)))),
            40 => ("isnull_lit", Expr::IsNull(bx(self.lit_of(any_ty, true)))),
            41 => ("isnotnull_nonnullable", Expr::IsNotNull(bx(z))),
            42 => ("in_empty", in_list(x, vec![], self.r.chance(1, 2))),
            43 => ("in_null", in_list(x, vec![null_lit(ity)], self.r.chance(1, 2))),
            44 => ("null_in", in_list(null_lit(ity), li1, self.r.chance(1, 2))),
            45 => ("eq_or_eq", bin(bin(bin(xc.clone(), Eq, l1), Or, bin(l2, Eq, xc.clone())), Or, bin(xc, Eq, self.lit_of(ity, true)))),
            46 => ("in_and_in", bin(in_list(x.clone(), li1, false), And, in_list(x, li2, false))),
            47 => ("notin_and_notin", bin(in_list(x.clone(), li1, true), And, in_list(x, li2, true))),
            48 => ("in_and_notin", bin(in_list(x.clone(), li1, false), And, in_list(x, li2, true))),
            49 => ("notin_and_in", bin(in_list(x.clone(), li1, true), And, in_list(x, li2, false))),
            50 => ("notin_or_notin", bin(in_list(x.clone(), li1, true), Or, in_list(x, li2, true))),
            51 => ("in_or_in", bin(in_list(xc.clone(), li1, false), Or, in_list(xc, li2, false))),
            52 => {
                let (c, l) = self.cmp_operands(3);
                ("cmp_mixed", bin(c, *self.r.pick(&CMPS), l))
            }
            53 => {
                // narrowing cast of a wide column compared with a narrow literal
                let wide = *self.r.pick(&[Ty::I32, Ty::I64]);
                let narrow = if wide == Ty::I64 { *self.r.pick(&[Ty::I8, Ty::I32]) } else { Ty::I8 };
                let w = self.col_of(wide).unwrap_or_else(|| col(if wide == Ty::I64 { "a64" } else { "a32" }));
                let cexp = if self.r.chance(1, 2) { try_cast(w, narrow.dt()) } else { cast(w, narrow.dt()) };
                let l = self.lit_of(narrow, false);
                ("cast_narrowing", bin(cexp, *self.r.pick(&CMPS), l))
            }
            54 => {
                let narrow = *self.r.pick(&[Ty::I8, Ty::I32]);
                let w = self.col_of(narrow).unwrap_or_else(|| col(if narrow == Ty::I8 { "a8" } else { "a32" }));
                let n = 1 + self.r.below(3);
                let l: Vec<Expr> = (0..n).map(|_| { let v = self.int_val(narrow); int_lit(Ty::I64, Some(v)) }).collect();
                ("cast_inlist", in_list(cast(w, DataType::Int64), l, self.r.chance(1, 3)))
            }
            55 => ("like_all", Expr::Like(Like::new(self.r.chance(1, 2), bx(self.gen(Ty::Str, 1)), bx(str_lit("%")), None, false))),
            56 => ("like_plain", Expr::Like(Like::new(self.r.chance(1, 2), bx(self.gen(Ty::Str, 1)), bx(str_lit(*self.r.pick(&["a", "ab", ""]))), None, false))),
            57 => ("like_pct2", Expr::Like(Like::new(self.r.chance(1, 2), bx(self.gen(Ty::Str, 1)), bx(str_lit(*self.r.pick(&["%%", "a%%", "%%%a"]))), None, false))),
            58 => ("like_null", Expr::Like(Like::new(false, bx(self.gen(Ty::Str, 1)), bx(null_lit(Ty::Str)), None, false))),
            59 => ("regex_anchored", bin(self.gen(Ty::Str, 1), *self.r.pick(&[RegexMatch, RegexNotMatch]), str_lit(*self.r.pick(&["^a$", "^(a|b)$", "^ab$", "^$", "^(a|b|ab)$"])))),
            60 => ("regex_contains", bin(self.gen(Ty::Str, 1), *self.r.pick(&[RegexMatch, RegexNotMatch, RegexIMatch]), str_lit(*self.r.pick(&["a", "^a", "b$", "", ".*", "a|b"])))),
            61 => ("mul_one", bin(x, Multiply, one)),
            62 => ("one_mul", bin(one, Multiply, x)),
            63 => ("mul_zero", bin(x, Multiply, zero)),
            64 => ("zero_mul", bin(zero, Multiply, x)),
            65 => ("div_one", bin(x, Divide, one)),
            66 => ("mod_one", bin(x, Modulo, one)),
            67 => ("div_zero", bin(x, if self.r.chance(1, 2) { Divide } else { Modulo }, zero)),
            68 => ("bitand_zero", bin(x, BitwiseAnd, zero)),
            69 => ("bitand_neg", bin(Expr::Negative(bx(x.clone())), BitwiseAnd, x)),
            70 => ("bitand_self", bin(bin(x.clone(), BitwiseAnd, y), BitwiseAnd, x)),
            71 => ("bitand_absorb", bin(x.clone(), BitwiseAnd, bin(x, BitwiseOr, y))),
            72 => ("bitor_zero", bin(zero, BitwiseOr, x)),
            73 => ("bitor_neg", bin(x.clone(), BitwiseOr, Expr::Negative(bx(x)))),
            74 => ("bitor_absorb", bin(bin(x.clone(), BitwiseAnd, y), BitwiseOr, x)),
            75 => ("bitxor_zero", bin(x, BitwiseXor, zero)),
            76 => ("bitxor_neg", bin(Expr::Negative(bx(x.clone())), BitwiseXor, x)),
            77 => ("bitxor_self", bin(bin(x.clone(), BitwiseXor, y), BitwiseXor, x)),
            78 => ("bitxor_self2", bin(x.clone(), BitwiseXor, bin(y, BitwiseXor, x))),
            79 => ("shift_zero", bin(x, if self.r.chance(1, 2) { BitwiseShiftLeft } else { BitwiseShiftRight }, zero)),
            80 => ("neg_neg", Expr::Negative(bx(Expr::Negative(bx(x))))),
            81 => ("neg_bitand", Expr::Negative(bx(bin(x, if self.r.chance(1, 2) { BitwiseAnd } else { BitwiseOr }, y)))),
            82 => ("coalesce", coalesce(vec![if self.r.chance(1, 2) { null_lit(ity) } else { x.clone() }, if self.r.chance(1, 2) { l1 } else { y }, x])),
            _ => ("nullif", nullif(x.clone(), if self.r.chance(1, 2) { x } else { l1 })),
        }
    }
}

// ------------------------------------------------------------------ RefSQL rendering (JSON read by lib/props/C01.py r_expr)
fn col_index(name: &str) -> Option<usize> {
    COLS.iter().position(|c| c.0 == name)
}
fn int_dt_range(dt: &DataType) -> Option<(i128, i128)> {
    use DataType::*;
    Some(match dt {
        Int8 => (i8::MIN as i128, i8::MAX as i128),
        Int16 => (i16::MIN as i128, i16::MAX as i128),
        Int32 => (i32::MIN as i128, i32::MAX as i128),
        Int64 => (i64::MIN as i128, i64::MAX as i128),
        UInt8 => (0, u8::MAX as i128),
        UInt16 => (0, u16::MAX as i128),
        UInt32 => (0, u32::MAX as i128),
        UInt64 => (0, u64::MAX as i128),
        _ => return None,
    })
}
fn to_ref(e: &Expr, df: &DFSchema) -> Option<String> {
    let r = |x: &Expr| to_ref(x, df);
    Some(match e {
        Expr::Column(c) => format!("[\"col\",0,{}]", col_index(&c.name)?),
        Expr::Literal(sv, _) => match sv_to_v(sv) {
            V::Other(_) => return None,
            v => format!("[\"lit\",{}]", v.json()),
        },
        Expr::Alias(a) => r(&a.expr)?,
        Expr::BinaryExpr(BinaryExpr { left, op, right }) => {
            let (l, rr) = (r(left)?, r(right)?);
            use Operator::*;
            match op {
                And => format!("[\"and\",{l},{rr}]"),
                Or => format!("[\"or\",{l},{rr}]"),
                Eq | NotEq | Lt | LtEq | Gt | GtEq => {
                    let n = match op { Eq => "=", NotEq => "<>", Lt => "<", LtEq => "<=", Gt => ">", _ => ">=" };
                    format!("[\"cmp\",\"{n}\",{l},{rr}]")
                }
                IsDistinctFrom => format!("[\"distinct\",false,{l},{rr}]"),
                IsNotDistinctFrom => format!("[\"distinct\",true,{l},{rr}]"),
                Plus | Minus | Multiply | Divide | Modulo => {
                    // the reference has checked Int64 arithmetic only (narrower types wrap at their own width)
                    if left.get_type(df).ok()? != DataType::Int64 || right.get_type(df).ok()? != DataType::Int64 {
                        return None;
                    }
                    let n = match op { Plus => "+", Minus => "-", Multiply => "*", Divide => "/", _ => "%" };
                    format!("[\"arith\",\"{n}\",{l},{rr}]")
                }
                _ => return None,
            }
        }
        Expr::Not(a) => format!("[\"not\",{}]", r(a)?),
        Expr::IsNull(a) => format!("[\"isnull\",false,{}]", r(a)?),
        Expr::IsNotNull(a) => format!("[\"isnull\",true,{}]", r(a)?),
        Expr::IsUnknown(a) => format!("[\"isnull\",false,{}]", r(a)?),
        Expr::IsNotUnknown(a) => format!("[\"isnull\",true,{}]", r(a)?),
        Expr::IsTrue(a) => format!("[\"distinct\",true,{},[\"lit\",true]]", r(a)?),
        Expr::IsNotTrue(a) => format!("[\"distinct\",false,{},[\"lit\",true]]", r(a)?),
        Expr::IsFalse(a) => format!("[\"distinct\",true,{},[\"lit\",false]]", r(a)?),
        Expr::IsNotFalse(a) => format!("[\"distinct\",false,{},[\"lit\",false]]", r(a)?),
        Expr::Between(b) => format!("[\"between\",{},{},{},{}]", b.negated, r(&b.expr)?, r(&b.low)?, r(&b.high)?),
        Expr::InList(InList { expr, list, negated }) => {
            let l: Option<Vec<String>> = list.iter().map(|x| r(x)).collect();
            format!("[\"inlist\",{},{},[{}]]", negated, r(expr)?, l?.join(","))
        }
        Expr::Case(Case { expr, when_then_expr, else_expr }) => {
            let mut ws = vec![];
            for (w, t) in when_then_expr {
                let wj = match expr {
                    None => r(w)?,
                    Some(x) => format!("[\"cmp\",\"=\",{},{}]", r(x)?, r(w)?),
                };
                ws.push(format!("[{},{}]", wj, r(t)?));
            }
            let el = match else_expr {
                None => "null".to_string(),
                Some(x) => r(x)?,
            };
            format!("[\"case\",[{}],{}]", ws.join(","), el)
        }
        Expr::Cast(Cast { expr, field }) | Expr::TryCast(TryCast { expr, field }) => {
            // a widening integer cast is the identity on values; everything else is outside the fragment
            let from = int_dt_range(&expr.get_type(df).ok()?)?;
            let to = int_dt_range(field.data_type())?;
            if to.0 <= from.0 && from.1 <= to.1 {
                r(expr)?
            } else {
                return None;
            }
        }
        Expr::ScalarFunction(ScalarFunction { func, args }) => {
            let l: Option<Vec<String>> = args.iter().map(|x| r(x)).collect();
            let l = l?;
            match func.name() {
                "coalesce" => format!("[\"coalesce\",[{}]]", l.join(",")),
                "nullif" if l.len() == 2 => format!("[\"nullif\",{},{}]", l[0], l[1]),
                _ => return None,
            }
        }
        _ => return None,
    })
}

// ------------------------------------------------------------------ defect-class triggers (known-finding keys)
fn walk(e: &Expr, f: &mut dyn FnMut(&Expr)) {
    use datafusion::common::tree_node::{TreeNode, TreeNodeRecursion};
    let _ = e.apply(|n| {
        f(n);
        Ok(TreeNodeRecursion::Continue)
    });
}
fn is_bitop(op: &Operator) -> bool {
    matches!(op, Operator::BitwiseAnd | Operator::BitwiseOr | Operator::BitwiseXor)
}
/// the probe expression of an "IN-list-like" atom (x IN (..), x = literal, literal = x)
fn inlist_probe(n: &Expr) -> Option<Expr> {
    match n {
        Expr::InList(il) => Some(il.expr.as_ref().clone()),
        Expr::BinaryExpr(BinaryExpr { left, op: Operator::Eq, right }) => match (left.as_ref(), right.as_ref()) {
            (x, Expr::Literal(..)) if !matches!(x, Expr::Literal(..)) => Some(x.clone()),
            (Expr::Literal(..), x) if !matches!(x, Expr::Literal(..)) => Some(x.clone()),
            _ => None,
        },
        _ => None,
    }
}
/// the syntactic triggers of the known defect classes present in the ORIGINAL expression / the guarantees
struct Triggers {
    inlist_pair: bool,
    empty_inlist: bool,
    neg_bit: bool,
    has_neg: bool,
    trycast_narrow: bool,
    maybenull_point: Vec<usize>,
}
fn triggers(e: &Expr, df: &DFSchema, guar: &[(usize, Guar)]) -> Triggers {
    let mut probes: Vec<Expr> = vec![];
    let mut inlist_pair = false;
    let mut empty_inlist = false;
    let mut has_neg = false;
    let mut has_bit = false;
    let mut trycast_narrow = false;
    walk(e, &mut |n| {
        if let Some(p) = inlist_probe(n) {
            if probes.contains(&p) {
                inlist_pair = true;
            }
            probes.push(p);
        }
        match n {
            Expr::InList(il) if il.list.is_empty() => empty_inlist = true,
            Expr::BinaryExpr(BinaryExpr { op, .. }) if is_bitop(op) => has_bit = true,
            Expr::Negative(_) => has_neg = true,
            Expr::TryCast(TryCast { expr, field }) => {
                if let (Some(from), Some(to)) = (expr.get_type(df).ok().and_then(|t| int_dt_range(&t)), int_dt_range(field.data_type())) {
                    if !(to.0 <= from.0 && from.1 <= to.1) {
                        trycast_narrow = true;
                    }
                }
            }
            _ => {}
        }
    });
    Triggers {
        inlist_pair,
        empty_inlist,
        // unary minus anywhere together with a bitwise operator anywhere (other rules may bring them together)
        neg_bit: has_neg && has_bit,
        has_neg,
        trycast_narrow,
        maybenull_point: guar.iter().filter(|(_, g)| matches!(g, Guar::MaybeNull(lo, hi) if lo == hi)).map(|(ci, _)| *ci).collect(),
    }
}
fn trigger_names(t: &Triggers) -> Vec<&'static str> {
    let mut v = vec![];
    if t.inlist_pair {
        v.push("inlist-merge-ignores-null");
    }
    if t.trycast_narrow {
        v.push("unwrap-narrowing-try_cast");
    }
    if t.empty_inlist {
        v.push("empty-inlist-null-probe");
    }
    if t.neg_bit {
        v.push("negative-as-bitwise-not");
    }
    if !t.maybenull_point.is_empty() {
        v.push("guarantee-maybenull-point-as-constant");
    }
    v
}
/// stable key of the known defect class the ORIGINAL expression can trigger and the failing row is consistent with
/// ("" = none).  v0 / v1 = value of the original / simplified expression on the failing row (None = error).
fn defect_key(e: &Expr, df: &DFSchema, guar: &[(usize, Guar)], row: &[V], v0: &V, v1: Option<&V>, err1: &str) -> String {
    let t = triggers(e, df, guar);
    let (inlist_pair, empty_inlist, neg_bit, has_neg, trycast_narrow) = (t.inlist_pair, t.empty_inlist, t.neg_bit, t.has_neg, t.trycast_narrow);
    let orig_null = *v0 == V::Null;
    let simp_null = v1 == Some(&V::Null);
    let mut ks = vec![];
    // the three-valued-logic defects: the mismatch always involves a NULL on one side
    if inlist_pair && (orig_null || simp_null) {
        ks.push("inlist-merge-ignores-null");
    }
    if trycast_narrow && orig_null {
        ks.push("unwrap-narrowing-try_cast");
    }
    if empty_inlist && (orig_null != simp_null) {
        ks.push("empty-inlist-null-probe");
    }
    if neg_bit {
        ks.push("negative-as-bitwise-not");
    }
    // a MaybeNull guarantee with a point interval is treated as the constant
    // (the failing row has NULL in such a column)
    if t.maybenull_point.iter().any(|ci| row[*ci] == V::Null) {
        ks.push("guarantee-maybenull-point-as-constant");
    }
    // -(MIN): the array kernel wraps, a folded / guaranteed literal operand makes the scalar kernel fail
    if has_neg && v1.is_none() && err1.contains("Arithmetic overflow") {
        ks.push("negate-min-scalar-overflows");
    }
    ks.join("+")
}

// ------------------------------------------------------------------ rows and evaluation
fn base_domain(ci: usize) -> Vec<V> {
    let (_, ty, nullable) = COLS[ci];
    let mut d = vec![];
    if nullable {
        d.push(V::Null);
    }
    match ty {
        Ty::Bool => {
            d.push(V::B(true));
            d.push(V::B(false));
        }
        Ty::Str => {
            for s in ["", "a", "b"] {
                d.push(V::S(s.into()));
            }
        }
        t => {
            let (lo, hi) = t.range();
            for v in [-1, 0, 1, 2, lo, hi] {
                d.push(V::I(v));
            }
        }
    }
    d
}
fn default_val(ci: usize) -> V {
    let (_, ty, nullable) = COLS[ci];
    if nullable {
        return V::Null;
    }
    match ty {
        Ty::Bool => V::B(false),
        Ty::Str => V::S("".into()),
        _ => V::I(0),
    }
}
#[derive(Clone, Debug)]
enum Guar {
    Null,
    NotNull(Option<(i128, i128)>),
    MaybeNull(i128, i128),
}
fn guar_ok(g: &Guar, v: &V) -> bool {
    match (g, v) {
        (Guar::Null, V::Null) => true,
        (Guar::Null, _) => false,
        (Guar::NotNull(_), V::Null) => false,
        (Guar::NotNull(Some((lo, hi))), V::I(x)) | (Guar::MaybeNull(lo, hi), V::I(x)) => lo <= x && x <= hi,
        (Guar::MaybeNull(..), V::Null) => true,
        _ => true,
    }
}
fn build_batch(schema: &Arc<Schema>, rows: &[Vec<V>]) -> RecordBatch {
    let mut arrs: Vec<ArrayRef> = vec![];
    for (ci, (_, ty, _)) in COLS.iter().enumerate() {
        let geti = |r: &Vec<V>| match &r[ci] {
            V::I(x) => Some(*x),
            _ => None,
        };
        let a: ArrayRef = match ty {
            Ty::I8 => Arc::new(Int8Array::from(rows.iter().map(|r| geti(r).map(|x| x as i8)).collect::<Vec<_>>())),
            Ty::I32 => Arc::new(Int32Array::from(rows.iter().map(|r| geti(r).map(|x| x as i32)).collect::<Vec<_>>())),
            Ty::I64 => Arc::new(Int64Array::from(rows.iter().map(|r| geti(r).map(|x| x as i64)).collect::<Vec<_>>())),
            Ty::Bool => Arc::new(BooleanArray::from(rows.iter().map(|r| match &r[ci] { V::B(b) => Some(*b), _ => None }).collect::<Vec<_>>())),
            Ty::Str => Arc::new(StringArray::from(rows.iter().map(|r| match &r[ci] { V::S(s) => Some(s.clone()), _ => None }).collect::<Vec<_>>())),
        };
        arrs.push(a);
    }
    RecordBatch::try_new(Arc::clone(schema), arrs).unwrap()
}
type RowRes = Result<V, String>;
fn eval_batch(p: &Arc<dyn PhysicalExpr>, batch: &RecordBatch) -> Result<(DataType, Vec<V>), String> {
    let r = catch_unwind(AssertUnwindSafe(|| -> Result<(DataType, Vec<V>), String> {
        let v = p.evaluate(batch).map_err(|e| format!("{e}"))?;
        let arr = v.into_array(batch.num_rows()).map_err(|e| format!("{e}"))?;
        let mut out = Vec::with_capacity(arr.len());
        for i in 0..arr.len() {
            out.push(sv_to_v(&ScalarValue::try_from_array(&arr, i).map_err(|e| format!("{e}"))?));
        }
        Ok((arr.data_type().clone(), out))
    }));
    match r {
        Ok(x) => x,
        Err(_) => Err("panic".into()),
    }
}
/// per-row results; the whole batch first, row by row when the vectorised evaluation fails
fn eval_rows(p: &Arc<dyn PhysicalExpr>, batch: &RecordBatch) -> (Option<DataType>, Vec<RowRes>) {
    match eval_batch(p, batch) {
        Ok((dt, vs)) => (Some(dt), vs.into_iter().map(Ok).collect()),
        Err(_) => {
            let mut dt = None;
            let mut out = vec![];
            for i in 0..batch.num_rows() {
                match eval_batch(p, &batch.slice(i, 1)) {
                    Ok((d, mut v)) => {
                        dt = Some(d);
                        out.push(Ok(v.remove(0)));
                    }
                    Err(e) => out.push(Err(e)),
                }
            }
            (dt, out)
        }
    }
}

fn used_cols(e: &Expr) -> Vec<usize> {
    let mut u = vec![];
    walk(e, &mut |n| {
        if let Expr::Column(c) = n {
            if let Some(i) = col_index(&c.name) {
                if !u.contains(&i) {
                    u.push(i);
                }
            }
        }
    });
    u.sort();
    u
}

fn short(s: &str) -> String {
    let s: String = s.chars().take(400).collect();
    s
}

struct Case1 {
    id: i64,
    stream: String,
    mode: &'static str,
    e: Expr,
    guar: Vec<(usize, Guar)>,
}

fn mk_guar_expr(ci: usize, g: &Guar) -> (Expr, NullableInterval) {
    let (name, ty, _) = COLS[ci];
    let dt = ty.dt();
    let iv = |lo: i128, hi: i128| match ty {
        Ty::I8 => Interval::try_new(ScalarValue::Int8(Some(lo as i8)), ScalarValue::Int8(Some(hi as i8))).unwrap(),
        Ty::I32 => Interval::try_new(ScalarValue::Int32(Some(lo as i32)), ScalarValue::Int32(Some(hi as i32))).unwrap(),
        Ty::I64 => Interval::try_new(ScalarValue::Int64(Some(lo as i64)), ScalarValue::Int64(Some(hi as i64))).unwrap(),
        _ => Interval::make_unbounded(&dt).unwrap(),
    };
    let ni = match g {
        Guar::Null => NullableInterval::Null { datatype: dt.clone() },
        Guar::NotNull(None) => NullableInterval::NotNull { values: Interval::make_unbounded(&dt).unwrap() },
        Guar::NotNull(Some((lo, hi))) => NullableInterval::NotNull { values: iv(*lo, *hi) },
        Guar::MaybeNull(lo, hi) => NullableInterval::MaybeNull { values: iv(*lo, *hi) },
    };
    (col(name), ni)
}

fn run_case(cx: &Ctx, c: &Case1, rng: &mut Rng) -> String {
    let e = &c.e;
    let sql = format!("{e}");
    let mut o = format!("{{\"id\":{},\"stream\":{},\"mode\":\"{}\",\"e\":{}", c.id, json_str(&c.stream), c.mode, json_str(&short(&sql)));
    // original physical expression
    let p0 = match catch_unwind(AssertUnwindSafe(|| create_physical_expr(e, cx.df.as_ref(), &cx.props, &PhysicalPlanningContext::default()))) {
        Ok(Ok(p)) => p,
        Ok(Err(er)) => return format!("{o},\"skip\":{},\"ok\":true}}", json_str(&short(&format!("plan: {er}")))),
        Err(_) => return format!("{o},\"skip\":\"plan panic\",\"ok\":true}}"),
    };
    // the simplifier under test
    let mut e2: Option<Expr> = None;
    let p1: Arc<dyn PhysicalExpr> = if c.mode == "phys" {
        let schema = Arc::clone(&cx.schema);
        match catch_unwind(AssertUnwindSafe(|| PhysicalExprSimplifier::new(schema.as_ref()).simplify(Arc::clone(&p0)))) {
            Ok(Ok(p)) => p,
            Ok(Err(er)) => return format!("{o},\"simp_err\":{},\"ok\":true}}", json_str(&short(&format!("{er}")))),
            Err(_) => return format!("{o},\"panic\":\"PhysicalExprSimplifier\",\"ok\":false,\"key\":\"panic\"}}"),
        }
    } else {
        let sc = SimplifyContext::builder().with_schema(Arc::clone(&cx.df)).build();
        let mut s = ExprSimplifier::new(sc);
        if !c.guar.is_empty() {
            s = s.with_guarantees(c.guar.iter().map(|(ci, g)| mk_guar_expr(*ci, g)).collect());
        }
        let r = catch_unwind(AssertUnwindSafe(|| s.simplify(e.clone())));
        let es = match r {
            Ok(Ok(x)) => x,
            // the simplifier may reject an expression whose constant part fails to evaluate (1/0): no output, nothing to compare
            Ok(Err(er)) => return format!("{o},\"simp_err\":{},\"ok\":true}}", json_str(&short(&format!("{er}")))),
            Err(_) => return format!("{o},\"panic\":\"ExprSimplifier\",\"ok\":false,\"key\":\"panic\"}}"),
        };
        let p = match catch_unwind(AssertUnwindSafe(|| create_physical_expr(&es, cx.df.as_ref(), &cx.props, &PhysicalPlanningContext::default()))) {
            Ok(Ok(p)) => p,
            Ok(Err(er)) => {
                return format!("{o},\"e2\":{},\"ok\":false,\"why\":{},\"key\":\"simplified-unplannable\"}}", json_str(&short(&format!("{es}"))), json_str(&short(&format!("simplified expression cannot be planned: {er}"))))
            }
            Err(_) => return format!("{o},\"panic\":\"plan simplified\",\"ok\":false,\"key\":\"panic\"}}"),
        };
        e2 = Some(es);
        p
    };
    let e2s = match &e2 {
        Some(x) => format!("{x}"),
        None => format!("{p1}"),
    };
    o.push_str(&format!(",\"e2\":{}", json_str(&short(&e2s))));
    // rows: the exhaustive product of the domains of the used columns (capped) + random rows
    let used = used_cols(e);
    let mut doms: Vec<Vec<V>> = (0..COLS.len()).map(|ci| vec![default_val(ci)]).collect();
    for &ci in &used {
        let mut d = base_domain(ci);
        if let Some((_, g)) = c.guar.iter().find(|(gc, _)| *gc == ci) {
            if let Guar::NotNull(Some((lo, hi))) | Guar::MaybeNull(lo, hi) = g {
                for v in [*lo, *hi] {
                    if !d.contains(&V::I(v)) {
                        d.push(V::I(v));
                    }
                }
            }
            if matches!(g, Guar::Null) && !d.contains(&V::Null) {
                d.push(V::Null);
            }
            d.retain(|v| guar_ok(g, v));
        }
        doms[ci] = d;
    }
    for (ci, g) in &c.guar {
        // guarantee on a column the expression does not use: the default must satisfy it too
        if !used.contains(ci) {
            let mut d = base_domain(*ci);
            if let Guar::NotNull(Some((lo, _))) | Guar::MaybeNull(lo, _) = g {
                d.insert(0, V::I(*lo));
            }
            d.retain(|v| guar_ok(g, v));
            doms[*ci] = if d.is_empty() { vec![default_val(*ci)] } else { vec![d[0].clone()] };
        }
    }
    let total: usize = doms.iter().map(|d| d.len()).product();
    let mut rows: Vec<Vec<V>> = vec![];
    let exhaustive = total <= 2500 && total > 0;
    if exhaustive {
        let mut idx = vec![0usize; COLS.len()];
        loop {
            rows.push((0..COLS.len()).map(|ci| doms[ci][idx[ci]].clone()).collect());
            let mut k = COLS.len();
            loop {
                if k == 0 {
                    break;
                }
                k -= 1;
                idx[k] += 1;
                if idx[k] < doms[k].len() {
                    break;
                }
                idx[k] = 0;
                if k == 0 {
                    k = usize::MAX;
                    break;
                }
            }
            if k == usize::MAX {
                break;
            }
        }
    }
    let nprod = rows.len();
    let nrand = if total == 0 { 0 } else if exhaustive { 24 } else { 600 };
    for _ in 0..nrand {
        let mut r: Vec<V> = (0..COLS.len()).map(|ci| doms[ci][0].clone()).collect();
        for &ci in &used {
            let (_, ty, nullable) = COLS[ci];
            let g = c.guar.iter().find(|(gc, _)| *gc == ci).map(|x| &x.1);
            let mut v = if rng.chance(1, 2) && !doms[ci].is_empty() {
                rng.pick(&doms[ci]).clone()
            } else {
                match ty {
                    Ty::Bool => V::B(rng.chance(1, 2)),
                    Ty::Str => V::S(rng.pick(&["", "a", "b", "ab", "A", "ba", "abc"]).to_string()),
                    t => {
                        let (lo, hi) = t.range();
                        let x = match rng.below(3) {
                            0 => rng.range(-130, 130) as i128,
                            1 => (rng.next() as i64) as i128,
                            _ => (rng.next() as i32) as i128,
                        };
                        V::I(x.clamp(lo, hi))
                    }
                }
            };
            if nullable && rng.chance(1, 8) {
                v = V::Null;
            }
            if let Some(g) = g {
                if !guar_ok(g, &v) {
                    v = if doms[ci].is_empty() { continue } else { rng.pick(&doms[ci]).clone() };
                }
            }
            r[ci] = v;
        }
        rows.push(r);
    }
    if rows.is_empty() {
        return format!("{o},\"skip\":\"no row satisfies the guarantees\",\"ok\":true}}");
    }
    let batch = build_batch(&cx.schema, &rows);
    let (dt0, r0) = eval_rows(&p0, &batch);
    let (dt1, r1) = eval_rows(&p1, &batch);
    let n_ok = r0.iter().filter(|x| x.is_ok()).count();
    // the failing row: prefer one on which the original has a non-NULL value
    let mut bad: Option<(usize, String)> = None;
    for i in 0..rows.len() {
        if let Ok(v0) = &r0[i] {
            let why = match &r1[i] {
                Ok(v1) if v1 == v0 => continue,
                Ok(v1) => format!("original = {}, simplified = {}", v0.json(), v1.json()),
                Err(er) => format!("original = {}, simplified fails: {}", v0.json(), short(er)),
            };
            let first = bad.is_none();
            if first || (*v0 != V::Null && matches!(&bad, Some((j, _)) if r0[*j] == Ok(V::Null))) {
                bad = Some((i, why));
            }
            if *v0 != V::Null {
                break;
            }
        }
    }
    let mut type_bad = false;
    if bad.is_none() && n_ok > 0 {
        if let (Some(a), Some(b)) = (&dt0, &dt1) {
            if a != b {
                type_bad = true;
            }
        }
    }
    o.push_str(&format!(",\"used\":[{}],\"nrows\":{},\"nprod\":{},\"n_ok\":{},\"changed\":{}",
        used.iter().map(|x| x.to_string()).collect::<Vec<_>>().join(","), rows.len(), nprod, n_ok,
        match &e2 { Some(x) => x != e, None => format!("{p0}") != format!("{p1}") }));
    if !c.guar.is_empty() {
        o.push_str(&format!(",\"guar\":{}", json_str(&format!("{:?}", c.guar.iter().map(|(ci, g)| (COLS[*ci].0, g.clone())).collect::<Vec<_>>()))));
    }
    // RefSQL correspondence data (logical modes only): both terms, the domains, the engine's values on the product rows
    if let Some(es) = &e2 {
        if nprod > 0 && nprod <= 400 {
            if let (Some(j0), Some(j1)) = (to_ref(e, cx.df.as_ref()), to_ref(es, cx.df.as_ref())) {
                let dj: Vec<String> = doms.iter().map(|d| format!("[{}]", d.iter().map(|v| v.json()).collect::<Vec<_>>().join(","))).collect();
                let obs: Vec<String> = r0[..nprod].iter().map(|x| match x { Ok(V::Other(_)) | Err(_) => "\"err\"".to_string(), Ok(v) => v.json() }).collect();
                let cl: Vec<String> = trigger_names(&triggers(e, cx.df.as_ref(), &c.guar)).iter().map(|x| json_str(x)).collect();
                o.push_str(&format!(",\"classes\":[{}],\"ref\":{{\"e\":{},\"e2\":{},\"doms\":[{}],\"obs\":[{}]}}", cl.join(","), j0, j1, dj.join(","), obs.join(",")));
            }
        }
    }
    if let Some((i, why)) = bad {
        let v0 = r0[i].clone().unwrap_or(V::Null);
        let err1 = r1[i].as_ref().err().cloned().unwrap_or_default();
        let dkey = defect_key(e, cx.df.as_ref(), &c.guar, &rows[i], &v0, r1[i].as_ref().ok(), &err1);
        let key = if dkey.is_empty() { format!("unclassified:{}", c.stream) } else { dkey };
        o.push_str(&format!(",\"ok\":false,\"row\":[{}],\"why\":{},\"key\":{}}}", rows[i].iter().map(|v| v.json()).collect::<Vec<_>>().join(","), json_str(&why), json_str(&key)));
    } else if type_bad {
        o.push_str(&format!(",\"ok\":false,\"why\":{},\"key\":\"type-changed\"}}", json_str(&format!("result type changed: {:?} -> {:?}", dt0.unwrap(), dt1.unwrap()))));
    } else {
        o.push_str(",\"ok\":true}");
    }
    o
}

fn witnesses() -> Vec<(&'static str, Expr, Vec<(usize, Guar)>)> {
    use Operator::*;
    let i32l = |v: i128| int_lit(Ty::I32, Some(v));
    vec![
        // a32 IN (1, NULL) AND a32 IN (2): on a32 = 2 the value is NULL, the simplifier folds it to false
        ("witness:inlist-merge-ignores-null:intersection-null-item", bin(in_list(col("a32"), vec![i32l(1), null_lit(Ty::I32)], false), And, in_list(col("a32"), vec![i32l(2)], false)), vec![]),
        // a32 IN (1) AND a32 IN (2): NULL on a32 = NULL, folded to false
        ("witness:inlist-merge-ignores-null:intersection-null-probe", bin(in_list(col("a32"), vec![i32l(1), i32l(3)], false), And, in_list(col("a32"), vec![i32l(2), i32l(4)], false)), vec![]),
        // a32 IN (1, 2) AND a32 NOT IN (1, NULL): on a32 = 2 the value is NULL, the simplifier produces a32 = 2 (TRUE)
        ("witness:inlist-merge-ignores-null:except-null-item", bin(in_list(col("a32"), vec![i32l(1), i32l(2)], false), And, in_list(col("a32"), vec![i32l(1), null_lit(Ty::I32)], true)), vec![]),
        // (-b32) & b32 is rewritten to 0 as if unary minus were bitwise NOT
        ("witness:negative-as-bitwise-not:and", bin(Expr::Negative(bx(col("b32"))), BitwiseAnd, col("b32")), vec![]),
        ("witness:negative-as-bitwise-not:or", bin(col("b32"), BitwiseOr, Expr::Negative(bx(col("b32")))), vec![]),
        ("witness:negative-as-bitwise-not:xor", bin(Expr::Negative(bx(col("b32"))), BitwiseXor, col("b32")), vec![]),
        ("witness:negative-as-bitwise-not:demorgan", Expr::Negative(bx(bin(col("b32"), BitwiseAnd, col("a32")))), vec![]),
        // try_cast(a64 AS INT) <> 1 is NULL when a64 does not fit, the unwrapped a64 <> 1 is TRUE
        ("witness:unwrap-narrowing-try_cast", bin(try_cast(col("a64"), DataType::Int32), NotEq, i32l(1)), vec![]),
        // NULL IN () : FALSE when the probe is an expression, NULL once the probe has been folded to a NULL literal
        ("witness:empty-inlist-null-probe", in_list(nullif(null_lit(Ty::Str), str_lit("%")), vec![], false), vec![]),
        // guarantee b32 = i32::MIN: -b32 wraps to MIN on the column, the folded -(MIN literal) fails with an overflow error
        ("witness:negate-min-scalar-overflows", Expr::Negative(bx(col("b32"))), vec![(3, Guar::NotNull(Some((i32::MIN as i128, i32::MIN as i128))))]),
        // guarantee a8 IN {NULL, 1}: the column is replaced by the literal 1, also on the rows where it is NULL
        ("witness:guarantee-maybenull-point-as-constant", Expr::Negative(bx(col("a8"))), vec![(0, Guar::MaybeNull(1, 1))]),
    ]
}

static LAST_PANIC: std::sync::Mutex<String> = std::sync::Mutex::new(String::new());

/// a panic anywhere while a case is generated or run is reported as data
fn guarded(id: i64, f: impl FnOnce() -> String) -> String {
    match catch_unwind(AssertUnwindSafe(f)) {
        Ok(s) => s,
        Err(_) => {
            let m = LAST_PANIC.lock().map(|g| g.clone()).unwrap_or_default();
            format!("{{\"id\":{},\"harness_panic\":{},\"ok\":true,\"skip\":\"harness panic\"}}", id, json_str(&short(&m)))
        }
    }
}

fn main() {
    let args: Vec<String> = std::env::args().collect();
    let seed: u64 = arg(&args, "--seed", "1").parse().unwrap();
    let n: i64 = arg(&args, "--n", "3000").parse().unwrap();
    let only: i64 = arg(&args, "--case", "-1000000").parse().unwrap();
    std::panic::set_hook(Box::new(|info| {
        if let Ok(mut g) = LAST_PANIC.lock() {
            *g = format!("{info}");
        }
    }));
    let cx = ctx();
    // fixed witnesses first (ids -1, -2, ...), in all three modes where meaningful
    let mut wid = 0i64;
    for (name, e, guar) in witnesses() {
        let modes: &[&'static str] = if guar.is_empty() { &["plain", "phys"] } else { &["guar"] };
        for mode in modes {
            wid -= 1;
            if only != -1000000 && only != wid {
                continue;
            }
            let c = Case1 { id: wid, stream: name.to_string(), mode: *mode, e: e.clone(), guar: guar.clone() };
            let mut rr = Rng::new(seed.wrapping_mul(7919).wrapping_add((wid + 1000) as u64));
            println!("{}", guarded(wid, || run_case(&cx, &c, &mut rr)));
        }
    }
    for id in 0..n {
      let line = guarded(id, || {
        // every case draws from its own generator state so that --case replays it
        let mut r = Rng::new(seed.wrapping_mul(1_000_003).wrapping_add(id as u64));
        let ncols = 1 + r.below(3) as usize;
        let mut cols = vec![];
        while cols.len() < ncols {
            let c = r.below(COLS.len() as u64) as usize;
            if !cols.contains(&c) {
                cols.push(c);
            }
        }
        let depth = 2 + r.below(4) as u32;
        let use_pat = r.chance(1, 2);
        let (stream, e) = {
            let mut g = Gen { r: &mut r, cols: cols.clone() };
            if use_pat {
                let (nm, mut e) = g.pattern(depth);
                // sometimes put the pattern under a random context
                if g.r.chance(1, 3) {
                    let ty = e.get_type(cx.df.as_ref()).ok();
                    if ty == Some(DataType::Boolean) {
                        let b = g.gen(Ty::Bool, 1);
                        e = match g.r.below(3) {
                            0 => bin(e, Operator::And, b),
                            1 => bin(b, Operator::Or, e),
                            _ => Expr::Not(bx(e)),
                        };
                    }
                }
                (format!("pat:{nm}"), e)
            } else {
                let ty = g.any_ty();
                ("gen".to_string(), g.gen(ty, depth))
            }
        };
        let mode = match r.below(10) {
            0..=4 => "plain",
            5..=7 => "guar",
            _ => "phys",
        };
        let mut guar = vec![];
        if mode == "guar" {
            for &ci in &cols {
                if !r.chance(2, 3) {
                    continue;
                }
                let (_, ty, nullable) = COLS[ci];
                let g = if ty.is_int() {
                    let (lo, hi) = ty.range();
                    let a = match r.below(5) { 0 => lo, 1 => -1, 2 => 0, 3 => 1, _ => r.range(-3, 3) as i128 };
                    let b = match r.below(5) { 0 => hi, 1 => a, 2 => a + 1, 3 => 2, _ => a + r.range(0, 4) as i128 };
                    let (a, b) = (a.min(b).clamp(lo, hi), a.max(b).clamp(lo, hi));
                    match r.below(4) {
                        0 if nullable => Guar::Null,
                        1 if nullable => Guar::MaybeNull(a, b),
                        2 => Guar::NotNull(None),
                        _ => Guar::NotNull(Some((a, b))),
                    }
                } else if nullable && r.chance(1, 3) {
                    Guar::Null
                } else {
                    Guar::NotNull(None)
                };
                guar.push((ci, g));
            }
        }
        if only != -1000000 && only != id {
            return String::new();
        }
        let c = Case1 { id, stream, mode, e, guar };
        let mut rr = Rng::new(seed.wrapping_mul(7919).wrapping_add(id as u64 + 1000));
        run_case(&cx, &c, &mut rr)
      });
      if !line.is_empty() {
        println!("{line}");
      }
    }
}
